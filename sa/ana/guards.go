package ana

import (
	"go/constant"
	"go/token"

	"golang.org/x/tools/go/ssa"
)

// Cond is a normalised branch condition.
type Cond struct {
	Neg bool        // the original condition is the negation of the form below
	Op  token.Token // EQL NEQ LSS LEQ GTR GEQ, or ILLEGAL for a plain boolean value
	X   ssa.Value   // boolean value (Op == ILLEGAL) or left operand
	Y   ssa.Value   // right operand
}

// NormCond strips negations and comparisons against true/false.
func NormCond(v ssa.Value) Cond {
	neg := false
	for i := 0; i < 8; i++ {
		switch x := v.(type) {
		case *ssa.UnOp:
			if x.Op == token.NOT {
				neg = !neg
				v = x.X
				continue
			}
		case *ssa.BinOp:
			switch x.Op {
			case token.EQL, token.NEQ:
				if b, ok := boolConst(x.Y); ok {
					if (x.Op == token.EQL) != b {
						neg = !neg
					}
					v = x.X
					continue
				}
				if b, ok := boolConst(x.X); ok {
					if (x.Op == token.EQL) != b {
						neg = !neg
					}
					v = x.Y
					continue
				}
				return Cond{Neg: neg, Op: x.Op, X: x.X, Y: x.Y}
			case token.LSS, token.LEQ, token.GTR, token.GEQ:
				return Cond{Neg: neg, Op: x.Op, X: x.X, Y: x.Y}
			}
		}
		break
	}
	return Cond{Neg: neg, Op: token.ILLEGAL, X: v}
}

func boolConst(v ssa.Value) (bool, bool) {
	c, ok := v.(*ssa.Const)
	if !ok || c.Value == nil || c.Value.Kind() != constant.Bool {
		return false, false
	}
	return constant.BoolVal(c.Value), true
}

// IsNilConst reports the nil constant.
func IsNilConst(v ssa.Value) bool {
	c, ok := v.(*ssa.Const)
	return ok && c.Value == nil
}

// Atom decides, for a normalised condition, whether it is an instance of the
// atom and, if so, for which truth value of the *form* (before Neg) it holds.
// It returns (holdsWhenFormTrue, matched).
type Atom func(c Cond) (holdsWhenTrue bool, ok bool)

type edge struct{ from, to int }

// labelEdges returns the CFG edges of fn on which one of the atoms holds.
func labelEdges(fn *ssa.Function, atoms []Atom) map[edge]bool {
	cut := map[edge]bool{}
	for _, b := range fn.Blocks {
		if len(b.Instrs) == 0 {
			continue
		}
		iff, ok := b.Instrs[len(b.Instrs)-1].(*ssa.If)
		if !ok || len(b.Succs) != 2 {
			continue
		}
		c := NormCond(iff.Cond)
		for _, a := range atoms {
			holdsTrue, ok := a(c)
			if !ok {
				continue
			}
			// form true <=> original true iff !Neg
			origTrue := holdsTrue != c.Neg
			if origTrue {
				cut[edge{b.Index, b.Succs[0].Index}] = true
			} else {
				cut[edge{b.Index, b.Succs[1].Index}] = true
			}
		}
	}
	return cut
}

// succsVia returns the successors of b that are feasible when b is entered from pred: when b ends in an If on
// a boolean phi of b (the value of a materialised && / ||, or of a flag variable) and the phi's operand for
// that predecessor is a constant, only the matching branch can be taken.
func succsVia(pred, b *ssa.BasicBlock) []*ssa.BasicBlock {
	if pred == nil || len(b.Succs) != 2 || len(b.Instrs) == 0 {
		return b.Succs
	}
	iff, ok := b.Instrs[len(b.Instrs)-1].(*ssa.If)
	if !ok {
		return b.Succs
	}
	c := NormCond(iff.Cond)
	if c.Op != token.ILLEGAL {
		return b.Succs
	}
	ph, ok := c.X.(*ssa.Phi)
	if !ok || ph.Block() != b {
		return b.Succs
	}
	for i, p := range b.Preds {
		if p != pred || i >= len(ph.Edges) {
			continue
		}
		v, ok := boolConst(ph.Edges[i])
		if !ok {
			return b.Succs
		}
		if v != c.Neg {
			return b.Succs[:1]
		}
		return b.Succs[1:]
	}
	return b.Succs
}

type blockVia struct{ b, via int }

// reachableWithout reports whether block target is reachable from the entry
// when the given edges are removed.
func reachableWithout(fn *ssa.Function, target *ssa.BasicBlock, cut map[edge]bool) bool {
	if len(fn.Blocks) == 0 {
		return false
	}
	type item struct{ pred, b *ssa.BasicBlock }
	seen := map[blockVia]bool{}
	stack := []item{{nil, fn.Blocks[0]}}
	for len(stack) > 0 {
		it := stack[len(stack)-1]
		stack = stack[:len(stack)-1]
		if it.b == target {
			return true
		}
		for _, s := range succsVia(it.pred, it.b) {
			if cut[edge{it.b.Index, s.Index}] {
				continue
			}
			k := blockVia{s.Index, it.b.Index}
			if !seen[k] {
				seen[k] = true
				stack = append(stack, item{it.b, s})
			}
		}
	}
	return false
}

// Guarded reports whether every path from fn's entry to the instruction
// passes an edge on which one of the atoms holds (intraprocedural).
func Guarded(in ssa.Instruction, atoms ...Atom) bool {
	fn := in.Parent()
	cut := labelEdges(fn, atoms)
	if len(cut) == 0 {
		return false
	}
	return !reachableWithout(fn, in.Block(), cut)
}

// GuardedAvoiding is Guarded restricted to the paths that do not enter any of the avoided blocks: every path
// from the entry to the instruction that stays outside those blocks passes an edge on which an atom holds.
// (With no such path at all the answer is true.)
func GuardedAvoiding(in ssa.Instruction, avoid map[*ssa.BasicBlock]bool, atoms ...Atom) bool {
	fn := in.Parent()
	cut := labelEdges(fn, atoms)
	if len(fn.Blocks) == 0 {
		return true
	}
	if avoid[fn.Blocks[0]] {
		return true
	}
	type item struct{ pred, b *ssa.BasicBlock }
	seen := map[blockVia]bool{}
	stack := []item{{nil, fn.Blocks[0]}}
	for len(stack) > 0 {
		it := stack[len(stack)-1]
		stack = stack[:len(stack)-1]
		if it.b == in.Block() {
			return false
		}
		for _, s := range succsVia(it.pred, it.b) {
			if cut[edge{it.b.Index, s.Index}] || avoid[s] {
				continue
			}
			k := blockVia{s.Index, it.b.Index}
			if !seen[k] {
				seen[k] = true
				stack = append(stack, item{it.b, s})
			}
		}
	}
	return true
}

// GuardedAfter is like Guarded but only paths that start at instruction
// "from" (same function) are considered: every path from the block of from to
// the block of in passes a labelled edge.
func GuardedAfter(from, in ssa.Instruction, atoms ...Atom) bool {
	fn := in.Parent()
	cut := labelEdges(fn, atoms)
	if len(cut) == 0 {
		return false
	}
	if from.Block() == in.Block() {
		return false
	}
	seen := make([]bool, len(fn.Blocks))
	stack := []*ssa.BasicBlock{from.Block()}
	seen[from.Block().Index] = true
	for len(stack) > 0 {
		b := stack[len(stack)-1]
		stack = stack[:len(stack)-1]
		for _, s := range b.Succs {
			if cut[edge{b.Index, s.Index}] {
				continue
			}
			if s == in.Block() {
				return false
			}
			if !seen[s.Index] {
				seen[s.Index] = true
				stack = append(stack, s)
			}
		}
	}
	return true
}

// CallChainSite is where a function is entered from: a call site, or for
// closures the instruction that creates them.
type CallChainSite struct {
	Fn   *ssa.Function
	Site ssa.Instruction
}

// Entries lists the places fn is entered from inside the module: its call
// sites, and for anonymous functions their creation site in the parent (the
// closure inherits the guards of the place that passes it on).
func (p *Prog) Entries(fn *ssa.Function) []CallChainSite {
	var out []CallChainSite
	if mc := p.closureSite[fn]; mc != nil {
		return []CallChainSite{{mc.Parent(), mc}}
	}
	seen := map[ssa.Instruction]bool{}
	for _, e := range p.In[fn] {
		if in, ok := e.Site.(ssa.Instruction); ok && !seen[in] {
			seen[in] = true
			out = append(out, CallChainSite{e.Caller, in})
		}
	}
	return out
}

// GuardedInter reports whether the instruction is guarded by the atoms on
// every call chain: in its own function, or — for each place its function is
// entered from — at that place, recursively.  stop(fn) marks entry points at
// which an unguarded chain ends (returns false there).  The returned slice is
// an unguarded chain (for diagnostics) when the result is false.
func (p *Prog) GuardedInter(in ssa.Instruction, maxDepth int, atoms ...Atom) (bool, []string) {
	return p.guardedInter(in, maxDepth, map[*ssa.Function]bool{}, atoms)
}

func (p *Prog) guardedInter(in ssa.Instruction, depth int, busy map[*ssa.Function]bool, atoms []Atom) (bool, []string) {
	fn := in.Parent()
	if Guarded(in, atoms...) {
		return true, nil
	}
	here := FuncName(fn) + " @" + p.InstrPos(in)
	if depth <= 0 || busy[fn] {
		return false, []string{here + " (depth/cycle)"}
	}
	entries := p.Entries(fn)
	if len(entries) == 0 {
		return false, []string{here + " (entry point: no module caller)"}
	}
	busy[fn] = true
	defer delete(busy, fn)
	for _, e := range entries {
		ok, chain := p.guardedInter(e.Site, depth-1, busy, atoms)
		if !ok {
			return false, append(chain, here)
		}
	}
	return true, nil
}

// ---------------------------------------------------------------------------
// common atoms

// CallPred matches a call.
type CallPred func(c *ssa.Call, d CalleeDesc) bool

// unwrapCall returns the call a value is the (possibly extracted) result of.
func UnwrapCall(v ssa.Value) (*ssa.Call, int) {
	switch x := v.(type) {
	case *ssa.Call:
		return x, 0
	case *ssa.Extract:
		if c, ok := x.Tuple.(*ssa.Call); ok {
			return c, x.Index
		}
	case *ssa.Phi:
		// "err" variables re-assigned on several paths: all edges must be
		// results of calls; handled by callers that care
	}
	return nil, 0
}

// AtomErrNil holds on the edge where the error result of a call matching
// pred is nil.
func AtomErrNil(pred CallPred) Atom {
	return func(c Cond) (bool, bool) {
		if c.Op != token.EQL && c.Op != token.NEQ {
			return false, false
		}
		var v ssa.Value
		switch {
		case IsNilConst(c.Y):
			v = c.X
		case IsNilConst(c.X):
			v = c.Y
		default:
			return false, false
		}
		if !isErrorType(v) {
			return false, false
		}
		call, _ := UnwrapCall(v)
		if call == nil {
			return false, false
		}
		d, ok := Describe(&call.Call)
		if !ok || !pred(call, d) {
			return false, false
		}
		return c.Op == token.EQL, true
	}
}

func isErrorType(v ssa.Value) bool {
	return v.Type().String() == "error"
}

// AtomNotNil holds on the edge where a value matching pred is non-nil.
func AtomNotNil(pred func(v ssa.Value) bool) Atom {
	return func(c Cond) (bool, bool) {
		if c.Op != token.EQL && c.Op != token.NEQ {
			return false, false
		}
		var v ssa.Value
		switch {
		case IsNilConst(c.Y):
			v = c.X
		case IsNilConst(c.X):
			v = c.Y
		default:
			return false, false
		}
		if !pred(v) {
			return false, false
		}
		return c.Op == token.NEQ, true
	}
}

// AtomIsNil holds on the edge where a value matching pred is nil.
func AtomIsNil(pred func(v ssa.Value) bool) Atom {
	a := AtomNotNil(pred)
	return func(c Cond) (bool, bool) {
		h, ok := a(c)
		return !h, ok
	}
}

// AtomCallBool holds on the edge where the boolean result of a call matching
// pred equals want.
func AtomCallBool(pred CallPred, want bool) Atom {
	return func(c Cond) (bool, bool) {
		if c.Op != token.ILLEGAL {
			return false, false
		}
		call, _ := UnwrapCall(c.X)
		if call == nil {
			return false, false
		}
		d, ok := Describe(&call.Call)
		if !ok || !pred(call, d) {
			return false, false
		}
		return want, true
	}
}

// MethodCmpOp maps the comparison methods of the SDK numeric types, sdk.Coin and time.Time to operators.
func MethodCmpOp(d CalleeDesc) (token.Token, bool) {
	switch d.Recv {
	case "Int", "Uint", "Dec", "Coin", "Time":
	default:
		return token.ILLEGAL, false
	}
	switch d.Name {
	case "GT", "IsGT", "After":
		return token.GTR, true
	case "GTE", "IsGTE":
		return token.GEQ, true
	case "LT", "IsLT", "Before":
		return token.LSS, true
	case "LTE", "IsLTE":
		return token.LEQ, true
	case "Equal", "IsEqual":
		return token.EQL, true
	}
	return token.ILLEGAL, false
}

// AtomMethodCmp matches x.GTE(y)-style comparison calls exactly like AtomCmp matches x >= y: match is
// offered the operator with the receiver on the left and, when it declines, the complementary operator
// (the atom then holds on the other branch).
func AtomMethodCmp(match func(op token.Token, x, y ssa.Value, call *ssa.Call) (holdsWhenTrue bool, ok bool)) Atom {
	return func(c Cond) (bool, bool) {
		if c.Op != token.ILLEGAL {
			return false, false
		}
		call, _ := UnwrapCall(c.X)
		if call == nil || len(call.Call.Args) != 2 {
			return false, false
		}
		d, ok := Describe(&call.Call)
		if !ok {
			return false, false
		}
		op, ok := MethodCmpOp(d)
		if !ok {
			return false, false
		}
		x, y := call.Call.Args[0], call.Call.Args[1]
		if pol, ok := match(op, x, y, call); ok {
			return pol, true
		}
		if pol, ok := match(NegOp(op), x, y, call); ok {
			return !pol, true
		}
		return false, false
	}
}

// AtLeast decides whether "x op y" states a >= b (or a > b): it returns true when it does.
func AtLeast(op token.Token, x, y ssa.Value, isA, isB func(ssa.Value) bool) bool {
	switch op {
	case token.GEQ, token.GTR:
		return isA(x) && isB(y)
	case token.LEQ, token.LSS:
		return isA(y) && isB(x)
	}
	return false
}

// AtomCmp matches a comparison.  match receives the operator as written with
// X on the left and decides on which truth value the atom holds.
func AtomCmp(match func(op token.Token, x, y ssa.Value) (holdsWhenTrue bool, ok bool)) Atom {
	return func(c Cond) (bool, bool) {
		if c.Op == token.ILLEGAL {
			return false, false
		}
		if pol, ok := match(c.Op, c.X, c.Y); ok {
			return pol, true
		}
		// the complementary form: !(x op y) == x neg(op) y, so a guard written as the negated test
		// with the branches swapped (if x >= y { return }) establishes the same atom
		if n := NegOp(c.Op); n != c.Op {
			if pol, ok := match(n, c.X, c.Y); ok {
				return !pol, true
			}
		}
		return false, false
	}
}

// NegOp is the complement of a comparison operator (!(x op y) == x NegOp(op) y) for totally ordered operands.
func NegOp(op token.Token) token.Token {
	switch op {
	case token.LSS:
		return token.GEQ
	case token.GEQ:
		return token.LSS
	case token.GTR:
		return token.LEQ
	case token.LEQ:
		return token.GTR
	case token.EQL:
		return token.NEQ
	case token.NEQ:
		return token.EQL
	}
	return op
}

// FlipOp mirrors a comparison operator (x op y  ==  y flip(op) x).
func FlipOp(op token.Token) token.Token {
	switch op {
	case token.LSS:
		return token.GTR
	case token.GTR:
		return token.LSS
	case token.LEQ:
		return token.GEQ
	case token.GEQ:
		return token.LEQ
	}
	return op
}

// IfsUsing returns the If instructions of fn whose condition (normalised)
// satisfies pred – used by rules that need to find a check before asking
// whether it guards something.
func IfsUsing(fn *ssa.Function, pred func(c Cond) bool) []*ssa.If {
	var out []*ssa.If
	for _, b := range fn.Blocks {
		if len(b.Instrs) == 0 {
			continue
		}
		if iff, ok := b.Instrs[len(b.Instrs)-1].(*ssa.If); ok {
			if pred(NormCond(iff.Cond)) {
				out = append(out, iff)
			}
		}
	}
	return out
}

// ReachesWithout reports whether, inside one function, some path from
// instruction a reaches instruction b without passing through a block in
// "avoid" (PR engine).  Instructions in the same block are ordered.
func ReachesWithout(a, b ssa.Instruction, avoid map[*ssa.BasicBlock]bool) bool {
	if a.Block() == b.Block() && instrIndex(a) < instrIndex(b) {
		return true
	}
	fn := a.Parent()
	seen := make([]bool, len(fn.Blocks))
	var stack []*ssa.BasicBlock
	for _, s := range a.Block().Succs {
		if !seen[s.Index] {
			seen[s.Index] = true
			stack = append(stack, s)
		}
	}
	for len(stack) > 0 {
		x := stack[len(stack)-1]
		stack = stack[:len(stack)-1]
		if x == b.Block() {
			return true
		}
		if avoid[x] {
			continue
		}
		for _, s := range x.Succs {
			if !seen[s.Index] {
				seen[s.Index] = true
				stack = append(stack, s)
			}
		}
	}
	return false
}

func instrIndex(in ssa.Instruction) int {
	for i, x := range in.Block().Instrs {
		if x == in {
			return i
		}
	}
	return -1
}

// InstrIndex exposes the position of an instruction inside its block.
func InstrIndex(in ssa.Instruction) int { return instrIndex(in) }

// Returns lists the return instructions of fn; success reports whether the
// error result (last result of type error) is the nil constant or absent.
func Returns(fn *ssa.Function) (all []*ssa.Return, success []*ssa.Return) {
	res := fn.Signature.Results()
	errIdx := -1
	if res.Len() > 0 && res.At(res.Len()-1).Type().String() == "error" {
		errIdx = res.Len() - 1
	}
	Instrs(fn, func(in ssa.Instruction) {
		r, ok := in.(*ssa.Return)
		if !ok {
			return
		}
		all = append(all, r)
		if errIdx < 0 || errIdx >= len(r.Results) {
			success = append(success, r)
			return
		}
		if IsNilConst(r.Results[errIdx]) {
			success = append(success, r)
			return
		}
		// a phi / named result that may be nil counts as a possible success
		if _, isConstErr := r.Results[errIdx].(*ssa.Const); !isConstErr {
			if !definitelyNonNilErr(r.Results[errIdx]) && !knownNonNilAt(r.Block(), r.Results[errIdx]) {
				success = append(success, r)
			}
		}
	})
	return
}

// knownNonNilAt reports whether block b is only reachable through the
// "v != nil" edge of a test of v (the usual `if err != nil { return err }`).
func knownNonNilAt(b *ssa.BasicBlock, v ssa.Value) bool {
	fn := b.Parent()
	atom := AtomNotNil(func(x ssa.Value) bool { return x == v })
	cut := labelEdges(fn, []Atom{atom})
	if len(cut) == 0 {
		return false
	}
	return !reachableWithout(fn, b, cut)
}

func definitelyNonNilErr(v ssa.Value) bool {
	switch x := v.(type) {
	case *ssa.Call:
		// errors.New / Wrap / Errorf construct non-nil errors
		if d, ok := Describe(&x.Call); ok {
			switch d.Name {
			case "New", "Errorf", "Wrap", "Wrapf":
				return true
			}
		}
	case *ssa.MakeInterface:
		return true
	case *ssa.Extract, *ssa.Parameter:
		return false
	}
	return false
}

// MustPassBefore reports whether every path from instruction a to any
// success return of the function passes through an instruction of "must"
// (PR engine: "after a, b occurs on every path to a success exit").
func MustPassBefore(a ssa.Instruction, must []ssa.Instruction, errorExitsToo bool) (bool, ssa.Instruction) {
	fn := a.Parent()
	avoid := map[*ssa.BasicBlock]bool{}
	for _, m := range must {
		if m.Block() == a.Block() && instrIndex(m) > instrIndex(a) {
			return true, nil // same block, later: always passed
		}
		avoid[m.Block()] = true
	}
	all, succ := Returns(fn)
	exits := succ
	if errorExitsToo {
		exits = all
	}
	for _, r := range exits {
		if avoid[r.Block()] {
			// the return sits in a block that contains a must instruction;
			// the must instruction precedes the return (returns end blocks)
			continue
		}
		if ReachesWithout(a, r, avoid) {
			return false, r
		}
	}
	return true, nil
}
