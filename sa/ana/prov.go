package ana

import (
	"fmt"
	"go/token"
	"go/types"
	"sort"
	"strings"

	"golang.org/x/tools/go/ssa"
)

// Prov is the result of a backward value-provenance slice.
type Prov struct {
	Leaves map[string]bool
	Ops    map[string]bool
	Vals   map[string][]ssa.Value
}

func newProv() *Prov {
	return &Prov{Leaves: map[string]bool{}, Ops: map[string]bool{}, Vals: map[string][]ssa.Value{}}
}

// Merge adds the leaves, operations and values of o.
func (pv *Prov) Merge(o *Prov) {
	if o == nil {
		return
	}
	for k := range o.Leaves {
		pv.Leaves[k] = true
	}
	for k := range o.Ops {
		pv.Ops[k] = true
	}
	for k, v := range o.Vals {
		pv.Vals[k] = append(pv.Vals[k], v...)
	}
}

// List returns the sorted leaf labels.
func (pv *Prov) List() []string {
	var out []string
	for l := range pv.Leaves {
		out = append(out, l)
	}
	sort.Strings(out)
	return out
}

// OpList returns the sorted operation names.
func (pv *Prov) OpList() []string {
	var out []string
	for l := range pv.Ops {
		out = append(out, l)
	}
	sort.Strings(out)
	return out
}

// Has reports whether a leaf with the exact label exists.
func (pv *Prov) Has(label string) bool { return pv.Leaves[label] }

// HasPrefix reports whether some leaf starts with prefix.
func (pv *Prov) HasPrefix(prefix string) bool {
	for l := range pv.Leaves {
		if strings.HasPrefix(l, prefix) {
			return true
		}
	}
	return false
}

// HasField reports a leaf "field:<T>.<path>" for the given type and path.
func (pv *Prov) HasField(tpath string) bool { return pv.Leaves["field:"+tpath] }

// HasCall reports a leaf for an opaque call whose rendered name ends with name.
func (pv *Prov) HasCall(name string) bool {
	for l := range pv.Leaves {
		if strings.HasPrefix(l, "call:") && (l == "call:"+name || strings.HasSuffix(l, "."+name)) {
			return true
		}
	}
	return false
}

// HasOp reports whether an operation whose name ends with name was traversed.
func (pv *Prov) HasOp(name string) bool {
	for l := range pv.Ops {
		if l == name || strings.HasSuffix(l, "."+name) {
			return true
		}
	}
	return false
}

// Fields returns the "field:" leaves without the prefix.
func (pv *Prov) Fields() []string {
	var out []string
	for l := range pv.Leaves {
		if strings.HasPrefix(l, "field:") {
			out = append(out, strings.TrimPrefix(l, "field:"))
		}
	}
	sort.Strings(out)
	return out
}

// PVOpt configures a slice.
type PVOpt struct {
	// Opaque stops at calls matching the predicate (the call becomes a leaf).
	Opaque func(d CalleeDesc) bool
	// Through maps callee name (Recv.Name or Name) to the argument indexes
	// (receiver counts as 0 for methods) the value flows through; the call
	// is recorded as an operation and not inlined.
	Through map[string][]int
	// MaxInline bounds inlining of module functions (default 3).
	MaxInline int
	// NoFieldStores disables following stores into local structs.
	NoFieldStores bool
}

type frame struct {
	fn     *ssa.Function
	args   []ssa.Value // actuals for fn.Params (nil = unknown caller)
	parent *frame
	depth  int
}

type pvState struct {
	p    *Prog
	opt  PVOpt
	out  *Prov
	seen map[string]bool
}

// Leaves computes the provenance of v (a value of function v.Parent()).
func (p *Prog) Leaves(v ssa.Value, opt PVOpt) *Prov {
	if opt.MaxInline == 0 {
		opt.MaxInline = 3
	}
	st := &pvState{p: p, opt: opt, out: newProv(), seen: map[string]bool{}}
	var fn *ssa.Function
	if v != nil {
		fn = v.Parent()
	}
	st.walk(v, &frame{fn: fn})
	return st.out
}

// LeavesIn is Leaves with an explicit binding of fn's parameters to actuals
// taken from one call site.
func (p *Prog) LeavesAt(v ssa.Value, site ssa.CallInstruction, opt PVOpt) *Prov {
	if opt.MaxInline == 0 {
		opt.MaxInline = 3
	}
	st := &pvState{p: p, opt: opt, out: newProv(), seen: map[string]bool{}}
	outer := &frame{fn: site.Parent()}
	fr := &frame{fn: v.Parent(), args: siteArgs(site), parent: outer, depth: 1}
	st.walk(v, fr)
	return st.out
}

// LeavesChain is Leaves with the parameters of v's function bound through a chain of call sites
// (outermost first): chain[i+1] lies in the callee of chain[i], v in the callee of the last one.
func (p *Prog) LeavesChain(v ssa.Value, chain []ssa.CallInstruction, opt PVOpt) *Prov {
	if opt.MaxInline == 0 {
		opt.MaxInline = 3
	}
	st := &pvState{p: p, opt: opt, out: newProv(), seen: map[string]bool{}}
	fr := &frame{fn: chain[0].Parent()}
	for i, site := range chain {
		var fn *ssa.Function
		if i+1 < len(chain) {
			fn = chain[i+1].Parent()
		} else {
			fn = v.Parent()
		}
		fr = &frame{fn: fn, args: siteArgs(site), parent: fr, depth: fr.depth + 1}
	}
	st.opt.MaxInline += fr.depth
	st.walk(v, fr)
	return st.out
}

// PartLeaves computes the provenance of the value a key component was built
// from.  outer optionally binds the parameters of the function that contains
// the store operation to the actuals of one of its call sites.
func (p *Prog) PartLeaves(pt Part, outer ssa.CallInstruction, opt PVOpt) *Prov {
	if opt.MaxInline == 0 {
		opt.MaxInline = 3
	}
	st := &pvState{p: p, opt: opt, out: newProv(), seen: map[string]bool{}}
	if pt.Val == nil {
		return st.out
	}
	var build func(e *KeyEnv) *frame
	var top *ssa.Function
	build = func(e *KeyEnv) *frame {
		if e == nil {
			return nil
		}
		par := build(e.Parent)
		if par == nil {
			// the frame of the function containing the outermost call
			top = e.Site.Parent()
			par = &frame{fn: top}
			if outer != nil {
				par = &frame{fn: top, args: siteArgs(outer), parent: &frame{fn: outer.Parent()}, depth: 1}
			}
		}
		return &frame{fn: e.Fn, args: e.Site.Call.Args, parent: par, depth: par.depth + 1}
	}
	fr := build(pt.Env)
	if fr == nil {
		fr = &frame{fn: pt.Val.Parent()}
		if outer != nil {
			fr = &frame{fn: pt.Val.Parent(), args: siteArgs(outer), parent: &frame{fn: outer.Parent()}, depth: 1}
		}
	}
	st.opt.MaxInline += fr.depth
	st.walk(pt.Val, fr)
	return st.out
}

func siteArgs(site ssa.CallInstruction) []ssa.Value {
	cc := site.Common()
	if cc.IsInvoke() {
		return append([]ssa.Value{cc.Value}, cc.Args...)
	}
	return cc.Args
}

func (st *pvState) leaf(label string, v ssa.Value) {
	st.out.Leaves[label] = true
	if v != nil {
		st.out.Vals[label] = append(st.out.Vals[label], v)
	}
}

var transparentRecv = map[string]bool{"Int": true, "Dec": true, "Uint": true, "Coin": true, "Coins": true, "DecCoin": true, "DecCoins": true,
	"AccAddress": true, "ValAddress": true, "Address": true, "ConsAddress": true, "HexBytes": true, "ChainID": true, "Hash": true, "Float": true, "Rat": true, "Time": true, "Duration": true}

var transparentFuncs = map[string]bool{
	"NewInt": true, "NewIntFromUint64": true, "NewIntFromBigInt": true, "NewIntFromString": true, "NewUint": true, "NewDec": true, "NewDecFromInt": true,
	"NewCoin": true, "NewCoins": true, "NewInt64Coin": true, "MaxInt": true, "MinInt": true, "ZeroInt": true, "OneInt": true, "NewDecWithPrec": true,
	"AccAddressFromBech32": true, "ValAddressFromBech32": true, "AccAddressFromHex": true, "HexToAddress": true, "BytesToAddress": true, "Hex2Bytes": true,
	"Uint64ToBigEndian": true, "BigEndianToUint64": true, "UInt64Bytes": true, "UInt64FromBytes": true, "Unix": true,
	"NewSDKIntExternalToken": true, "NewExternalToken": true, "Sprintf": true, "Sprint": true, "Itoa": true, "Atoi": true, "ToLower": true, "TrimPrefix": true,
	"Keccak256Hash": true, "Keccak256": true, "Sum256": true, "Join": true, "Compare": true, "Equal": true, "HasPrefix": true,
	"NewIntWithDecimal": true, "MustNewDecFromStr": true, "NewDecFromStr": true,
	// string normalisers: the result derives from the argument (rules that care name them as lossy steps)
	"TrimSpace": true, "ToUpper": true, "TrimLeft": true, "TrimRight": true, "TrimSuffix": true, "Trim": true, "ReplaceAll": true, "Replace": true,
	"ToTitle": true, "ToValidUTF8": true,
}

func isTransparentPkg(pkg string) bool {
	return strings.HasSuffix(pkg, "cosmos-sdk/types") || pkg == "math/big" || strings.HasSuffix(pkg, "go-ethereum/common") ||
		strings.HasSuffix(pkg, "go-ethereum/crypto") || pkg == "fmt" || pkg == "strconv" || pkg == "strings" || pkg == "bytes" ||
		pkg == "time" || pkg == "crypto/sha256" || pkg == "encoding/binary" || strings.HasSuffix(pkg, "tendermint/libs/bytes") ||
		strings.HasSuffix(pkg, "mhub2/types") || strings.HasSuffix(pkg, "oracle/types") || pkg == "math" || pkg == "sort" || pkg == "encoding/hex"
}

func opName(d CalleeDesc) string {
	if d.Recv != "" {
		return d.Recv + "." + d.Name
	}
	return d.Name
}

func (st *pvState) walk(v ssa.Value, fr *frame) {
	if v == nil {
		return
	}
	key := fmt.Sprintf("%p/%p", v, fr)
	if fr != nil {
		key = fmt.Sprintf("%p/%d/%p", v, fr.depth, fr.fn)
		if fr.depth > 0 {
			key = fmt.Sprintf("%p/%p", v, fr)
		}
	}
	if st.seen[key] {
		return
	}
	st.seen[key] = true

	switch x := v.(type) {
	case *ssa.Const:
		if x.Value == nil {
			st.leaf("const:nil", x)
		} else {
			st.leaf("const:"+x.Value.ExactString(), x)
		}
	case *ssa.Parameter:
		idx := paramIndex(x.Parent(), x)
		if fr != nil && fr.fn == x.Parent() && fr.args != nil && idx >= 0 && idx < len(fr.args) && fr.args[idx] != nil {
			st.walk(fr.args[idx], fr.parent)
			return
		}
		st.leaf(fmt.Sprintf("param:%s#%d:%s", FuncName(x.Parent()), idx, x.Name()), x)
	case *ssa.FreeVar:
		st.freeVar(x, fr)
	case *ssa.Global:
		st.leaf("global:"+x.Name(), x)
	case *ssa.Function:
		st.leaf("func:"+FuncName(x), x)
	case *ssa.Builtin:
	case *ssa.Alloc:
		// address of a local: its contents
		st.allocContents(x, nil, fr)
	case *ssa.Phi:
		for _, e := range x.Edges {
			st.walk(e, fr)
		}
	case *ssa.BinOp:
		st.out.Ops["binop:"+x.Op.String()] = true
		st.out.Vals["binop:"+x.Op.String()] = append(st.out.Vals["binop:"+x.Op.String()], x)
		st.walk(x.X, fr)
		st.walk(x.Y, fr)
	case *ssa.UnOp:
		if x.Op == token.MUL {
			st.load(x, fr)
			return
		}
		st.out.Ops["unop:"+x.Op.String()] = true
		st.walk(x.X, fr)
	case *ssa.ChangeType:
		st.walk(x.X, fr)
	case *ssa.Convert:
		st.walk(x.X, fr)
	case *ssa.MultiConvert:
		st.walk(x.X, fr)
	case *ssa.ChangeInterface:
		st.walk(x.X, fr)
	case *ssa.MakeInterface:
		st.walk(x.X, fr)
	case *ssa.SliceToArrayPointer:
		st.walk(x.X, fr)
	case *ssa.TypeAssert:
		st.walk(x.X, fr)
	case *ssa.Slice:
		st.walk(x.X, fr)
	case *ssa.Field:
		st.fieldValue(x, fr)
	case *ssa.FieldAddr:
		// a pointer to a field used as a value: contents of the field
		st.loadAddr(x, x, fr)
	case *ssa.IndexAddr:
		st.out.Ops["index"] = true
		st.walk(x.X, fr)
	case *ssa.Index:
		st.out.Ops["index"] = true
		st.walk(x.X, fr)
	case *ssa.Lookup:
		st.out.Ops["lookup"] = true
		st.walk(x.X, fr)
		st.walk(x.Index, fr)
	case *ssa.Range:
		st.walk(x.X, fr)
	case *ssa.Next:
		st.walk(x.Iter, fr)
	case *ssa.Extract:
		if c, ok := x.Tuple.(*ssa.Call); ok {
			st.call(c, x.Index, fr)
			return
		}
		st.walk(x.Tuple, fr)
	case *ssa.Call:
		st.call(x, 0, fr)
	case *ssa.MakeSlice:
		st.leaf("make", x)
		// contents written by copy(dst, src) into a slice of non-zero length
		if k, ok := x.Len.(*ssa.Const); ok && k.Value != nil && k.Value.ExactString() == "0" {
			return
		}
		for _, ref := range *x.Referrers() {
			var dsts []ssa.Value
			switch y := ref.(type) {
			case *ssa.IndexAddr:
				for _, rr := range *y.Referrers() {
					if s2, ok := rr.(*ssa.Store); ok && s2.Addr == ssa.Value(y) {
						st.walk(s2.Val, fr)
					}
				}
			case *ssa.Slice:
				dsts = append(dsts, y)
			case *ssa.ChangeType:
				dsts = append(dsts, y)
			case *ssa.Call:
				dsts = append(dsts, x)
			}
			for _, d := range dsts {
				for _, rr := range *d.Referrers() {
					if c, ok := rr.(*ssa.Call); ok {
						if b, ok := c.Call.Value.(*ssa.Builtin); ok && b.Name() == "copy" && len(c.Call.Args) == 2 && c.Call.Args[0] == d {
							st.walk(c.Call.Args[1], fr)
						}
					}
				}
			}
		}
		for _, rr := range *x.Referrers() {
			if c, ok := rr.(*ssa.Call); ok {
				if b, ok := c.Call.Value.(*ssa.Builtin); ok && b.Name() == "copy" && len(c.Call.Args) == 2 && c.Call.Args[0] == ssa.Value(x) {
					st.walk(c.Call.Args[1], fr)
				}
			}
		}
	case *ssa.MakeMap:
		st.leaf("make", x)
	case *ssa.MakeClosure:
		st.leaf("func:"+FuncName(x.Fn.(*ssa.Function)), x)
	case *ssa.MakeChan:
		st.leaf("make", x)
	default:
		st.leaf(fmt.Sprintf("unknown:%T", v), v)
	}
}

func (st *pvState) freeVar(x *ssa.FreeVar, fr *frame) {
	fn := x.Parent()
	mc := st.p.closureSite[fn]
	if mc == nil {
		st.leaf("freevar:"+x.Name(), x)
		return
	}
	for i, fv := range fn.FreeVars {
		if fv == x && i < len(mc.Bindings) {
			// continue in the lexically enclosing function; its frame is the
			// parent chain if it matches, else a fresh top frame
			var pf *frame
			for f := fr; f != nil; f = f.parent {
				if f.fn == mc.Parent() {
					pf = f
					break
				}
			}
			if pf == nil {
				pf = &frame{fn: mc.Parent()}
			}
			st.walk(mc.Bindings[i], pf)
			return
		}
	}
	st.leaf("freevar:"+x.Name(), x)
}

// fieldPath renders the access path of a FieldAddr/Field chain and returns its root.
func fieldPath(v ssa.Value) (root ssa.Value, path []string, rootType types.Type) {
	for {
		switch x := v.(type) {
		case *ssa.FieldAddr:
			st := derefStruct(x.X.Type())
			if st == nil {
				return v, path, nil
			}
			path = append([]string{st.Field(x.Field).Name()}, path...)
			rootType = x.X.Type()
			v = x.X
			continue
		case *ssa.Field:
			st, _ := x.X.Type().Underlying().(*types.Struct)
			if st == nil {
				return v, path, nil
			}
			path = append([]string{st.Field(x.Field).Name()}, path...)
			rootType = x.X.Type()
			v = x.X
			continue
		case *ssa.UnOp:
			// load of a struct value followed by Field: look through when the
			// address is itself a field address (embedded struct by value)
			if x.Op == token.MUL {
				if fa, ok := x.X.(*ssa.FieldAddr); ok && len(path) > 0 {
					v = fa
					continue
				}
			}
		}
		return v, path, rootType
	}
}

func derefStruct(t types.Type) *types.Struct {
	if p, ok := t.Underlying().(*types.Pointer); ok {
		t = p.Elem()
	}
	s, _ := t.Underlying().(*types.Struct)
	return s
}

func typeLabel(t types.Type) string {
	if n := NamedOf(t); n != nil {
		return n.Obj().Name()
	}
	if t == nil {
		return "?"
	}
	return types.TypeString(t, func(p *types.Package) string { return p.Name() })
}

func (st *pvState) fieldValue(x *ssa.Field, fr *frame) {
	root, path, rt := fieldPath(x)
	// struct value loaded from a local alloc with stores: follow them
	if ld, ok := root.(*ssa.UnOp); ok && ld.Op == token.MUL {
		if a, ok := ld.X.(*ssa.Alloc); ok && !st.opt.NoFieldStores {
			if st.allocContents(a, path, fr) {
				return
			}
		}
	}
	// struct value produced by a module call: inline field-sensitively
	if c, ok := root.(*ssa.Call); ok {
		if st.callField(c, 0, path, fr) {
			return
		}
	}
	if ex, ok := root.(*ssa.Extract); ok {
		if c, ok := ex.Tuple.(*ssa.Call); ok {
			if st.callField(c, ex.Index, path, fr) {
				return
			}
		}
	}
	st.leaf("field:"+typeLabel(rt)+"."+strings.Join(path, "."), x)
	_ = root
}

func (st *pvState) load(x *ssa.UnOp, fr *frame) {
	st.loadAddr(x.X, x, fr)
}

func (st *pvState) loadAddr(addr ssa.Value, at ssa.Value, fr *frame) {
	switch a := addr.(type) {
	case *ssa.Alloc:
		if !st.allocContents(a, nil, fr) {
			st.leaf("local:"+a.Comment, a)
		}
	case *ssa.FreeVar:
		// captured by reference: the variable lives in the parent
		fn := a.Parent()
		mc := st.p.closureSite[fn]
		if mc != nil {
			for i, fv := range fn.FreeVars {
				if fv == a && i < len(mc.Bindings) {
					if pa, ok := mc.Bindings[i].(*ssa.Alloc); ok {
						pf := &frame{fn: mc.Parent()}
						for f := fr; f != nil; f = f.parent {
							if f.fn == mc.Parent() {
								pf = f
								break
							}
						}
						if st.allocContents(pa, nil, pf) {
							return
						}
					}
					st.walk(mc.Bindings[i], &frame{fn: mc.Parent()})
					return
				}
			}
		}
		st.leaf("freevar:"+a.Name(), a)
	case *ssa.FieldAddr:
		root, path, rt := fieldPath(a)
		if al, ok := root.(*ssa.Alloc); ok && !st.opt.NoFieldStores {
			if st.allocContents(al, path, fr) {
				return
			}
		}
		if fv, ok := root.(*ssa.FreeVar); ok && !st.opt.NoFieldStores {
			// field of a captured local struct
			fn := fv.Parent()
			if mc := st.p.closureSite[fn]; mc != nil {
				for i, f2 := range fn.FreeVars {
					if f2 == fv && i < len(mc.Bindings) {
						if pa, ok := mc.Bindings[i].(*ssa.Alloc); ok {
							if st.allocContents(pa, path, &frame{fn: mc.Parent()}) {
								return
							}
						}
					}
				}
			}
		}
		// a pointer obtained from a module call that builds the struct
		if c, ok := root.(*ssa.Call); ok {
			if st.callField(c, 0, path, fr) {
				return
			}
		}
		st.leaf("field:"+typeLabel(rt)+"."+strings.Join(path, "."), at)
	case *ssa.IndexAddr:
		st.out.Ops["index"] = true
		// element of an array literal: the stored elements
		if al, ok := a.X.(*ssa.Alloc); ok {
			if elems, ok := arrayLitElems(al); ok && len(elems) > 0 {
				for _, e := range elems {
					st.walk(e, fr)
				}
				return
			}
		}
		st.walk(a.X, fr)
	case *ssa.Global:
		st.leaf("global:"+a.Name(), a)
	default:
		st.walk(addr, fr)
	}
}

// allocContents follows the stores into a local (optionally into one field
// path of it).  It returns false when no store was found.
func (st *pvState) allocContents(a *ssa.Alloc, path []string, fr *frame) bool {
	found := false
	var visitRefs func(refs []ssa.Instruction, cur []string, inFr *frame)
	visitRefs = func(refs []ssa.Instruction, cur []string, inFr *frame) {
		for _, r := range refs {
			switch x := r.(type) {
			case *ssa.Store:
				if x.Addr != nil && len(cur) == 0 && isAddrOf(x.Addr, a, r) {
					// whole-value store
					found = true
					if len(path) == 0 {
						st.walk(x.Val, inFr)
					} else {
						st.structField(x.Val, path, inFr)
					}
				}
			case *ssa.FieldAddr:
				s := derefStruct(x.X.Type())
				if s == nil {
					continue
				}
				name := s.Field(x.Field).Name()
				next := append(append([]string{}, cur...), name)
				// is next a prefix of path (or path a prefix of next when path shorter)?
				if len(path) > 0 && !pathCompatible(next, path) {
					continue
				}
				for _, rr := range *x.Referrers() {
					if s2, ok := rr.(*ssa.Store); ok && s2.Addr == x {
						found = true
						if len(path) <= len(next) {
							st.walk(s2.Val, inFr)
						} else {
							st.structField(s2.Val, path[len(next):], inFr)
						}
					}
				}
				// nested field addresses
				var nested []ssa.Instruction
				for _, rr := range *x.Referrers() {
					if _, ok := rr.(*ssa.FieldAddr); ok {
						nested = append(nested, rr)
					}
				}
				if len(nested) > 0 {
					saveFound := found
					visitRefs(nested, next, inFr)
					found = found || saveFound
				}
			case *ssa.Slice:
				// fixed array filled by copy(arr[:], src)
				if len(path) == 0 && len(cur) == 0 {
					for _, rr := range *x.Referrers() {
						if c, ok := rr.(*ssa.Call); ok {
							if b, ok := c.Call.Value.(*ssa.Builtin); ok && b.Name() == "copy" && len(c.Call.Args) == 2 && c.Call.Args[0] == ssa.Value(x) {
								found = true
								st.walk(c.Call.Args[1], inFr)
							}
						}
					}
				}
			case *ssa.IndexAddr:
				// array literal elements (varargs, []T{...})
				if len(path) == 0 && len(cur) == 0 {
					for _, rr := range *x.Referrers() {
						if s2, ok := rr.(*ssa.Store); ok && s2.Addr == x {
							found = true
							st.walk(s2.Val, inFr)
						}
					}
				}
			case *ssa.MakeClosure:
				// stores inside closures that capture the variable by reference
				fn, _ := x.Fn.(*ssa.Function)
				if fn == nil {
					continue
				}
				for i, b := range x.Bindings {
					if b == ssa.Value(a) && i < len(fn.FreeVars) {
						fv := fn.FreeVars[i]
						cf := &frame{fn: fn}
						for _, rr := range *fv.Referrers() {
							if s2, ok := rr.(*ssa.Store); ok && s2.Addr == fv && len(cur) == 0 {
								found = true
								if len(path) == 0 {
									st.walk(s2.Val, cf)
								} else {
									st.structField(s2.Val, path, cf)
								}
							}
						}
					}
				}
			}
		}
	}
	visitRefs(*a.Referrers(), nil, fr)
	return found
}

func isAddrOf(addr ssa.Value, a *ssa.Alloc, _ ssa.Instruction) bool { return addr == ssa.Value(a) }

func pathCompatible(a, b []string) bool {
	n := len(a)
	if len(b) < n {
		n = len(b)
	}
	for i := 0; i < n; i++ {
		if a[i] != b[i] {
			return false
		}
	}
	return true
}

// structField walks the given field path of a struct-typed value.
func (st *pvState) structField(v ssa.Value, path []string, fr *frame) {
	switch x := v.(type) {
	case *ssa.Call:
		if st.callField(x, 0, path, fr) {
			return
		}
		if d, ok := Describe(&x.Call); ok && !x.Call.IsInvoke() {
			if (d.Recv != "" && transparentRecv[d.Recv] && isTransparentPkg(d.Pkg)) || (d.Recv == "" && transparentFuncs[d.Name] && isTransparentPkg(d.Pkg)) {
				// a value built by a transparent constructor: its parts are its arguments
				st.walk(v, fr)
				return
			}
		}
	case *ssa.UnOp:
		if x.Op == token.MUL {
			if a, ok := x.X.(*ssa.Alloc); ok {
				if st.allocContents(a, path, fr) {
					return
				}
			}
			if fa, ok := x.X.(*ssa.FieldAddr); ok {
				root, p2, rt := fieldPath(fa)
				full := append(append([]string{}, p2...), path...)
				if al, ok := root.(*ssa.Alloc); ok {
					if st.allocContents(al, full, fr) {
						return
					}
				}
				st.leaf("field:"+typeLabel(rt)+"."+strings.Join(full, "."), v)
				return
			}
		}
	case *ssa.Phi:
		for _, e := range x.Edges {
			st.structField(e, path, fr)
		}
		return
	case *ssa.Parameter:
		idx := paramIndex(x.Parent(), x)
		if fr != nil && fr.fn == x.Parent() && fr.args != nil && idx >= 0 && idx < len(fr.args) && fr.args[idx] != nil {
			st.structField(fr.args[idx], path, fr.parent)
			return
		}
	}
	// unknown producer: label by type
	st.leaf("field:"+typeLabel(v.Type())+"."+strings.Join(path, "."), v)
	st.walk(v, fr)
}

// callField inlines a module call that returns a struct (or pointer to one)
// and follows one field path of the result.
func (st *pvState) callField(c *ssa.Call, result int, path []string, fr *frame) bool {
	fn := c.Call.StaticCallee()
	if fn == nil || !st.p.isMod[fn] || fn.Blocks == nil || st.p.L.IsGenerated(fn.Pos()) {
		return false
	}
	depth := 0
	if fr != nil {
		depth = fr.depth
	}
	if depth >= st.opt.MaxInline {
		return false
	}
	d, _ := Describe(&c.Call)
	if st.opt.Opaque != nil && st.opt.Opaque(d) {
		return false
	}
	nf := &frame{fn: fn, args: c.Call.Args, parent: fr, depth: depth + 1}
	ok := false
	Instrs(fn, func(in ssa.Instruction) {
		if r, isR := in.(*ssa.Return); isR && result < len(r.Results) {
			ok = true
			rv := r.Results[result]
			if a, isA := rv.(*ssa.Alloc); isA {
				if !st.allocContents(a, path, nf) {
					st.leaf("field:"+typeLabel(rv.Type())+"."+strings.Join(path, "."), rv)
				}
				return
			}
			st.structField(rv, path, nf)
		}
	})
	if ok {
		st.out.Ops["inline:"+opName(d)] = true
	}
	return ok
}

func (st *pvState) call(c *ssa.Call, result int, fr *frame) {
	cc := &c.Call
	d, ok := Describe(cc)
	if !ok {
		// dynamic call through a function value: bound closures
		for _, callee := range st.p.Callees(c) {
			st.inline(c, callee, result, fr, CalleeDesc{Name: callee.Name()})
		}
		if len(st.p.Callees(c)) == 0 {
			st.leaf("call:dynamic", c)
		}
		return
	}
	if d.Pkg == "builtin" {
		st.out.Ops["builtin:"+d.Name] = true
		for _, a := range cc.Args {
			st.walk(a, fr)
		}
		return
	}
	name := opName(d)
	if idxs, ok := st.opt.Through[name]; ok {
		st.out.Ops[name] = true
		args := siteArgsOf(cc)
		for _, i := range idxs {
			if i < len(args) {
				st.walk(args[i], fr)
			}
		}
		return
	}
	if st.opt.Opaque != nil && st.opt.Opaque(d) {
		st.leaf("call:"+d.String(), c)
		return
	}
	if cc.IsInvoke() {
		// interface method: module implementations are not inlined (several
		// targets); getters on proto messages are modelled as field reads
		if strings.HasPrefix(d.Name, "Get") && len(cc.Args) == 0 {
			st.leaf("field:"+typeLabel(cc.Value.Type())+"."+strings.TrimPrefix(d.Name, "Get"), c)
			return
		}
		st.leaf("call:"+d.String(), c)
		for _, a := range cc.Args {
			_ = a
		}
		return
	}
	fn := cc.StaticCallee()
	// transparent library calls
	if (d.Recv != "" && transparentRecv[d.Recv] && isTransparentPkg(d.Pkg)) || (d.Recv == "" && transparentFuncs[d.Name] && isTransparentPkg(d.Pkg)) {
		if !(fn != nil && st.p.isMod[fn] && d.Recv == "" && !transparentFuncs[d.Name]) {
			st.out.Ops[name] = true
			for _, a := range cc.Args {
				st.walk(a, fr)
			}
			return
		}
	}
	// generated proto getters: field reads
	if fn != nil && st.p.L.IsGenerated(fn.Pos()) && strings.HasPrefix(d.Name, "Get") && len(cc.Args) == 1 {
		st.leaf("field:"+d.Recv+"."+strings.TrimPrefix(d.Name, "Get"), c)
		return
	}
	if fn != nil && st.p.isMod[fn] && fn.Blocks != nil && !st.p.L.IsGenerated(fn.Pos()) {
		if st.inline(c, fn, result, fr, d) {
			return
		}
	}
	st.leaf("call:"+d.String(), c)
}

func siteArgsOf(cc *ssa.CallCommon) []ssa.Value {
	if cc.IsInvoke() {
		return append([]ssa.Value{cc.Value}, cc.Args...)
	}
	return cc.Args
}

func (st *pvState) inline(c *ssa.Call, fn *ssa.Function, result int, fr *frame, d CalleeDesc) bool {
	depth := 0
	if fr != nil {
		depth = fr.depth
	}
	if depth >= st.opt.MaxInline {
		return false
	}
	// recursion guard
	for f := fr; f != nil; f = f.parent {
		if f.fn == fn {
			return false
		}
	}
	nf := &frame{fn: fn, args: siteArgsOf(&c.Call), parent: fr, depth: depth + 1}
	any := false
	Instrs(fn, func(in ssa.Instruction) {
		if r, ok := in.(*ssa.Return); ok && result < len(r.Results) {
			any = true
			st.walk(r.Results[result], nf)
		}
	})
	if any {
		st.out.Ops["inline:"+opName(d)] = true
	}
	return any
}

// FieldStores returns, for a composite literal / local struct allocation, the
// values stored into each top-level field.
func FieldStores(a *ssa.Alloc) map[string][]ssa.Value {
	out := map[string][]ssa.Value{}
	s := derefStruct(a.Type())
	if s == nil {
		return out
	}
	for _, r := range *a.Referrers() {
		fa, ok := r.(*ssa.FieldAddr)
		if !ok {
			continue
		}
		name := s.Field(fa.Field).Name()
		for _, rr := range *fa.Referrers() {
			if st, ok := rr.(*ssa.Store); ok && st.Addr == fa {
				out[name] = append(out[name], st.Val)
			}
		}
	}
	return out
}

// AllocOf returns the allocation behind a pointer value (through
// MakeInterface / ChangeType), if it is local.
func AllocOf(v ssa.Value) *ssa.Alloc {
	for i := 0; i < 6; i++ {
		switch x := v.(type) {
		case *ssa.Alloc:
			return x
		case *ssa.MakeInterface:
			v = x.X
		case *ssa.ChangeType:
			v = x.X
		case *ssa.ChangeInterface:
			v = x.X
		case *ssa.UnOp:
			if x.Op == token.MUL {
				if a, ok := x.X.(*ssa.Alloc); ok {
					return a
				}
			}
			return nil
		default:
			return nil
		}
	}
	return nil
}
