package ana

import (
	"fmt"
	"go/token"
	"go/types"
	"sort"
	"strings"

	"golang.org/x/tools/go/ssa"
)

// Unit is the UQ engine's abstract value: a dimension vector Ext^E * Hub^H, or
// "any" (the zero constant, compatible with everything) or "unknown".
type Unit struct {
	Kind int // 0 unknown (top), 1 any (bottom, zero constant), 2 known
	E, H int
}

var (
	UUnknown = Unit{Kind: 0}
	UAny     = Unit{Kind: 1}
	UExt     = Unit{Kind: 2, E: 1}
	UHub     = Unit{Kind: 2, H: 1}
	UNone    = Unit{Kind: 2}
)

func (u Unit) Known() bool { return u.Kind == 2 }

func (u Unit) String() string {
	switch u.Kind {
	case 0:
		return "unknown"
	case 1:
		return "zero"
	}
	switch {
	case u.E == 1 && u.H == 0:
		return "Ext"
	case u.E == 0 && u.H == 1:
		return "Hub"
	case u.E == 0 && u.H == 0:
		return "dimensionless"
	}
	return fmt.Sprintf("Ext^%d*Hub^%d", u.E, u.H)
}

func joinUnit(a, b Unit) Unit {
	if a.Kind == 1 {
		return b
	}
	if b.Kind == 1 {
		return a
	}
	if a == b {
		return a
	}
	return UUnknown
}

// UnitIssue is one violation found by the unit analysis.
type UnitIssue struct {
	Kind   string // mix | sink
	At     ssa.Instruction
	Fn     *ssa.Function
	Detail string
	Chain  []string
}

// UnitConfig carries the repository-specific seeds.
type UnitConfig struct {
	// FieldUnit maps "Type.path" access paths (suffix match on the last
	// components) to units.
	FieldUnit map[string]Unit
}

// UQ runs the unit analysis.
type UQ struct {
	P      *Prog
	Cfg    UnitConfig
	Issues []UnitIssue
	seen   map[string]bool
	memo   map[string][]Unit
	busy   map[string]bool
	Sites  int // arithmetic / sink sites examined with at least one known operand

	callResults map[*ssa.Call][]Unit
	Trace       func(string)
}

// NewUQ creates the engine with the mhub2 seeds.
func NewUQ(p *Prog) *UQ {
	return &UQ{P: p, seen: map[string]bool{}, memo: map[string][]Unit{}, busy: map[string]bool{}, Cfg: UnitConfig{FieldUnit: map[string]Unit{
		"ExternalToken.Amount":               UExt,
		"SendToExternal.Token":               UExt,
		"SendToExternal.Fee":                 UExt,
		"SendToExternal.ValCommission":       UExt,
		"SendToHubEvent.Amount":              UExt,
		"TransferToChainEvent.Amount":        UExt,
		"TransferToChainEvent.Fee":           UExt,
		"TxFeeRecord.ExternalFee":            UExt,
		"TxFeeRecord.ValCommission":          UExt,
		"MsgSendToExternal.Amount":           UHub,
		"MsgSendToExternal.BridgeFee":        UHub,
		"ColdStorageTransferProposal.Amount": UHub,
		"ExternalSigner.Power":               UNone,
		"TokenInfo.Commission":               UNone,
	}}}
}

func amountType(t types.Type) bool {
	n := NamedOf(t)
	if n == nil {
		if s, ok := t.Underlying().(*types.Slice); ok {
			return amountType(s.Elem())
		}
		return false
	}
	switch n.Obj().Name() {
	case "Int", "Dec", "Uint", "Coin", "Coins", "ExternalToken", "DecCoin":
		return true
	}
	return false
}

func (q *UQ) fieldSeed(path string) (Unit, bool) {
	// path is Type.f1.f2...; try progressively shorter suffix matches
	parts := strings.Split(path, ".")
	if len(parts) < 2 {
		return UUnknown, false
	}
	// exact Type.f1
	for n := 2; n <= len(parts); n++ {
		if u, ok := q.Cfg.FieldUnit[strings.Join(parts[:n], ".")]; ok {
			return u, true
		}
	}
	// the final two components name a nested struct field (ExternalToken.Amount)
	if len(parts) >= 2 && parts[len(parts)-1] == "Amount" {
		// type of the parent is not in the path; handled by caller through typed lookup
	}
	return UUnknown, false
}

type memKey struct {
	a    *ssa.Alloc
	path string
}

type uqState struct {
	mem map[memKey]Unit
}

func (s *uqState) clone() *uqState {
	n := &uqState{mem: make(map[memKey]Unit, len(s.mem))}
	for k, v := range s.mem {
		n.mem[k] = v
	}
	return n
}

func (s *uqState) joinFrom(o *uqState) bool {
	changed := false
	for k, v := range o.mem {
		if cur, ok := s.mem[k]; ok {
			j := joinUnit(cur, v)
			if j != cur {
				s.mem[k] = j
				changed = true
			}
		} else {
			s.mem[k] = v
			changed = true
		}
	}
	return changed
}

// AnalyzeRoot analyses fn (parameters unknown) and everything it calls.
func (q *UQ) AnalyzeRoot(fn *ssa.Function) {
	args := make([]Unit, len(fn.Params))
	q.analyze(fn, args, nil, 0)
}

func unitsKey(fn *ssa.Function, args []Unit) string {
	var sb strings.Builder
	fmt.Fprintf(&sb, "%p", fn)
	for _, a := range args {
		sb.WriteString("|" + a.String())
	}
	return sb.String()
}

func (q *UQ) analyze(fn *ssa.Function, args []Unit, chain []string, depth int) []Unit {
	nres := fn.Signature.Results().Len()
	out := make([]Unit, nres)
	for i := range out {
		out[i] = UAny
	}
	if fn.Blocks == nil || depth > 6 {
		for i := range out {
			out[i] = UUnknown
		}
		return out
	}
	key := unitsKey(fn, args)
	if r, ok := q.memo[key]; ok {
		return r
	}
	if q.busy[key] {
		for i := range out {
			out[i] = UUnknown
		}
		return out
	}
	q.busy[key] = true
	defer delete(q.busy, key)

	vals := map[ssa.Value]Unit{}
	for i, par := range fn.Params {
		if i < len(args) {
			vals[par] = args[i]
		}
	}
	in := make([]*uqState, len(fn.Blocks))
	in[0] = &uqState{mem: map[memKey]Unit{}}
	chain2 := append(append([]string{}, chain...), FuncName(fn))
	// iterate to fixpoint (bounded)
	for iter := 0; iter < 8; iter++ {
		changed := false
		for _, b := range fn.Blocks {
			if in[b.Index] == nil {
				continue
			}
			st := in[b.Index].clone()
			for _, instr := range b.Instrs {
				final := false
				q.step(fn, instr, st, vals, chain2, depth, final, out)
			}
			for _, s := range b.Succs {
				if in[s.Index] == nil {
					in[s.Index] = st.clone()
					changed = true
				} else if in[s.Index].joinFrom(st) {
					changed = true
				}
			}
		}
		if !changed {
			break
		}
	}
	// final pass: report
	for i := range out {
		out[i] = UAny
	}
	for _, b := range fn.Blocks {
		if in[b.Index] == nil {
			continue
		}
		st := in[b.Index].clone()
		for _, instr := range b.Instrs {
			q.step(fn, instr, st, vals, chain2, depth, true, out)
		}
	}
	for i := range out {
		if out[i].Kind == 1 && nres > 0 {
			// only zero constants returned
		}
	}
	q.memo[key] = out
	return out
}

func (q *UQ) report(kind string, at ssa.Instruction, fn *ssa.Function, detail string, chain []string) {
	k := fmt.Sprintf("%s|%p|%s", kind, at, detail)
	if q.seen[k] {
		return
	}
	q.seen[k] = true
	q.Issues = append(q.Issues, UnitIssue{Kind: kind, At: at, Fn: fn, Detail: detail, Chain: append([]string{}, chain...)})
}

func (q *UQ) unitOf(v ssa.Value, vals map[ssa.Value]Unit) Unit {
	if u, ok := vals[v]; ok {
		return u
	}
	switch x := v.(type) {
	case *ssa.Const:
		if x.Value == nil {
			return UAny
		}
		if x.Value.ExactString() == "0" {
			return UAny
		}
		return UNone
	}
	return UUnknown
}

func addrKey(addr ssa.Value) (memKey, string, bool) {
	root, path, rt := fieldPath(addr)
	// the Amount of a Coin / ExternalToken carries the unit of the whole value
	if fa, ok := addr.(*ssa.FieldAddr); ok && len(path) > 0 && path[len(path)-1] == "Amount" {
		if n := NamedOf(fa.X.Type()); n != nil {
			switch n.Obj().Name() {
			case "Coin", "ExternalToken", "DecCoin":
				if _, isAlloc := root.(*ssa.Alloc); isAlloc {
					path = path[:len(path)-1]
				}
			}
		}
	}
	label := ""
	if rt != nil {
		label = typeLabel(rt) + "." + strings.Join(path, ".")
	}
	if a, ok := root.(*ssa.Alloc); ok {
		return memKey{a, strings.Join(path, ".")}, label, true
	}
	if a, ok := addr.(*ssa.Alloc); ok {
		return memKey{a, ""}, "", true
	}
	return memKey{}, label, false
}

// lookupMem finds the unit stored for key or for an enclosing struct path.
func lookupMem(st *uqState, k memKey) (Unit, bool) {
	if u, ok := st.mem[k]; ok {
		return u, true
	}
	// a Coin's Amount carries the Coin's unit: drop trailing ".Amount"
	p := k.path
	for p != "" {
		i := strings.LastIndex(p, ".")
		if i < 0 {
			p = ""
		} else {
			p = p[:i]
		}
		if u, ok := st.mem[memKey{k.a, p}]; ok {
			return u, true
		}
	}
	return UUnknown, false
}

func (q *UQ) step(fn *ssa.Function, instr ssa.Instruction, st *uqState, vals map[ssa.Value]Unit, chain []string, depth int, final bool, out []Unit) {
	set := func(v ssa.Value, u Unit) {
		if old, ok := vals[v]; ok && !final {
			vals[v] = joinUnit(old, u)
			return
		}
		vals[v] = u
	}
	switch x := instr.(type) {
	case *ssa.Phi:
		u := UAny
		for _, e := range x.Edges {
			if _, done := vals[e]; !done {
				if _, isInstr := e.(ssa.Instruction); isInstr {
					continue // not computed yet on this pass: bottom
				}
			}
			u = joinUnit(u, q.unitOf(e, vals))
		}
		set(x, u)
	case *ssa.UnOp:
		if x.Op == token.MUL {
			k, label, isLocal := addrKey(x.X)
			if isLocal {
				if u, ok := lookupMem(st, k); ok {
					set(x, u)
					return
				}
			}
			if label != "" {
				if u, ok := q.fieldSeed(label); ok {
					set(x, u)
					return
				}
			}
			// element loads: unit of the container
			if ia, ok := x.X.(*ssa.IndexAddr); ok {
				set(x, q.unitOf(ia.X, vals))
				return
			}
			set(x, UUnknown)
			return
		}
		set(x, q.unitOf(x.X, vals))
	case *ssa.Store:
		k, label, isLocal := addrKey(x.Addr)
		u := q.unitOf(x.Val, vals)
		if isLocal {
			// a whole-struct store clears the recorded sub-fields
			for mk := range st.mem {
				if mk.a == k.a && strings.HasPrefix(mk.path, k.path) && mk.path != k.path {
					delete(st.mem, mk)
				}
			}
			if amountType(x.Val.Type()) || u.Kind != 0 {
				st.mem[k] = u
			}
		}
		// sinks: fields with a required unit
		if final && label != "" && amountType(x.Val.Type()) {
			if want, ok := q.fieldSeed(label); ok && want.Known() && u.Known() && u != want {
				q.report("sink", x, fn, fmt.Sprintf("%s receives a value in %s units, the field holds %s units", label, u, want), chain)
			}
			if _, ok := q.fieldSeed(label); ok && u.Known() {
				q.Sites++
			}
		}
		// array literal element stores: the array carries the element unit
		if ia, ok := x.Addr.(*ssa.IndexAddr); ok {
			if a, ok := ia.X.(*ssa.Alloc); ok {
				mk := memKey{a, ""}
				if old, ok := st.mem[mk]; ok {
					st.mem[mk] = joinUnit(old, u)
				} else {
					st.mem[mk] = u
				}
			}
		}
	case *ssa.Slice:
		if a, ok := x.X.(*ssa.Alloc); ok {
			if u, ok := st.mem[memKey{a, ""}]; ok {
				set(x, u)
				return
			}
		}
		set(x, q.unitOf(x.X, vals))
	case *ssa.Field:
		_, path, rt := fieldPath(x)
		if rt != nil {
			if u, ok := q.fieldSeed(typeLabel(rt) + "." + strings.Join(path, ".")); ok {
				set(x, u)
				return
			}
		}
		set(x, q.unitOf(x.X, vals))
	case *ssa.FieldAddr, *ssa.IndexAddr, *ssa.Alloc:
		// addresses carry no unit
	case *ssa.ChangeType:
		set(x, q.unitOf(x.X, vals))
	case *ssa.Convert:
		set(x, q.unitOf(x.X, vals))
	case *ssa.MakeInterface:
		set(x, q.unitOf(x.X, vals))
	case *ssa.Extract:
		if c, ok := x.Tuple.(*ssa.Call); ok {
			if us, ok := q.callResults[c]; ok && x.Index < len(us) {
				set(x, us[x.Index])
				return
			}
		}
		set(x, UUnknown)
	case *ssa.BinOp:
		a, b := q.unitOf(x.X, vals), q.unitOf(x.Y, vals)
		switch x.Op {
		case token.ADD, token.SUB:
			set(x, q.addLike(a, b, x, fn, "integer "+x.Op.String(), chain, final))
		case token.MUL:
			set(x, mulUnit(a, b))
		case token.QUO:
			set(x, quoUnit(a, b))
		default:
			set(x, UUnknown)
		}
	case *ssa.Call:
		q.call(fn, x, st, vals, chain, depth, final)
	case *ssa.Return:
		for i, r := range x.Results {
			if i < len(out) {
				out[i] = joinUnit(out[i], q.unitOf(r, vals))
			}
		}
	}
}

func mulUnit(a, b Unit) Unit {
	if a.Kind == 1 || b.Kind == 1 {
		return UAny
	}
	if a.Known() && b.Known() {
		return Unit{Kind: 2, E: a.E + b.E, H: a.H + b.H}
	}
	return UUnknown
}

func quoUnit(a, b Unit) Unit {
	if a.Kind == 1 {
		return UAny
	}
	if a.Known() && b.Known() {
		return Unit{Kind: 2, E: a.E - b.E, H: a.H - b.H}
	}
	return UUnknown
}

func (q *UQ) addLike(a, b Unit, at ssa.Instruction, fn *ssa.Function, what string, chain []string, final bool) Unit {
	if a.Known() && b.Known() {
		if final {
			q.Sites++
		}
		if a != b {
			if final {
				q.report("mix", at, fn, fmt.Sprintf("%s of a value in %s units and a value in %s units", what, a, b), chain)
			}
			return UUnknown
		}
		return a
	}
	if a.Known() {
		return a
	}
	if b.Known() {
		return b
	}
	return joinUnit(a, b)
}

var addLikeMethods = map[string]bool{"Add": true, "Sub": true, "GTE": true, "GT": true, "LT": true, "LTE": true, "Equal": true, "IsGTE": true, "IsLT": true, "IsEqual": true, "SubAmount": true, "AddAmount": true, "SafeSub": true}
var passMethods = map[string]bool{"ToDec": true, "TruncateInt": true, "RoundInt": true, "BigInt": true, "Int64": true, "Uint64": true, "Abs": true, "Neg": true, "MulRaw": true, "QuoRaw": true, "MulInt64": true, "QuoInt64": true, "MulUint64": true, "QuoUint64": true, "Ceil": true, "TruncateDec": true}

func (q *UQ) call(fn *ssa.Function, c *ssa.Call, st *uqState, vals map[ssa.Value]Unit, chain []string, depth int, final bool) {
	if q.callResults == nil {
		q.callResults = map[*ssa.Call][]Unit{}
	}
	set := func(u Unit) { vals[c] = u; q.callResults[c] = []Unit{u, UUnknown} }
	d, ok := Describe(&c.Call)
	if !ok {
		set(UUnknown)
		return
	}
	args := siteArgsOf(&c.Call)
	au := make([]Unit, len(args))
	for i, a := range args {
		au[i] = q.unitOf(a, vals)
	}
	isNum := d.Recv == "Int" || d.Recv == "Dec" || d.Recv == "Uint" || d.Recv == "Coin" || d.Recv == "Coins"
	if q.Trace != nil && final {
		defer func() {
			q.Trace(fmt.Sprintf("%s %s %s args=%v -> %v", FuncName(fn), q.P.InstrPos(c), d.String(), au, vals[c]))
		}()
	}
	switch {
	case d.Pkg == "builtin":
		if d.Name == "append" && len(au) == 2 {
			set(joinUnit(au[0], au[1]))
			return
		}
		set(UUnknown)
	case (d.Name == "ConvertFromExternalValue" || d.Name == "ConvertToExternalValue") && len(args) >= 1:
		amt := au[len(au)-1]
		want, res := UExt, UHub
		if d.Name == "ConvertToExternalValue" {
			want, res = UHub, UExt
		}
		if final && amt.Known() {
			q.Sites++
			if amt != want {
				q.report("sink", c, fn, fmt.Sprintf("%s is applied to a value already in %s units (it expects %s units)", d.Name, amt, want), chain)
			}
		}
		set(res)
	case isNum && addLikeMethods[d.Name] && len(au) == 2:
		u := q.addLike(au[0], au[1], c, fn, d.Recv+"."+d.Name, chain, final)
		if d.Name == "Add" || d.Name == "Sub" || d.Name == "SubAmount" || d.Name == "AddAmount" || d.Name == "SafeSub" {
			set(u)
		} else {
			set(UNone)
		}
	case isNum && (d.Name == "Mul" || d.Name == "MulInt" || d.Name == "MulTruncate") && len(au) == 2:
		set(mulUnit(au[0], au[1]))
	case isNum && (d.Name == "Quo" || d.Name == "QuoInt" || d.Name == "QuoTruncate") && len(au) == 2:
		set(quoUnit(au[0], au[1]))
	case isNum && passMethods[d.Name] && len(au) >= 1:
		set(au[0])
	case isNum && (d.Name == "IsPositive" || d.Name == "IsZero" || d.Name == "IsNegative" || d.Name == "IsValid" || d.Name == "String"):
		set(UNone)
	case d.Name == "NewCoin" && len(au) == 2:
		set(au[1])
	case d.Name == "NewInt64Coin" && len(au) == 2:
		set(au[1])
	case d.Name == "NewCoins":
		if len(au) == 1 {
			set(au[0])
		} else {
			set(UUnknown)
		}
	case d.Name == "NewInt" || d.Name == "NewIntFromUint64" || d.Name == "NewUint" || d.Name == "NewDec" || d.Name == "NewIntFromBigInt" || d.Name == "NewDecFromInt":
		if len(au) == 1 {
			set(au[0])
		} else {
			set(UUnknown)
		}
	case d.Name == "ZeroInt" || d.Name == "ZeroDec":
		set(UAny)
	case d.Name == "MaxInt" || d.Name == "MinInt":
		if len(au) == 2 {
			set(q.addLike(au[0], au[1], c, fn, d.Name, chain, final))
		} else {
			set(UUnknown)
		}
	case d.Name == "NewSDKIntExternalToken" && len(au) >= 1:
		if final && au[0].Known() {
			q.Sites++
			if au[0] != UExt {
				q.report("sink", c, fn, fmt.Sprintf("an ExternalToken is built from an amount in %s units (it must be in the token's external units)", au[0]), chain)
			}
		}
		set(au[0])
	case d.Name == "GetCommissionForHolder":
		set(UNone)
	default:
		// bank sinks
		isBank := false
		if c.Call.IsInvoke() && IsBankKeeper(c.Call.Value.Type()) && bankMutators[d.Name] {
			isBank = true
		}
		if isBank && len(args) > 0 {
			u := au[len(au)-1]
			if final && u.Known() {
				q.Sites++
				if u != UHub {
					q.report("sink", c, fn, fmt.Sprintf("BankKeeper.%s receives coins in %s units (the bank holds 18-decimals hub units)", d.Name, u), chain)
				}
			}
			set(UUnknown)
			return
		}
		callee := c.Call.StaticCallee()
		if callee != nil && q.P.isMod[callee] && callee.Blocks != nil && !q.P.L.IsGenerated(callee.Pos()) {
			res := q.analyze(callee, au, chain, depth+1)
			q.callResults[c] = res
			if len(res) > 0 {
				vals[c] = res[0]
			} else {
				vals[c] = UUnknown
			}
			return
		}
		// module interface implementations and bound closures
		if callee == nil {
			for _, t := range q.P.Callees(c) {
				if t.Blocks != nil && !q.P.L.IsGenerated(t.Pos()) {
					ta := au
					if c.Call.IsInvoke() {
						ta = au // receiver first already
					}
					q.analyze(t, pad(ta, len(t.Params)), chain, depth+1)
				}
			}
		}
		set(UUnknown)
	}
}

func pad(a []Unit, n int) []Unit {
	out := make([]Unit, n)
	copy(out, a)
	return out
}

// SortedIssues returns the issues in source order.
func (q *UQ) SortedIssues() []UnitIssue {
	out := append([]UnitIssue{}, q.Issues...)
	sort.Slice(out, func(i, j int) bool { return out[i].At.Pos() < out[j].At.Pos() })
	return out
}
