package ana

import (
	"go/types"
	"sort"

	"golang.org/x/tools/go/ssa"
)

// Region is one open-iterator region instance (IT engine): the code that can run between the
// creation of a store iterator and its Close, for one binding of the creating function's callbacks.
type Region struct {
	Fn     *ssa.Function
	Iter   StoreOp
	Entry  *Edge // the call site that enters Fn with the callbacks of this instance (nil: no callback parameters)
	Funcs  map[*ssa.Function]bool
	Writes []StoreOp // writes to the same store inside the region
	Nested []StoreOp // iterator creations on the same store inside the region
	Closed bool      // a Close() of the iterator exists (deferred or explicit)
	Instrs int
}

// instrsAfter returns the instructions that can execute after "start" and before an explicit
// (non-deferred) Close of the iterator value.
func instrsAfter(start ssa.Instruction, iterVal ssa.Value) (out []ssa.Instruction, closed bool) {
	isClose := func(in ssa.Instruction) (bool, bool) {
		site, ok := in.(ssa.CallInstruction)
		if !ok {
			return false, false
		}
		cc := site.Common()
		if cc.IsInvoke() && cc.Method.Name() == "Close" && cc.Value == iterVal {
			_, deferred := in.(*ssa.Defer)
			return true, deferred
		}
		return false, false
	}
	seen := map[*ssa.BasicBlock]bool{}
	var walkBlock func(b *ssa.BasicBlock, from int)
	walkBlock = func(b *ssa.BasicBlock, from int) {
		for i := from; i < len(b.Instrs); i++ {
			in := b.Instrs[i]
			if c, deferred := isClose(in); c {
				closed = true
				if !deferred {
					return // region ends on this path
				}
				continue
			}
			out = append(out, in)
		}
		for _, s := range b.Succs {
			if !seen[s] {
				seen[s] = true
				walkBlock(s, 0)
			}
		}
	}
	b := start.Block()
	idx := 0
	for i, in := range b.Instrs {
		if in == start {
			idx = i + 1
		}
	}
	walkBlock(b, idx)
	return out, closed
}

// Regions enumerates the open-iterator regions of the functions in scope.
func (p *Prog) Regions(scope map[*ssa.Function]bool) []*Region {
	var out []*Region
	var fns []*ssa.Function
	for f := range scope {
		fns = append(fns, f)
	}
	sort.Slice(fns, func(i, j int) bool { return fns[i].Pos() < fns[j].Pos() })
	for _, f := range fns {
		if p.L.IsGenerated(f.Pos()) {
			continue
		}
		for _, op := range p.StoreOps(f) {
			if !op.IsIter() {
				continue
			}
			iterVal, _ := op.Site.(ssa.Value)
			if iterVal == nil {
				continue
			}
			body, closed := instrsAfter(op.Site.(ssa.Instruction), iterVal)
			// callback parameters of f
			var fpars []*ssa.Parameter
			for _, par := range f.Params {
				if isFuncType(par) {
					fpars = append(fpars, par)
				}
			}
			var entries []*Edge
			if len(fpars) > 0 {
				for i := range p.In[f] {
					e := p.In[f][i]
					if scope[e.Caller] {
						entries = append(entries, &e)
					}
				}
			}
			if len(entries) == 0 {
				entries = []*Edge{nil}
			}
			for _, e := range entries {
				rg := &Region{Fn: f, Iter: op, Entry: e, Funcs: map[*ssa.Function]bool{}, Closed: closed, Instrs: len(body)}
				bind := map[*ssa.Parameter][]*ssa.Function{}
				if e != nil {
					for _, par := range fpars {
						bind[par] = p.ArgFuncsAt(e.Site, f, par)
					}
				}
				for _, in := range body {
					// direct ops of f inside the region
					if site, ok := in.(ssa.CallInstruction); ok {
						for _, op2 := range p.StoreOps(f) {
							if op2.Site == site && op2.Site != op.Site {
								rg.add(op2, op)
							}
						}
						// callees
						var callees []*ssa.Function
						if par, ok := site.Common().Value.(*ssa.Parameter); ok && !site.Common().IsInvoke() {
							callees = bind[par]
						} else {
							callees = p.Callees(site)
						}
						for _, callee := range callees {
							nb := map[*ssa.Parameter][]*ssa.Function{}
							args := siteArgsOf(site.Common())
							for i, cp := range callee.Params {
								if !isFuncType(cp) || i >= len(args) {
									continue
								}
								fs, pars, _ := resolveFuncValue(args[i], map[ssa.Value]bool{})
								nb[cp] = append(nb[cp], fs...)
								for _, q := range pars {
									nb[cp] = append(nb[cp], bind[q]...)
								}
							}
							for g := range p.ReachCSBound(callee, nb) {
								rg.Funcs[g] = true
							}
						}
					}
				}
				var gs []*ssa.Function
				for g := range rg.Funcs {
					gs = append(gs, g)
				}
				sort.Slice(gs, func(i, j int) bool { return gs[i].Pos() < gs[j].Pos() })
				for _, g := range gs {
					for _, op2 := range p.StoreOps(g) {
						rg.add(op2, op)
					}
				}
				out = append(out, rg)
			}
		}
	}
	return out
}

func isFuncType(par *ssa.Parameter) bool {
	_, ok := par.Type().Underlying().(*types.Signature)
	return ok
}

func (rg *Region) add(op2, outer StoreOp) {
	if op2.Store != outer.Store {
		return
	}
	if op2.IsWrite() {
		rg.Writes = append(rg.Writes, op2)
	}
	if op2.IsIter() {
		rg.Nested = append(rg.Nested, op2)
	}
}

// Extends reports whether key shape a has b as a proper-or-equal prefix (component-wise).
func KeyExtends(a, b *Key) bool {
	if a == nil || b == nil || len(a.Parts) < len(b.Parts) {
		return false
	}
	for i, pb := range b.Parts {
		pa := a.Parts[i]
		if pa.Kind != pb.Kind {
			return false
		}
		if pa.Kind == "const" && string(pa.Const) != string(pb.Const) {
			// a longer constant that starts with b's constant also extends it (only for the last part)
			if i == len(b.Parts)-1 && len(pa.Const) >= len(pb.Const) && string(pa.Const[:len(pb.Const)]) == string(pb.Const) {
				continue
			}
			return false
		}
		if pa.Kind == "unknown" {
			return false
		}
	}
	return true
}
