package ana

import (
	"fmt"
	"go/token"
	"strings"

	"golang.org/x/tools/go/ssa"
)

// Expr renders the expression tree that computes v, inlining module
// functions with a single return and substituting their parameters.  It is
// the CT engine's view of a threshold / normalisation formula: rules match
// the rendered normal form, so operator order and operand roles are part of
// the rule (flattened leaves are not enough to tell 66*T/100 from T/100*66).
//
// Rendering: Recv.Name(args) for calls (receiver first), literal constants,
// field:T.path for field loads, $name for unbound parameters, phi(...) for
// merges (loop-carried self references render as "@").
func (p *Prog) Expr(v ssa.Value, maxInline int) string {
	e := &exprState{p: p, max: maxInline, busy: map[ssa.Value]bool{}}
	return e.render(v, nil, 0)
}

type exprFrame struct {
	fn     *ssa.Function
	args   []ssa.Value
	parent *exprFrame
}

type exprState struct {
	p    *Prog
	max  int
	busy map[ssa.Value]bool
}

func (e *exprState) render(v ssa.Value, fr *exprFrame, depth int) string {
	if v == nil {
		return "nil"
	}
	if depth > 24 {
		return "…"
	}
	if e.busy[v] {
		return "@"
	}
	e.busy[v] = true
	defer delete(e.busy, v)
	switch x := v.(type) {
	case *ssa.Const:
		if x.Value == nil {
			return "nil"
		}
		return x.Value.ExactString()
	case *ssa.Parameter:
		idx := paramIndex(x.Parent(), x)
		if fr != nil && fr.fn == x.Parent() && idx >= 0 && idx < len(fr.args) {
			return e.render(fr.args[idx], fr.parent, depth+1)
		}
		return fmt.Sprintf("$p%d", idx)
	case *ssa.FreeVar:
		fn := x.Parent()
		if mc := e.p.closureSite[fn]; mc != nil {
			for i, fv := range fn.FreeVars {
				if fv == x && i < len(mc.Bindings) {
					return e.render(mc.Bindings[i], nil, depth+1)
				}
			}
		}
		return "freevar:" + x.Name()
	case *ssa.Alloc:
		// address of a local: its single stored value
		var st *ssa.Store
		n := 0
		for _, r := range *x.Referrers() {
			if s, ok := r.(*ssa.Store); ok && s.Addr == ssa.Value(x) {
				st = s
				n++
			}
		}
		if n == 1 {
			return e.render(st.Val, fr, depth+1)
		}
		return "local:" + x.Comment
	case *ssa.Phi:
		var parts []string
		for _, ed := range x.Edges {
			parts = append(parts, e.render(ed, fr, depth+1))
		}
		return "phi(" + strings.Join(parts, ",") + ")"
	case *ssa.BinOp:
		return "(" + e.render(x.X, fr, depth+1) + x.Op.String() + e.render(x.Y, fr, depth+1) + ")"
	case *ssa.UnOp:
		if x.Op == token.MUL {
			root, path, rt := fieldPath(x.X)
			if len(path) > 0 {
				if a, ok := root.(*ssa.Alloc); ok {
					// local struct: single store into that field
					if vs := singleFieldStore(a, path); vs != nil {
						return e.render(vs, fr, depth+1)
					}
					return "local:" + a.Comment + "." + strings.Join(path, ".")
				}
				return "field:" + typeLabel(rt) + "." + strings.Join(path, ".")
			}
			if a, ok := x.X.(*ssa.Alloc); ok {
				var st *ssa.Store
				n := 0
				for _, r := range *a.Referrers() {
					if s, ok := r.(*ssa.Store); ok && s.Addr == a {
						st = s
						n++
					}
				}
				if n == 1 {
					return e.render(st.Val, fr, depth+1)
				}
				return "local:" + a.Comment
			}
			if g, ok := x.X.(*ssa.Global); ok {
				if iv := e.p.GlobalInit(g); iv != nil {
					return e.render(iv, nil, depth+1)
				}
				return "global:" + g.Name()
			}
			if fv, ok := x.X.(*ssa.FreeVar); ok {
				return e.render(fv, fr, depth+1)
			}
			return "*" + e.render(x.X, fr, depth+1)
		}
		return x.Op.String() + e.render(x.X, fr, depth+1)
	case *ssa.Convert:
		return e.render(x.X, fr, depth+1)
	case *ssa.ChangeType:
		return e.render(x.X, fr, depth+1)
	case *ssa.MakeInterface:
		return e.render(x.X, fr, depth+1)
	case *ssa.Field:
		_, path, rt := fieldPath(x)
		return "field:" + typeLabel(rt) + "." + strings.Join(path, ".")
	case *ssa.Extract:
		if c, ok := x.Tuple.(*ssa.Call); ok {
			return e.call(c, x.Index, fr, depth)
		}
	case *ssa.Call:
		return e.call(x, 0, fr, depth)
	case *ssa.Global:
		return "global:" + x.Name()
	case *ssa.Slice:
		if a, ok := x.X.(*ssa.Alloc); ok {
			if elems, ok := arrayLitElems(a); ok && len(elems) > 0 {
				var parts []string
				for i := int64(0); i < int64(len(elems)); i++ {
					parts = append(parts, e.render(elems[i], fr, depth+1))
				}
				return "[" + strings.Join(parts, ",") + "]"
			}
		}
		return e.render(x.X, fr, depth+1) + "[:]"
	case *ssa.IndexAddr:
		return e.render(x.X, fr, depth+1) + "[]"
	case *ssa.Index:
		return e.render(x.X, fr, depth+1) + "[]"
	case *ssa.Lookup:
		return e.render(x.X, fr, depth+1) + "[" + e.render(x.Index, fr, depth+1) + "]"
	}
	return fmt.Sprintf("?%T", v)
}

func singleFieldStore(a *ssa.Alloc, path []string) ssa.Value {
	if len(path) != 1 {
		return nil
	}
	// whole-value stores into the local make the field multi-assigned
	for _, r := range *a.Referrers() {
		if s, ok := r.(*ssa.Store); ok && s.Addr == ssa.Value(a) {
			return nil
		}
	}
	vs := FieldStores(a)[path[0]]
	if len(vs) == 1 {
		return vs[0]
	}
	return nil
}

func (e *exprState) call(c *ssa.Call, result int, fr *exprFrame, depth int) string {
	d, ok := Describe(&c.Call)
	if !ok {
		return "dyncall"
	}
	args := siteArgsOf(&c.Call)
	fn := c.Call.StaticCallee()
	nInl := 0
	for f := fr; f != nil; f = f.parent {
		nInl++
	}
	if fn != nil && e.p.isMod[fn] && fn.Blocks != nil && !e.p.L.IsGenerated(fn.Pos()) && nInl < e.max {
		var rets []*ssa.Return
		Instrs(fn, func(in ssa.Instruction) {
			if r, ok := in.(*ssa.Return); ok {
				rets = append(rets, r)
			}
		})
		if len(rets) == 1 && result < len(rets[0].Results) {
			return e.render(rets[0].Results[result], &exprFrame{fn: fn, args: args, parent: fr}, depth+1)
		}
	}
	var parts []string
	for _, a := range args {
		if n := NamedOf(a.Type()); n != nil && (n.Obj().Name() == "Context" || strings.HasSuffix(n.Obj().Name(), "Keeper")) {
			continue
		}
		parts = append(parts, e.render(a, fr, depth+1))
	}
	name := d.Name
	if d.Recv != "" {
		name = d.Recv + "." + d.Name
	}
	return name + "(" + strings.Join(parts, ",") + ")"
}

// commutative operations of the rendering: their operands are sorted by CanonExpr.
var commutativeOps = map[string]bool{"Int.Add": true, "Int.Mul": true, "Dec.Add": true, "Dec.Mul": true, "Uint.Add": true, "Uint.Mul": true,
	"Coins.Add": false, "MaxInt": true, "MinInt": true}

// CanonExpr rewrites a rendered expression so that the operands of commutative operations (Int.Add,
// Int.Mul, Dec.Add, Dec.Mul, MaxInt, MinInt, and the binary + and *) appear in sorted order: a.Add(b) and
// b.Add(a) get one normal form.
func CanonExpr(s string) string {
	out, rest := canonParse(s)
	if rest != "" {
		return s
	}
	return out
}

// canonParse parses one expression from the front of s and returns its canonical text and the remainder.
func canonParse(s string) (string, string) {
	if s == "" {
		return "", ""
	}
	if s[0] == '(' {
		// (a op b)
		a, rest := canonParse(s[1:])
		if rest == "" {
			return s, ""
		}
		// operator: up to the start of the next operand
		i := 0
		for i < len(rest) && strings.ContainsRune("+-*/%<>=!&|^", rune(rest[i])) {
			i++
		}
		if i == 0 {
			if rest[0] == ')' {
				return "(" + a + ")", rest[1:]
			}
			return s, ""
		}
		op := rest[:i]
		b, rest2 := canonParse(rest[i:])
		if rest2 == "" || rest2[0] != ')' {
			return s, ""
		}
		if (op == "+" || op == "*") && b < a {
			a, b = b, a
		}
		return "(" + a + op + b + ")", rest2[1:]
	}
	// a name, optionally followed by an argument list
	i := 0
	depthBr := 0
	for i < len(s) {
		ch := s[i]
		if ch == '[' {
			depthBr++
		} else if ch == ']' {
			depthBr--
		} else if depthBr == 0 && (ch == '(' || ch == ')' || ch == ',' || strings.ContainsRune("+-*/%<>=!&|^", rune(ch))) {
			// '-' and friends inside a name (negative constants, "->") are kept when they start the token
			if !(i == 0 && ch == '-') {
				break
			}
		}
		i++
	}
	name := s[:i]
	rest := s[i:]
	if rest == "" || rest[0] != '(' {
		return name, rest
	}
	rest = rest[1:]
	var args []string
	if rest != "" && rest[0] == ')' {
		return name + "()", rest[1:]
	}
	for {
		a, r := canonParse(rest)
		args = append(args, a)
		if r == "" {
			return s, ""
		}
		if r[0] == ',' {
			rest = r[1:]
			continue
		}
		if r[0] == ')' {
			rest = r[1:]
			break
		}
		return s, ""
	}
	if commutativeOps[name] && len(args) == 2 && args[1] < args[0] {
		args[0], args[1] = args[1], args[0]
	}
	return name + "(" + strings.Join(args, ",") + ")", rest
}
