package ana

import (
	"fmt"
	"go/token"
	"strings"

	"golang.org/x/tools/go/ssa"
)

// Expr renders the expression tree that computes v, inlining module
// functions with a single return and substituting their parameters.  It is
// the CT engine's view of a threshold / normalisation formula: rules match
// the rendered normal form, so operator order and operand roles are part of
// the rule (flattened leaves are not enough to tell 66*T/100 from T/100*66).
//
// Rendering: Recv.Name(args) for calls (receiver first), literal constants,
// field:T.path for field loads, $name for unbound parameters, phi(...) for
// merges (loop-carried self references render as "@").
func (p *Prog) Expr(v ssa.Value, maxInline int) string {
	e := &exprState{p: p, max: maxInline, busy: map[ssa.Value]bool{}}
	return e.render(v, nil, 0)
}

type exprFrame struct {
	fn     *ssa.Function
	args   []ssa.Value
	parent *exprFrame
}

type exprState struct {
	p    *Prog
	max  int
	busy map[ssa.Value]bool
}

func (e *exprState) render(v ssa.Value, fr *exprFrame, depth int) string {
	if v == nil {
		return "nil"
	}
	if depth > 24 {
		return "…"
	}
	if e.busy[v] {
		return "@"
	}
	e.busy[v] = true
	defer delete(e.busy, v)
	switch x := v.(type) {
	case *ssa.Const:
		if x.Value == nil {
			return "nil"
		}
		return x.Value.ExactString()
	case *ssa.Parameter:
		idx := paramIndex(x.Parent(), x)
		if fr != nil && fr.fn == x.Parent() && idx >= 0 && idx < len(fr.args) {
			return e.render(fr.args[idx], fr.parent, depth+1)
		}
		return fmt.Sprintf("$p%d", idx)
	case *ssa.FreeVar:
		fn := x.Parent()
		if mc := e.p.closureSite[fn]; mc != nil {
			for i, fv := range fn.FreeVars {
				if fv == x && i < len(mc.Bindings) {
					return e.render(mc.Bindings[i], nil, depth+1)
				}
			}
		}
		return "freevar:" + x.Name()
	case *ssa.Alloc:
		// address of a local: its single stored value
		var st *ssa.Store
		n := 0
		for _, r := range *x.Referrers() {
			if s, ok := r.(*ssa.Store); ok && s.Addr == ssa.Value(x) {
				st = s
				n++
			}
		}
		if n == 1 {
			return e.render(st.Val, fr, depth+1)
		}
		return "local:" + x.Comment
	case *ssa.Phi:
		var parts []string
		for _, ed := range x.Edges {
			parts = append(parts, e.render(ed, fr, depth+1))
		}
		return "phi(" + strings.Join(parts, ",") + ")"
	case *ssa.BinOp:
		return "(" + e.render(x.X, fr, depth+1) + x.Op.String() + e.render(x.Y, fr, depth+1) + ")"
	case *ssa.UnOp:
		if x.Op == token.MUL {
			root, path, rt := fieldPath(x.X)
			if len(path) > 0 {
				if a, ok := root.(*ssa.Alloc); ok {
					// local struct: single store into that field
					if vs := singleFieldStore(a, path); vs != nil {
						return e.render(vs, fr, depth+1)
					}
					return "local:" + a.Comment + "." + strings.Join(path, ".")
				}
				return "field:" + typeLabel(rt) + "." + strings.Join(path, ".")
			}
			if a, ok := x.X.(*ssa.Alloc); ok {
				var st *ssa.Store
				n := 0
				for _, r := range *a.Referrers() {
					if s, ok := r.(*ssa.Store); ok && s.Addr == a {
						st = s
						n++
					}
				}
				if n == 1 {
					return e.render(st.Val, fr, depth+1)
				}
				return "local:" + a.Comment
			}
			if g, ok := x.X.(*ssa.Global); ok {
				if iv := e.p.GlobalInit(g); iv != nil {
					return e.render(iv, nil, depth+1)
				}
				return "global:" + g.Name()
			}
			if fv, ok := x.X.(*ssa.FreeVar); ok {
				return e.render(fv, fr, depth+1)
			}
			return "*" + e.render(x.X, fr, depth+1)
		}
		return x.Op.String() + e.render(x.X, fr, depth+1)
	case *ssa.Convert:
		return e.render(x.X, fr, depth+1)
	case *ssa.ChangeType:
		return e.render(x.X, fr, depth+1)
	case *ssa.MakeInterface:
		return e.render(x.X, fr, depth+1)
	case *ssa.Field:
		_, path, rt := fieldPath(x)
		return "field:" + typeLabel(rt) + "." + strings.Join(path, ".")
	case *ssa.Extract:
		if c, ok := x.Tuple.(*ssa.Call); ok {
			return e.call(c, x.Index, fr, depth)
		}
	case *ssa.Call:
		return e.call(x, 0, fr, depth)
	case *ssa.Global:
		return "global:" + x.Name()
	case *ssa.Slice:
		if a, ok := x.X.(*ssa.Alloc); ok {
			if elems, ok := arrayLitElems(a); ok && len(elems) > 0 {
				var parts []string
				for i := int64(0); i < int64(len(elems)); i++ {
					parts = append(parts, e.render(elems[i], fr, depth+1))
				}
				return "[" + strings.Join(parts, ",") + "]"
			}
		}
		return e.render(x.X, fr, depth+1) + "[:]"
	case *ssa.IndexAddr:
		return e.render(x.X, fr, depth+1) + "[]"
	case *ssa.Index:
		return e.render(x.X, fr, depth+1) + "[]"
	case *ssa.Lookup:
		return e.render(x.X, fr, depth+1) + "[" + e.render(x.Index, fr, depth+1) + "]"
	}
	return fmt.Sprintf("?%T", v)
}

func singleFieldStore(a *ssa.Alloc, path []string) ssa.Value {
	if len(path) != 1 {
		return nil
	}
	// whole-value stores into the local make the field multi-assigned
	for _, r := range *a.Referrers() {
		if s, ok := r.(*ssa.Store); ok && s.Addr == ssa.Value(a) {
			return nil
		}
	}
	vs := FieldStores(a)[path[0]]
	if len(vs) == 1 {
		return vs[0]
	}
	return nil
}

func (e *exprState) call(c *ssa.Call, result int, fr *exprFrame, depth int) string {
	d, ok := Describe(&c.Call)
	if !ok {
		return "dyncall"
	}
	args := siteArgsOf(&c.Call)
	fn := c.Call.StaticCallee()
	nInl := 0
	for f := fr; f != nil; f = f.parent {
		nInl++
	}
	if fn != nil && e.p.isMod[fn] && fn.Blocks != nil && !e.p.L.IsGenerated(fn.Pos()) && nInl < e.max {
		var rets []*ssa.Return
		Instrs(fn, func(in ssa.Instruction) {
			if r, ok := in.(*ssa.Return); ok {
				rets = append(rets, r)
			}
		})
		if len(rets) == 1 && result < len(rets[0].Results) {
			return e.render(rets[0].Results[result], &exprFrame{fn: fn, args: args, parent: fr}, depth+1)
		}
	}
	var parts []string
	for _, a := range args {
		if n := NamedOf(a.Type()); n != nil && (n.Obj().Name() == "Context" || strings.HasSuffix(n.Obj().Name(), "Keeper")) {
			continue
		}
		parts = append(parts, e.render(a, fr, depth+1))
	}
	name := d.Name
	if d.Recv != "" {
		name = d.Recv + "." + d.Name
	}
	return name + "(" + strings.Join(parts, ",") + ")"
}
