// Package ana holds the analysis engines shared by the per-property rules.
package ana

import (
	"fmt"
	"go/token"
	"go/types"
	"sort"
	"strings"

	"golang.org/x/tools/go/callgraph"
	"golang.org/x/tools/go/callgraph/cha"
	"golang.org/x/tools/go/callgraph/vta"
	"golang.org/x/tools/go/ssa"
	"golang.org/x/tools/go/ssa/ssautil"

	"mhubsa/load"
)

// Prog is a loaded module plus the indexes the engines need.
type Prog struct {
	L *load.Loaded

	Funcs    []*ssa.Function          // module source functions (non-generated), sorted
	AllFuncs []*ssa.Function          // including generated files
	byName   map[string]*ssa.Function // "pkgsuffix.Recv.Name" / "pkgsuffix.Name"
	isMod    map[*ssa.Function]bool

	// call graph restricted to module code
	Out map[*ssa.Function][]Edge
	In  map[*ssa.Function][]Edge

	vtaGraph    *callgraph.Graph
	closureSite map[*ssa.Function]*ssa.MakeClosure // anonymous function -> its MakeClosure
	implCache   map[string][]*ssa.Function
	keyCache    map[ssa.Value]*Key
	storeOps    map[*ssa.Function][]StoreOp
	bankOps     map[*ssa.Function][]BankOp
}

// FuncAlias gives functions that the rules recognise by what they do (the decimals converter and its two
// wrappers) the name the renderings and operation labels use for them, whatever they are called in the tree.
var FuncAlias = map[*ssa.Function]string{}

// Edge is one resolved call.
type Edge struct {
	Caller *ssa.Function
	Site   ssa.CallInstruction
	Callee *ssa.Function
	Kind   string // static | closure | iface | param | go | defer
}

// NewProg indexes a loaded module.
func NewProg(l *load.Loaded) *Prog {
	p := &Prog{L: l, byName: map[string]*ssa.Function{}, isMod: map[*ssa.Function]bool{},
		Out: map[*ssa.Function][]Edge{}, In: map[*ssa.Function][]Edge{},
		closureSite: map[*ssa.Function]*ssa.MakeClosure{}, implCache: map[string][]*ssa.Function{},
		keyCache: map[ssa.Value]*Key{},
	}
	for _, fn := range l.SrcFuncs {
		p.AllFuncs = append(p.AllFuncs, fn)
		p.isMod[fn] = true
		if l.IsGenerated(fn.Pos()) {
			continue
		}
		p.Funcs = append(p.Funcs, fn)
		p.byName[FuncName(fn)] = fn
	}
	for _, fn := range p.AllFuncs {
		for _, b := range fn.Blocks {
			for _, in := range b.Instrs {
				if mc, ok := in.(*ssa.MakeClosure); ok {
					if f, ok := mc.Fn.(*ssa.Function); ok {
						p.closureSite[f] = mc
					}
				}
			}
		}
	}
	p.vtaGraph = vta.CallGraph(ssautil.AllFunctions(l.Prog), cha.CallGraph(l.Prog))
	p.buildCallGraph()
	return p
}

// vtaTargets returns the module functions VTA resolves an interface call site to.
func (p *Prog) vtaTargets(site ssa.CallInstruction) ([]*ssa.Function, bool) {
	if p.vtaGraph == nil {
		return nil, false
	}
	n := p.vtaGraph.Nodes[site.Parent()]
	if n == nil {
		return nil, false
	}
	var out []*ssa.Function
	found := false
	for _, e := range n.Out {
		if e.Site != site {
			continue
		}
		found = true
		fn := e.Callee.Func
		if fn.Synthetic != "" && fn.Object() != nil {
			if obj, ok := fn.Object().(*types.Func); ok {
				if d := p.L.Prog.FuncValue(obj); d != nil {
					fn = d
				}
			}
		}
		if p.isMod[fn] && !load.IsTestSupport(p.L.Fset.Position(fn.Pos()).Filename) {
			out = append(out, fn)
		}
	}
	return out, found
}

// FuncName renders "pkg.Recv.Name", "pkg.Name" or "pkg.Outer$1" with the
// last element of the package path as pkg ("keeper" is ambiguous between the
// two modules, so the parent directory is kept: "mhub2/keeper").
func FuncName(fn *ssa.Function) string {
	if fn == nil {
		return "<nil>"
	}
	pk := ""
	if p := fn.Package(); p != nil {
		pk = shortPkg(p.Pkg.Path())
	} else if o := fn.Origin(); o != nil && o.Package() != nil {
		pk = shortPkg(o.Package().Pkg.Path())
	}
	if fn.Parent() != nil {
		return FuncName(fn.Parent()) + strings.TrimPrefix(fn.Name(), fn.Parent().Name())
	}
	if recv := fn.Signature.Recv(); recv != nil {
		t := recv.Type()
		if pt, ok := t.(*types.Pointer); ok {
			t = pt.Elem()
		}
		if n, ok := t.(*types.Named); ok {
			return pk + "." + n.Obj().Name() + "." + fn.Name()
		}
	}
	return pk + "." + fn.Name()
}

func shortPkg(path string) string {
	const m = "github.com/MinterTeam/mhub2/"
	path = strings.TrimPrefix(path, m)
	path = strings.TrimPrefix(path, "module/x/")
	path = strings.TrimPrefix(path, "module/")
	return path
}

// Func looks a module function up by its FuncName.
func (p *Prog) Func(name string) *ssa.Function { return p.byName[name] }

// IsModule reports whether fn's body belongs to the analysed module.
func (p *Prog) IsModule(fn *ssa.Function) bool { return fn != nil && p.isMod[fn] }

// Pos renders a position.
func (p *Prog) Pos(pos token.Pos) string { return p.L.Pos(pos) }

// InstrPos finds the best position for an instruction.
func (p *Prog) InstrPos(in ssa.Instruction) string {
	if in == nil {
		return "-"
	}
	if in.Pos().IsValid() {
		return p.Pos(in.Pos())
	}
	if v, ok := in.(ssa.Value); ok {
		for _, r := range *v.Referrers() {
			if r.Pos().IsValid() {
				return p.Pos(r.Pos())
			}
		}
	}
	// fall back to neighbours in the block
	b := in.Block()
	if b != nil {
		idx := -1
		for i, x := range b.Instrs {
			if x == in {
				idx = i
			}
		}
		for d := 1; d < len(b.Instrs); d++ {
			for _, j := range []int{idx - d, idx + d} {
				if j >= 0 && j < len(b.Instrs) && b.Instrs[j].Pos().IsValid() {
					return p.Pos(b.Instrs[j].Pos())
				}
			}
		}
	}
	if in.Parent() != nil {
		return p.Pos(in.Parent().Pos())
	}
	return "-"
}

// ClosureSite returns the MakeClosure that creates anonymous function fn.
func (p *Prog) ClosureSite(fn *ssa.Function) *ssa.MakeClosure { return p.closureSite[fn] }

// NamedOf strips pointers and returns the named type, if any.
func NamedOf(t types.Type) *types.Named {
	for {
		switch x := t.(type) {
		case *types.Pointer:
			t = x.Elem()
			continue
		case *types.Named:
			return x
		case *types.Alias:
			t = types.Unalias(x)
			continue
		}
		return nil
	}
}

// TypeIs reports whether t (through pointers) is the named type pkgSuffix.name.
func TypeIs(t types.Type, pkgSuffix, name string) bool {
	n := NamedOf(t)
	if n == nil || n.Obj().Name() != name {
		return false
	}
	if n.Obj().Pkg() == nil {
		return pkgSuffix == ""
	}
	pp := n.Obj().Pkg().Path()
	return pp == pkgSuffix || strings.HasSuffix(pp, "/"+pkgSuffix)
}

// CalleeOf describes the target of a call for matching purposes.
type CalleeDesc struct {
	Pkg    string // package path of the function / interface / receiver type
	Recv   string // receiver type name ("" for plain functions)
	Name   string
	Iface  bool // interface method invoke
	Static *ssa.Function
}

func (c CalleeDesc) String() string {
	if c.Recv != "" {
		return shortPkg(c.Pkg) + "." + c.Recv + "." + c.Name
	}
	return shortPkg(c.Pkg) + "." + c.Name
}

// Is matches "pkgSuffix", receiver and name ("" receiver = plain function).
func (c CalleeDesc) Is(pkgSuffix, recv, name string) bool {
	if c.Name != name || c.Recv != recv {
		return false
	}
	return c.Pkg == pkgSuffix || strings.HasSuffix(c.Pkg, "/"+pkgSuffix)
}

// Describe resolves the syntactic target of a call (never by text).
func Describe(call *ssa.CallCommon) (CalleeDesc, bool) {
	if call.IsInvoke() {
		m := call.Method
		d := CalleeDesc{Name: m.Name(), Iface: true}
		if n := NamedOf(call.Value.Type()); n != nil {
			d.Recv = n.Obj().Name()
			if n.Obj().Pkg() != nil {
				d.Pkg = n.Obj().Pkg().Path()
			}
		} else if m.Pkg() != nil {
			d.Pkg = m.Pkg().Path()
		}
		return d, true
	}
	if fn := call.StaticCallee(); fn != nil {
		d := CalleeDesc{Name: fn.Name(), Static: fn}
		if o := fn.Origin(); o != nil {
			d.Name = o.Name()
		}
		if recv := fn.Signature.Recv(); recv != nil {
			if n := NamedOf(recv.Type()); n != nil {
				d.Recv = n.Obj().Name()
				if n.Obj().Pkg() != nil {
					d.Pkg = n.Obj().Pkg().Path()
				}
			}
		} else if fn.Pkg != nil {
			d.Pkg = fn.Pkg.Pkg.Path()
		} else if fn.Object() != nil && fn.Object().Pkg() != nil {
			d.Pkg = fn.Object().Pkg().Path()
		}
		// wrappers / bound methods
		if fn.Synthetic != "" && fn.Object() != nil {
			if f, ok := fn.Object().(*types.Func); ok {
				d.Name = f.Name()
				if sig, ok := f.Type().(*types.Signature); ok && sig.Recv() != nil {
					if n := NamedOf(sig.Recv().Type()); n != nil {
						d.Recv = n.Obj().Name()
						if n.Obj().Pkg() != nil {
							d.Pkg = n.Obj().Pkg().Path()
						}
					}
				}
			}
		}
		if a, ok := FuncAlias[fn]; ok {
			d.Name = a
		}
		return d, true
	}
	if b, ok := call.Value.(*ssa.Builtin); ok {
		return CalleeDesc{Pkg: "builtin", Name: b.Name()}, true
	}
	return CalleeDesc{}, false
}

// CallOf returns the CallCommon if v is a call value.
func CallOf(v ssa.Value) *ssa.CallCommon {
	if c, ok := v.(*ssa.Call); ok {
		return &c.Call
	}
	return nil
}

// ---------------------------------------------------------------------------
// call graph

func (p *Prog) addEdge(e Edge) {
	p.Out[e.Caller] = append(p.Out[e.Caller], e)
	p.In[e.Callee] = append(p.In[e.Callee], e)
}

// Implementations returns the module methods implementing the invoked
// interface method (CHA restricted to module-defined concrete types).
func (p *Prog) Implementations(call *ssa.CallCommon) []*ssa.Function {
	if !call.IsInvoke() {
		return nil
	}
	iface, _ := call.Value.Type().Underlying().(*types.Interface)
	if iface == nil {
		return nil
	}
	key := call.Value.Type().String() + "#" + call.Method.Name()
	if r, ok := p.implCache[key]; ok {
		return r
	}
	var out []*ssa.Function
	seen := map[*ssa.Function]bool{}
	for _, pkg := range p.L.Roots {
		sc := pkg.Types.Scope()
		for _, nm := range sc.Names() {
			tn, ok := sc.Lookup(nm).(*types.TypeName)
			if !ok || tn.IsAlias() {
				continue
			}
			if _, isIface := tn.Type().Underlying().(*types.Interface); isIface {
				continue
			}
			for _, t := range []types.Type{tn.Type(), types.NewPointer(tn.Type())} {
				if !types.Implements(t, iface) {
					continue
				}
				sel := p.L.Prog.MethodSets.MethodSet(t).Lookup(call.Method.Pkg(), call.Method.Name())
				if sel == nil {
					continue
				}
				fn := p.L.Prog.MethodValue(sel)
				if fn == nil {
					continue
				}
				// unwrap synthetic pointer-receiver wrappers to the declared method
				if fn.Synthetic != "" {
					if obj, ok := sel.Obj().(*types.Func); ok {
						if d := p.L.Prog.FuncValue(obj); d != nil {
							fn = d
						}
					}
				}
				if p.isMod[fn] && !seen[fn] && !load.IsTestSupport(p.L.Fset.Position(fn.Pos()).Filename) {
					seen[fn] = true
					out = append(out, fn)
				}
			}
		}
	}
	sort.Slice(out, func(i, j int) bool { return out[i].Pos() < out[j].Pos() })
	p.implCache[key] = out
	return out
}

// resolveFuncValue follows a function-typed value to the functions it may
// denote inside one function body (closures, function constants, phis).
func resolveFuncValue(v ssa.Value, seen map[ssa.Value]bool) (fns []*ssa.Function, params []*ssa.Parameter, ok bool) {
	if seen[v] {
		return nil, nil, true
	}
	seen[v] = true
	switch x := v.(type) {
	case *ssa.Function:
		return []*ssa.Function{x}, nil, true
	case *ssa.MakeClosure:
		if f, ok := x.Fn.(*ssa.Function); ok {
			return []*ssa.Function{f}, nil, true
		}
	case *ssa.Parameter:
		return nil, []*ssa.Parameter{x}, true
	case *ssa.ChangeType:
		return resolveFuncValue(x.X, seen)
	case *ssa.Phi:
		all := true
		for _, e := range x.Edges {
			f, ps, ok := resolveFuncValue(e, seen)
			if !ok {
				all = false
			}
			fns = append(fns, f...)
			params = append(params, ps...)
		}
		return fns, params, all
	case *ssa.Const:
		return nil, nil, true // nil func
	}
	return nil, nil, false
}

func paramIndex(fn *ssa.Function, par *ssa.Parameter) int {
	for i, q := range fn.Params {
		if q == par {
			return i
		}
	}
	return -1
}

func (p *Prog) buildCallGraph() {
	// pass 1: static, closure and interface edges
	type pend struct {
		caller *ssa.Function
		site   ssa.CallInstruction
		par    *ssa.Parameter
	}
	var pending []pend
	for _, fn := range p.AllFuncs {
		for _, b := range fn.Blocks {
			for _, in := range b.Instrs {
				site, ok := in.(ssa.CallInstruction)
				if !ok {
					continue
				}
				cc := site.Common()
				kind := "static"
				switch in.(type) {
				case *ssa.Go:
					kind = "go"
				case *ssa.Defer:
					kind = "defer"
				}
				if cc.IsInvoke() {
					impls := p.Implementations(cc)
					// refine the CHA set with VTA where VTA resolved the site
					if tg, ok := p.vtaTargets(site); ok && len(tg) > 0 {
						keep := map[*ssa.Function]bool{}
						for _, t := range tg {
							keep[t] = true
						}
						var ref []*ssa.Function
						for _, impl := range impls {
							if keep[impl] {
								ref = append(ref, impl)
							}
						}
						if len(ref) > 0 {
							impls = ref
						}
					}
					for _, impl := range impls {
						p.addEdge(Edge{fn, site, impl, "iface"})
					}
					continue
				}
				if sc := cc.StaticCallee(); sc != nil {
					if p.isMod[sc] {
						p.addEdge(Edge{fn, site, sc, kind})
					}
					continue
				}
				if _, isB := cc.Value.(*ssa.Builtin); isB {
					continue
				}
				fns, pars, _ := resolveFuncValue(cc.Value, map[ssa.Value]bool{})
				for _, f := range fns {
					if p.isMod[f] {
						p.addEdge(Edge{fn, site, f, "closure"})
					}
				}
				for _, par := range pars {
					pending = append(pending, pend{fn, site, par})
				}
			}
		}
	}
	// pass 2: calls through function-typed parameters are bound to the
	// values passed at the call sites of the enclosing function (one level,
	// repeated to a fixpoint for forwarded callbacks).
	for iter := 0; iter < 4; iter++ {
		added := false
		for _, pd := range pending {
			idx := paramIndex(pd.caller, pd.par)
			if idx < 0 {
				continue
			}
			for _, f := range p.ArgFuncs(pd.caller, idx) {
				if !p.hasEdge(pd.caller, pd.site, f) {
					p.addEdge(Edge{pd.caller, pd.site, f, "param"})
					added = true
				}
			}
		}
		if !added {
			break
		}
	}
	for _, m := range []map[*ssa.Function][]Edge{p.Out, p.In} {
		for _, es := range m {
			sort.SliceStable(es, func(i, j int) bool { return es[i].Site.Pos() < es[j].Site.Pos() })
		}
	}
}

func (p *Prog) hasEdge(caller *ssa.Function, site ssa.CallInstruction, callee *ssa.Function) bool {
	for _, e := range p.Out[caller] {
		if e.Site == site && e.Callee == callee {
			return true
		}
	}
	return false
}

// ArgFuncs returns the functions passed as argument #idx (counting the
// receiver as parameter 0 for methods) at all module call sites of fn.
func (p *Prog) ArgFuncs(fn *ssa.Function, idx int) []*ssa.Function {
	var out []*ssa.Function
	seen := map[*ssa.Function]bool{}
	for _, e := range p.In[fn] {
		args := e.Site.Common().Args
		if e.Site.Common().IsInvoke() {
			// interface invoke: receiver is Value, not in Args
			if idx == 0 {
				continue
			}
			args = append([]ssa.Value{nil}, args...)
		}
		if idx >= len(args) || args[idx] == nil {
			continue
		}
		fns, pars, _ := resolveFuncValue(args[idx], map[ssa.Value]bool{})
		for _, f := range fns {
			if !seen[f] {
				seen[f] = true
				out = append(out, f)
			}
		}
		for _, par := range pars {
			if j := paramIndex(e.Caller, par); j >= 0 {
				for _, f := range p.ArgFuncs(e.Caller, j) {
					if !seen[f] {
						seen[f] = true
						out = append(out, f)
					}
				}
			}
		}
	}
	return out
}

// ArgFuncAt returns the functions passed for parameter par of callee at one site.
func (p *Prog) ArgFuncsAt(site ssa.CallInstruction, callee *ssa.Function, par *ssa.Parameter) []*ssa.Function {
	idx := paramIndex(callee, par)
	if idx < 0 {
		return nil
	}
	args := site.Common().Args
	if site.Common().IsInvoke() {
		args = append([]ssa.Value{nil}, args...)
	}
	if idx >= len(args) || args[idx] == nil {
		return nil
	}
	fns, pars, _ := resolveFuncValue(args[idx], map[ssa.Value]bool{})
	// a callback that is only forwarded: what the forwarding function's own callers pass (three levels)
	return append(fns, p.forwarded(pars, 3)...)
}

func (p *Prog) forwarded(pars []*ssa.Parameter, depth int) []*ssa.Function {
	if depth == 0 {
		return nil
	}
	var out []*ssa.Function
	for _, q := range pars {
		fw := q.Parent()
		idx := paramIndex(fw, q)
		if idx < 0 {
			continue
		}
		for _, e := range p.In[fw] {
			args := e.Site.Common().Args
			if e.Site.Common().IsInvoke() {
				args = append([]ssa.Value{nil}, args...)
			}
			if idx >= len(args) || args[idx] == nil {
				continue
			}
			fns, more, _ := resolveFuncValue(args[idx], map[ssa.Value]bool{})
			out = append(out, fns...)
			out = append(out, p.forwarded(more, depth-1)...)
		}
	}
	return out
}

// Callees returns the resolved module callees of one call site.
func (p *Prog) Callees(site ssa.CallInstruction) []*ssa.Function {
	var out []*ssa.Function
	for _, e := range p.Out[site.Parent()] {
		if e.Site == site {
			out = append(out, e.Callee)
		}
	}
	return out
}

// Reach returns everything reachable from the roots in the module call graph
// (anonymous functions are reachable from the function that creates them only
// through actual calls).
func (p *Prog) Reach(roots ...*ssa.Function) map[*ssa.Function]bool {
	seen := map[*ssa.Function]bool{}
	var walk func(f *ssa.Function)
	walk = func(f *ssa.Function) {
		if f == nil || seen[f] {
			return
		}
		seen[f] = true
		for _, e := range p.Out[f] {
			walk(e.Callee)
		}
	}
	for _, r := range roots {
		walk(r)
	}
	return seen
}

// Callers returns the distinct module callers of fn.
func (p *Prog) Callers(fn *ssa.Function) []*ssa.Function {
	var out []*ssa.Function
	seen := map[*ssa.Function]bool{}
	for _, e := range p.In[fn] {
		if !seen[e.Caller] {
			seen[e.Caller] = true
			out = append(out, e.Caller)
		}
	}
	return out
}

// Instrs calls f for every instruction of fn.
func Instrs(fn *ssa.Function, f func(ssa.Instruction)) {
	for _, b := range fn.Blocks {
		for _, in := range b.Instrs {
			f(in)
		}
	}
}

// Calls calls f for every call instruction of fn with its description.
func Calls(fn *ssa.Function, f func(site ssa.CallInstruction, d CalleeDesc)) {
	Instrs(fn, func(in ssa.Instruction) {
		if site, ok := in.(ssa.CallInstruction); ok {
			if d, ok := Describe(site.Common()); ok {
				f(site, d)
			}
		}
	})
}

// Outermost returns the named function lexically enclosing fn.
func Outermost(fn *ssa.Function) *ssa.Function {
	for fn.Parent() != nil {
		fn = fn.Parent()
	}
	return fn
}

// MethodsOf returns the declared module methods of the named type.
func (p *Prog) MethodsOf(pkgSuffix, typeName string) []*ssa.Function {
	var out []*ssa.Function
	for _, fn := range p.AllFuncs {
		if fn.Parent() != nil || fn.Signature.Recv() == nil {
			continue
		}
		if TypeIs(fn.Signature.Recv().Type(), pkgSuffix, typeName) {
			out = append(out, fn)
		}
	}
	return out
}

// LookupType finds a named type in the loaded packages by package suffix and name.
func (p *Prog) LookupType(pkgSuffix, name string) *types.Named {
	for path, pk := range p.L.All {
		if pk.Types == nil {
			continue
		}
		if path == pkgSuffix || strings.HasSuffix(path, "/"+pkgSuffix) {
			if o, ok := pk.Types.Scope().Lookup(name).(*types.TypeName); ok {
				if n, ok := o.Type().(*types.Named); ok {
					return n
				}
			}
		}
	}
	return nil
}

// ImplementersOf lists the module methods named method on module types that
// implement the interface pkgSuffix.iface.
func (p *Prog) ImplementersOf(pkgSuffix, iface, method string) []*ssa.Function {
	n := p.LookupType(pkgSuffix, iface)
	if n == nil {
		return nil
	}
	it, _ := n.Underlying().(*types.Interface)
	if it == nil {
		return nil
	}
	var out []*ssa.Function
	seen := map[*ssa.Function]bool{}
	for _, pkg := range p.L.Roots {
		sc := pkg.Types.Scope()
		for _, nm := range sc.Names() {
			tn, ok := sc.Lookup(nm).(*types.TypeName)
			if !ok || tn.IsAlias() {
				continue
			}
			if _, isI := tn.Type().Underlying().(*types.Interface); isI {
				continue
			}
			for _, t := range []types.Type{tn.Type(), types.NewPointer(tn.Type())} {
				if !types.Implements(t, it) {
					continue
				}
				for i := 0; i < it.NumMethods(); i++ {
					m := it.Method(i)
					if m.Name() != method {
						continue
					}
					sel := p.L.Prog.MethodSets.MethodSet(t).Lookup(m.Pkg(), m.Name())
					if sel == nil {
						continue
					}
					if obj, ok := sel.Obj().(*types.Func); ok {
						if d := p.L.Prog.FuncValue(obj); d != nil && p.isMod[d] && !seen[d] {
							seen[d] = true
							out = append(out, d)
						}
					}
				}
			}
		}
	}
	sort.Slice(out, func(i, j int) bool { return out[i].Pos() < out[j].Pos() })
	return out
}

func (p *Prog) String() string {
	return fmt.Sprintf("prog{%d funcs}", len(p.Funcs))
}

// SSAInstr and SSAValue re-export the ssa interfaces for the driver.
type SSAInstr = ssa.Instruction
type SSAValue = ssa.Value

// ReachCS is Reach with one level of context for callbacks: a call through a
// function-typed parameter only follows the functions actually passed for
// that parameter on the current call chain (falling back to all bound
// functions when the chain does not determine them).
func (p *Prog) ReachCS(root *ssa.Function) map[*ssa.Function]bool {
	return p.ReachCSBound(root, nil)
}

// ReachCSBound is ReachCS with an initial binding of root's function-typed parameters.
func (p *Prog) ReachCSBound(root *ssa.Function, bind0 map[*ssa.Parameter][]*ssa.Function) map[*ssa.Function]bool {
	seen := map[*ssa.Function]bool{}
	type ctxKey struct {
		fn  *ssa.Function
		sig string
	}
	done := map[ctxKey]bool{}
	var walk func(f *ssa.Function, bind map[*ssa.Parameter][]*ssa.Function, depth int)
	walk = func(f *ssa.Function, bind map[*ssa.Parameter][]*ssa.Function, depth int) {
		if f == nil || depth > 40 {
			return
		}
		sig := ""
		for _, par := range f.Params {
			if fs, ok := bind[par]; ok {
				for _, x := range fs {
					sig += fmt.Sprintf("%p,", x)
				}
				sig += ";"
			}
		}
		k := ctxKey{f, sig}
		if done[k] {
			return
		}
		done[k] = true
		seen[f] = true
		for _, e := range p.Out[f] {
			if e.Kind == "param" {
				// which parameter is being called?
				fns, pars, _ := resolveFuncValue(e.Site.Common().Value, map[ssa.Value]bool{})
				_ = fns
				allowed := false
				known := false
				for _, par := range pars {
					if fs, ok := bind[par]; ok {
						known = true
						for _, x := range fs {
							if x == e.Callee {
								allowed = true
							}
						}
					}
				}
				if known && !allowed {
					continue
				}
			}
			// bindings for the callee's function-typed parameters at this site
			nb := map[*ssa.Parameter][]*ssa.Function{}
			args := siteArgsOf(e.Site.Common())
			for i, par := range e.Callee.Params {
				if _, ok := par.Type().Underlying().(*types.Signature); !ok || i >= len(args) {
					continue
				}
				fs, pars, _ := resolveFuncValue(args[i], map[ssa.Value]bool{})
				var bound []*ssa.Function
				bound = append(bound, fs...)
				for _, q := range pars {
					bound = append(bound, bind[q]...)
				}
				nb[par] = bound
			}
			// closures keep the bindings of their lexical parent
			if e.Callee.Parent() != nil {
				for k2, v2 := range bind {
					nb[k2] = v2
				}
			}
			walk(e.Callee, nb, depth+1)
		}
	}
	if bind0 == nil {
		bind0 = map[*ssa.Parameter][]*ssa.Function{}
	}
	walk(root, bind0, 0)
	return seen
}

// RecursiveCS reports whether f can reach itself through static calls and callbacks, with callbacks
// bound context-sensitively; interface-dispatched edges are ignored (their targets are a type-based
// over-approximation) unless withIface is set.
func (p *Prog) RecursiveCS(f *ssa.Function, withIface bool) (bool, []string) {
	type ctxKey struct {
		fn  *ssa.Function
		sig string
	}
	done := map[ctxKey]bool{}
	var path []string
	var walk func(g *ssa.Function, bind map[*ssa.Parameter][]*ssa.Function, depth int) bool
	walk = func(g *ssa.Function, bind map[*ssa.Parameter][]*ssa.Function, depth int) bool {
		if depth > 40 {
			return false
		}
		sig := ""
		for _, par := range g.Params {
			if fs, ok := bind[par]; ok {
				for _, x := range fs {
					sig += fmt.Sprintf("%p,", x)
				}
				sig += ";"
			}
		}
		k := ctxKey{g, sig}
		if done[k] {
			return false
		}
		done[k] = true
		for _, e := range p.Out[g] {
			if e.Kind == "iface" && !withIface {
				continue
			}
			if e.Kind == "param" {
				_, pars, _ := resolveFuncValue(e.Site.Common().Value, map[ssa.Value]bool{})
				allowed, known := false, false
				for _, par := range pars {
					if fs, ok := bind[par]; ok {
						known = true
						for _, x := range fs {
							if x == e.Callee {
								allowed = true
							}
						}
					}
				}
				if known && !allowed {
					continue
				}
			}
			if e.Callee == f {
				path = append(path, FuncName(g))
				return true
			}
			nb := map[*ssa.Parameter][]*ssa.Function{}
			args := siteArgsOf(e.Site.Common())
			for i, par := range e.Callee.Params {
				if _, ok := par.Type().Underlying().(*types.Signature); !ok || i >= len(args) {
					continue
				}
				fs, pars, _ := resolveFuncValue(args[i], map[ssa.Value]bool{})
				var bound []*ssa.Function
				bound = append(bound, fs...)
				for _, q := range pars {
					bound = append(bound, bind[q]...)
				}
				nb[par] = bound
			}
			if e.Callee.Parent() != nil {
				for k2, v2 := range bind {
					nb[k2] = v2
				}
			}
			if walk(e.Callee, nb, depth+1) {
				path = append(path, FuncName(g))
				return true
			}
		}
		return false
	}
	ok := walk(f, map[*ssa.Parameter][]*ssa.Function{}, 0)
	return ok, path
}
