package ana

import (
	"fmt"
	"go/constant"
	"go/token"
	"go/types"
	"sort"
	"strings"

	"golang.org/x/tools/go/ssa"
)

// ---------------------------------------------------------------------------
// key shapes (FX prefix recovery + KS component schema)

// Part is one component of a store key.
type Part struct {
	Kind  string    // const | chain | str | u64 | addr | fill32 | bytes | byte | param | unknown
	Const []byte    // Kind == const
	Param int       // Kind == param: parameter index in the summarised function
	Val   ssa.Value // the value the component was built from (before byte conversion)
	Env   *KeyEnv   // the inlining context Val lives in (nil: the function of the store op)
	Why   string    // for unknown parts
}

// KeyEnv is the chain of module calls through which a key was evaluated.
type KeyEnv struct {
	Fn     *ssa.Function
	Site   *ssa.Call
	Parent *KeyEnv
}

// Key is the abstract shape of a byte string used as store key or prefix.
type Key struct {
	Parts []Part
}

func (k *Key) String() string {
	if k == nil {
		return "<nil>"
	}
	var sb []string
	for _, p := range k.Parts {
		switch p.Kind {
		case "const":
			sb = append(sb, fmt.Sprintf("0x%x", p.Const))
		case "param":
			sb = append(sb, fmt.Sprintf("param#%d", p.Param))
		case "unknown":
			sb = append(sb, "?("+p.Why+")")
		default:
			sb = append(sb, p.Kind)
		}
	}
	return strings.Join(sb, "|")
}

// Kinds renders only the component kinds.
func (k *Key) Kinds() []string {
	var out []string
	for _, p := range k.Parts {
		if p.Kind == "const" {
			out = append(out, fmt.Sprintf("0x%x", p.Const))
		} else {
			out = append(out, p.Kind)
		}
	}
	return out
}

// First returns the first byte when it is a known constant.
func (k *Key) First() (byte, bool) {
	if k == nil || len(k.Parts) == 0 {
		return 0, false
	}
	p := k.Parts[0]
	if p.Kind == "const" && len(p.Const) > 0 {
		return p.Const[0], true
	}
	return 0, false
}

func unknownKey(why string) *Key { return &Key{Parts: []Part{{Kind: "unknown", Why: why}}} }

func concatKeys(ks ...*Key) *Key {
	out := &Key{}
	for _, k := range ks {
		if k == nil {
			continue
		}
		for _, p := range k.Parts {
			if p.Kind == "const" && len(out.Parts) > 0 && out.Parts[len(out.Parts)-1].Kind == "const" {
				last := &out.Parts[len(out.Parts)-1]
				last.Const = append(append([]byte{}, last.Const...), p.Const...)
				continue
			}
			if p.Kind == "const" && len(p.Const) == 0 {
				continue
			}
			out.Parts = append(out.Parts, p)
		}
	}
	return out
}

func constInt(v ssa.Value) (int64, bool) {
	c, ok := v.(*ssa.Const)
	if !ok || c.Value == nil {
		return 0, false
	}
	if c.Value.Kind() != constant.Int {
		return 0, false
	}
	i, ok := constant.Int64Val(c.Value)
	return i, ok
}

// arrayLitElems returns, for "new [N]T (slicelit)" style allocations, the
// values stored at constant indexes.
func arrayLitElems(a *ssa.Alloc) (map[int64]ssa.Value, bool) {
	elems := map[int64]ssa.Value{}
	for _, r := range *a.Referrers() {
		switch x := r.(type) {
		case *ssa.IndexAddr:
			idx, ok := constInt(x.Index)
			if !ok {
				return nil, false
			}
			for _, rr := range *x.Referrers() {
				if st, ok := rr.(*ssa.Store); ok && st.Addr == x {
					if _, dup := elems[idx]; dup {
						return nil, false
					}
					elems[idx] = st.Val
				}
			}
		case *ssa.Slice:
		case *ssa.DebugRef:
		default:
			_ = x
		}
	}
	return elems, true
}

func arrayLen(t types.Type) int64 {
	if p, ok := t.Underlying().(*types.Pointer); ok {
		if a, ok := p.Elem().Underlying().(*types.Array); ok {
			return a.Len()
		}
	}
	return -1
}

func isByteSlice(t types.Type) bool {
	s, ok := t.Underlying().(*types.Slice)
	if !ok {
		return false
	}
	b, ok := s.Elem().Underlying().(*types.Basic)
	return ok && (b.Kind() == types.Byte || b.Kind() == types.Uint8)
}

func addrLike(t types.Type) bool {
	n := NamedOf(t)
	if n == nil {
		return false
	}
	switch n.Obj().Name() {
	case "ValAddress", "AccAddress", "ConsAddress", "Address":
		return true
	}
	return false
}

// KeyOf evaluates the abstract shape of a []byte value.
func (p *Prog) KeyOf(v ssa.Value) *Key {
	return p.keyOf(v, nil, 0, map[ssa.Value]bool{})
}

func (p *Prog) keyOf(v ssa.Value, env *KeyEnv, depth int, busy map[ssa.Value]bool) *Key {
	k := p.keyOf1(v, env, depth, busy)
	for i := range k.Parts {
		if k.Parts[i].Val != nil && k.Parts[i].Env == nil && k.Parts[i].Val.Parent() != nil && env != nil && k.Parts[i].Val.Parent() == env.Fn {
			k.Parts[i].Env = env
		}
	}
	return k
}

func (p *Prog) keyOf1(v ssa.Value, env *KeyEnv, depth int, busy map[ssa.Value]bool) *Key {
	if v == nil {
		return &Key{}
	}
	if depth > 12 {
		return unknownKey("depth")
	}
	if busy[v] {
		return unknownKey("cycle")
	}
	busy[v] = true
	defer delete(busy, v)

	switch x := v.(type) {
	case *ssa.Const:
		if x.Value == nil {
			return &Key{} // nil slice
		}
		if x.Value.Kind() == constant.String {
			return &Key{Parts: []Part{{Kind: "const", Const: []byte(constant.StringVal(x.Value))}}}
		}
		return unknownKey("const " + x.String())
	case *ssa.Parameter:
		fn := x.Parent()
		idx := paramIndex(fn, x)
		if env != nil && env.Fn == fn && env.Site != nil && idx >= 0 && idx < len(env.Site.Call.Args) {
			return p.keyOf(env.Site.Call.Args[idx], env.Parent, depth+1, busy)
		}
		return &Key{Parts: []Part{{Kind: "param", Param: idx, Val: x}}}
	case *ssa.Slice:
		if a, ok := x.X.(*ssa.Alloc); ok && x.Low == nil && x.High == nil {
			n := arrayLen(a.Type())
			elems, ok := arrayLitElems(a)
			if !ok || n < 0 {
				return unknownKey("array literal")
			}
			if n == 0 {
				return &Key{}
			}
			buf := make([]byte, n)
			for i := int64(0); i < n; i++ {
				e, has := elems[i]
				if !has {
					continue
				}
				c, ok := constInt(e)
				if !ok {
					// a byte parameter of a key helper, bound to a constant at the call site
					if rv, renv := resolveParam(e, env); rv != e {
						_ = renv
						if c2, ok2 := constInt(rv); ok2 {
							buf[i] = byte(c2)
							continue
						}
					}
					if n == 1 {
						return &Key{Parts: []Part{{Kind: "byte", Val: e}}}
					}
					return unknownKey("non-constant byte in literal")
				}
				buf[i] = byte(c)
			}
			return &Key{Parts: []Part{{Kind: "const", Const: buf}}}
		}
		if x.Low == nil && x.High == nil {
			return p.keyOf(x.X, env, depth+1, busy)
		}
		if ms, ok := x.X.(*ssa.MakeSlice); ok && x.High == nil {
			_ = ms
		}
		return unknownKey("sub-slice")
	case *ssa.MakeSlice:
		// make([]byte, n) followed by copy(key[off:], part) calls
		type cp struct {
			pos token.Pos
			src ssa.Value
			b   ssa.Value // a single byte stored at a constant index
		}
		var cps []cp
		for _, r := range *x.Referrers() {
			sl, ok := r.(*ssa.Slice)
			if !ok {
				continue
			}
			for _, rr := range *sl.Referrers() {
				if c, ok := rr.(*ssa.Call); ok {
					if b, ok := c.Call.Value.(*ssa.Builtin); ok && b.Name() == "copy" && c.Call.Args[0] == sl {
						cps = append(cps, cp{c.Pos(), c.Call.Args[1], nil})
					}
				}
			}
		}
		// key[i] = b with constant i: one byte laid down at its place in the source order of the pieces
		for _, r := range *x.Referrers() {
			ia, ok := r.(*ssa.IndexAddr)
			if !ok {
				continue
			}
			if _, isConst := constInt(ia.Index); !isConst {
				continue
			}
			for _, rr := range *ia.Referrers() {
				if st, ok := rr.(*ssa.Store); ok && st.Addr == ssa.Value(ia) {
					cps = append(cps, cp{st.Pos(), nil, st.Val})
				}
			}
		}
		if len(cps) == 0 {
			if n, ok := constInt(x.Len); ok && n == 0 {
				// make([]byte, 0, n): the empty prefix of an append chain
				return &Key{}
			}
			return unknownKey("make without copy")
		}
		sort.Slice(cps, func(i, j int) bool { return cps[i].pos < cps[j].pos })
		var ks []*Key
		for _, c := range cps {
			if c.b != nil {
				rv, _ := resolveParam(c.b, env)
				if n, ok := constInt(rv); ok {
					ks = append(ks, &Key{Parts: []Part{{Kind: "const", Const: []byte{byte(n)}}}})
				} else {
					ks = append(ks, &Key{Parts: []Part{{Kind: "byte", Val: c.b}}})
				}
				continue
			}
			ks = append(ks, p.keyOf(c.src, env, depth+1, busy))
		}
		return concatKeys(ks...)
	case *ssa.Convert:
		from := x.X.Type()
		if b, ok := from.Underlying().(*types.Basic); ok && b.Info()&types.IsString != 0 {
			kind := "str"
			if n := NamedOf(from); n != nil && n.Obj().Name() == "ChainID" {
				kind = "chain"
			}
			if c, ok := x.X.(*ssa.Const); ok && c.Value != nil {
				return &Key{Parts: []Part{{Kind: "const", Const: []byte(constant.StringVal(c.Value))}}}
			}
			return &Key{Parts: []Part{{Kind: kind, Val: x.X}}}
		}
		return p.keyOf(x.X, env, depth+1, busy)
	case *ssa.ChangeType:
		if addrLike(x.X.Type()) {
			return &Key{Parts: []Part{{Kind: "addr", Val: x.X}}}
		}
		return p.keyOf(x.X, env, depth+1, busy)
	case *ssa.MakeInterface:
		return p.keyOf(x.X, env, depth+1, busy)
	case *ssa.Phi:
		// a loop-carried append chain over the elements of a list: key = init ++ every element of the list
		{
			var init []ssa.Value
			var loopOps []ssa.Value
			for _, e := range x.Edges {
				if ops, ok := appendChainTo(e, x); ok {
					loopOps = append(loopOps, ops...)
				} else {
					init = append(init, e)
				}
			}
			if len(loopOps) == 1 && len(init) == 1 {
				if list, ok := rangeElement(loopOps[0]); ok {
					if ks, ok := p.segList(list, env, depth+1, busy); ok {
						return concatKeys(append([]*Key{p.keyOf(init[0], env, depth+1, busy)}, ks...)...)
					}
				}
			}
		}
		var first *Key
		for _, e := range x.Edges {
			k := p.keyOf(e, env, depth+1, busy)
			if first == nil {
				first = k
			} else if strings.Join(first.Kinds(), "|") != strings.Join(k.Kinds(), "|") {
				return unknownKey("phi of different shapes")
			}
		}
		if first == nil {
			return unknownKey("empty phi")
		}
		return first
	case *ssa.UnOp:
		if x.Op == token.MUL {
			if g, ok := x.X.(*ssa.Global); ok {
				return p.globalKey(g, depth, busy)
			}
			if a, ok := x.X.(*ssa.Alloc); ok {
				// single-assignment local
				var st *ssa.Store
				n := 0
				for _, r := range *a.Referrers() {
					if s, ok := r.(*ssa.Store); ok && s.Addr == a {
						st = s
						n++
					}
				}
				if n == 1 {
					return p.keyOf(st.Val, env, depth+1, busy)
				}
			}
			if fa, ok := x.X.(*ssa.FieldAddr); ok {
				return &Key{Parts: []Part{{Kind: fieldKind(x.Type()), Val: x, Why: "field " + fa.String()}}}
			}
		}
		return unknownKey("unop " + x.String())
	case *ssa.Extract:
		if c, ok := x.Tuple.(*ssa.Call); ok {
			return p.callKey(c, x.Index, env, depth, busy)
		}
		return unknownKey("extract")
	case *ssa.Call:
		return p.callKey(x, 0, env, depth, busy)
	case *ssa.FreeVar, *ssa.Field, *ssa.Lookup, *ssa.Index:
		return &Key{Parts: []Part{{Kind: fieldKind(v.Type()), Val: v}}}
	}
	return unknownKey(fmt.Sprintf("%T", v))
}

func fieldKind(t types.Type) string {
	if addrLike(t) {
		return "addr"
	}
	if isByteSlice(t) {
		return "bytes"
	}
	return "unknown"
}

// globalKey resolves a package-level []byte variable from its initialiser and
// requires that nothing outside the package initialiser assigns it.
func (p *Prog) globalKey(g *ssa.Global, depth int, busy map[ssa.Value]bool) *Key {
	if g.Pkg == nil {
		return unknownKey("global without package")
	}
	var initVal ssa.Value
	writes := 0
	for _, mem := range g.Pkg.Members {
		fn, ok := mem.(*ssa.Function)
		if !ok {
			continue
		}
		var visit func(f *ssa.Function)
		visit = func(f *ssa.Function) {
			Instrs(f, func(in ssa.Instruction) {
				if st, ok := in.(*ssa.Store); ok && st.Addr == g {
					writes++
					if f.Name() == "init" && f.Synthetic != "" {
						initVal = st.Val
					} else {
						initVal = nil
						writes += 100
					}
				}
			})
			for _, an := range f.AnonFuncs {
				visit(an)
			}
		}
		visit(fn)
	}
	// methods are not package members: scan them too
	for _, fn := range p.AllFuncs {
		if fn.Package() != g.Pkg || fn.Signature.Recv() == nil {
			continue
		}
		Instrs(fn, func(in ssa.Instruction) {
			if st, ok := in.(*ssa.Store); ok && st.Addr == g {
				writes += 100
			}
		})
	}
	if writes != 1 || initVal == nil {
		return unknownKey(fmt.Sprintf("global %s assigned %d times", g.Name(), writes))
	}
	return p.keyOf(initVal, nil, depth+1, busy)
}

func (p *Prog) callKey(c *ssa.Call, result int, env *KeyEnv, depth int, busy map[ssa.Value]bool) *Key {
	cc := &c.Call
	d, ok := Describe(cc)
	if !ok {
		return unknownKey("dynamic call")
	}
	args := cc.Args
	switch {
	case d.Pkg == "builtin" && d.Name == "append":
		if b, ok := args[1].Type().Underlying().(*types.Basic); ok && b.Info()&types.IsString != 0 {
			// append(bz, s...): the bytes of a string
			rv, renv := resolveParam(args[1], env)
			if cst, ok := rv.(*ssa.Const); ok && cst.Value != nil && cst.Value.Kind() == constant.String {
				return concatKeys(p.keyOf(args[0], env, depth+1, busy), &Key{Parts: []Part{{Kind: "const", Const: []byte(constant.StringVal(cst.Value))}}})
			}
			kind := "str"
			if n := NamedOf(rv.Type()); n != nil && n.Obj().Name() == "ChainID" {
				kind = "chain"
			}
			return concatKeys(p.keyOf(args[0], env, depth+1, busy), &Key{Parts: []Part{{Kind: kind, Val: rv, Env: renv}}})
		}
		return concatKeys(p.keyOf(args[0], env, depth+1, busy), p.keyOf(args[1], env, depth+1, busy))
	case d.Is("bytes", "", "Join"):
		sep := p.keyOf(args[1], env, depth+1, busy)
		if len(sep.Parts) != 0 {
			return unknownKey("bytes.Join with separator")
		}
		ks, ok := p.segList(args[0], env, depth+1, busy)
		if !ok {
			return unknownKey("bytes.Join of a list that is not built from literals and appends")
		}
		return concatKeys(ks...)
	case d.Name == "Bytes" && d.Recv == "ChainID":
		return &Key{Parts: []Part{{Kind: "chain", Val: args[0]}}}
	case d.Name == "Bytes" && (d.Recv == "ValAddress" || d.Recv == "AccAddress" || d.Recv == "Address" || d.Recv == "ConsAddress"):
		var recv ssa.Value
		if len(args) > 0 {
			recv = args[0]
		}
		return &Key{Parts: []Part{{Kind: "addr", Val: recv}}}
	case d.Name == "Bytes" && d.Recv == "HexBytes":
		return &Key{Parts: []Part{{Kind: "bytes", Val: args[0]}}}
	case d.Name == "Uint64ToBigEndian" || d.Name == "UInt64Bytes":
		return &Key{Parts: []Part{{Kind: "u64", Val: args[0]}}}
	case d.Name == "FillBytes" && d.Recv == "Int":
		return &Key{Parts: []Part{{Kind: "fill32", Val: args[0]}}}
	}
	if fn := cc.StaticCallee(); fn != nil && p.isMod[fn] && fn.Blocks != nil {
		for e := env; e != nil; e = e.Parent {
			if e.Fn == fn {
				return unknownKey("recursive key constructor")
			}
		}
		nenv := &KeyEnv{Fn: fn, Site: c, Parent: env}
		var k *Key
		Instrs(fn, func(in ssa.Instruction) {
			r, ok := in.(*ssa.Return)
			if !ok || len(r.Results) <= result {
				return
			}
			rk := p.keyOf(r.Results[result], nenv, depth+1, busy)
			switch {
			case k == nil:
				k = rk
			case k.String() == rk.String():
			case len(rk.Parts) == 0:
			case len(k.Parts) == 0:
				k = rk
			default:
				k = commonPrefix(k, rk)
			}
		})
		if k == nil {
			return unknownKey("no return in " + FuncName(fn))
		}
		return k
	}
	if isByteSlice(c.Type()) || result > 0 {
		return &Key{Parts: []Part{{Kind: "bytes", Val: c, Why: d.String()}}}
	}
	return unknownKey("call " + d.String())
}

// ResolvePart returns the value of the function containing the store operation that a key part was built from
// (parameters of key constructors are followed to the actuals of the calls the key was evaluated through).
func ResolvePart(pt Part) ssa.Value {
	v, _ := resolveParam(pt.Val, pt.Env)
	return v
}

// resolveParam follows a parameter (through conversions) to the actual bound in the key environment.
func resolveParam(v ssa.Value, env *KeyEnv) (ssa.Value, *KeyEnv) {
	for i := 0; i < 8; i++ {
		switch x := v.(type) {
		case *ssa.Convert:
			v = x.X
			continue
		case *ssa.ChangeType:
			v = x.X
			continue
		case *ssa.Parameter:
			fn := x.Parent()
			idx := paramIndex(fn, x)
			if env != nil && env.Fn == fn && env.Site != nil && idx >= 0 && idx < len(env.Site.Call.Args) {
				v = env.Site.Call.Args[idx]
				env = env.Parent
				continue
			}
		}
		break
	}
	return v, env
}

// segList evaluates a [][]byte value that is built from literals, make([][]byte, 0, n), appends and
// (variadic) parameters to the sequence of its elements' key shapes.
func (p *Prog) segList(v ssa.Value, env *KeyEnv, depth int, busy map[ssa.Value]bool) ([]*Key, bool) {
	if depth > 14 || v == nil {
		return nil, false
	}
	switch x := v.(type) {
	case *ssa.Const:
		return nil, x.Value == nil
	case *ssa.MakeSlice:
		if c, ok := constInt(x.Len); ok && c == 0 {
			return nil, true
		}
		return nil, false
	case *ssa.Slice:
		if x.Low != nil || x.High != nil {
			return nil, false
		}
		a, ok := x.X.(*ssa.Alloc)
		if !ok {
			return p.segList(x.X, env, depth+1, busy)
		}
		n := arrayLen(a.Type())
		elems, ok := arrayLitElems(a)
		if !ok || n < 0 {
			return nil, false
		}
		var ks []*Key
		for i := int64(0); i < n; i++ {
			e, has := elems[i]
			if !has {
				continue
			}
			ks = append(ks, p.keyOf(e, env, depth+1, busy))
		}
		return ks, true
	case *ssa.Parameter:
		fn := x.Parent()
		idx := paramIndex(fn, x)
		if env != nil && env.Fn == fn && env.Site != nil && idx >= 0 && idx < len(env.Site.Call.Args) {
			return p.segList(env.Site.Call.Args[idx], env.Parent, depth+1, busy)
		}
		return nil, false
	case *ssa.UnOp:
		if x.Op == token.MUL {
			if a, ok := x.X.(*ssa.Alloc); ok {
				var st *ssa.Store
				n := 0
				for _, r := range *a.Referrers() {
					if s, ok := r.(*ssa.Store); ok && s.Addr == a {
						st = s
						n++
					}
				}
				if n == 1 {
					return p.segList(st.Val, env, depth+1, busy)
				}
			}
		}
		return nil, false
	case *ssa.Call:
		if b, ok := x.Call.Value.(*ssa.Builtin); ok && b.Name() == "append" && len(x.Call.Args) == 2 {
			a, ok1 := p.segList(x.Call.Args[0], env, depth+1, busy)
			b2, ok2 := p.segList(x.Call.Args[1], env, depth+1, busy)
			if ok1 && ok2 {
				return append(append([]*Key{}, a...), b2...), true
			}
		}
		return nil, false
	}
	return nil, false
}

func commonPrefix(a, b *Key) *Key {
	out := &Key{}
	for i := 0; i < len(a.Parts) && i < len(b.Parts); i++ {
		pa, pb := a.Parts[i], b.Parts[i]
		if pa.Kind != pb.Kind || (pa.Kind == "const" && string(pa.Const) != string(pb.Const)) || (pa.Kind == "param" && pa.Param != pb.Param) {
			break
		}
		out.Parts = append(out.Parts, pa)
	}
	out.Parts = append(out.Parts, Part{Kind: "unknown", Why: "returns differ"})
	return out
}

// ---------------------------------------------------------------------------
// store operations

// StoreOp is one primitive KV-store effect.
type StoreOp struct {
	Fn    *ssa.Function
	Site  ssa.CallInstruction
	Op    string // Get | Has | Set | Delete | Iterator | ReverseIterator
	Key   *Key   // full key (Get/Has/Set/Delete) or iteration prefix
	Store string // identity of the store: name of the keeper type whose storeKey opens it ("?" if unknown)
	Value ssa.Value
	// iterators with an explicit end bound: the key the end is the PrefixEndBytes of (EndOpen: the end is
	// some other expression), nil when the end argument is nil
	End     *Key
	EndOpen bool
}

// IsWrite reports Set/Delete.
func (s StoreOp) IsWrite() bool { return s.Op == "Set" || s.Op == "Delete" }

// IsIter reports iterator creation.
func (s StoreOp) IsIter() bool { return s.Op == "Iterator" || s.Op == "ReverseIterator" }

var storeMethods = map[string]bool{"Get": true, "Has": true, "Set": true, "Delete": true, "Iterator": true, "ReverseIterator": true}

func isKVStoreType(t types.Type) (iface bool, prefixStore bool) {
	n := NamedOf(t)
	if n == nil || n.Obj().Pkg() == nil {
		return false, false
	}
	path := n.Obj().Pkg().Path()
	if n.Obj().Name() == "KVStore" && (strings.HasSuffix(path, "cosmos-sdk/types") || strings.HasSuffix(path, "cosmos-sdk/store/types")) {
		return true, false
	}
	if n.Obj().Name() == "Store" && strings.HasSuffix(path, "cosmos-sdk/store/prefix") {
		return false, true
	}
	return false, false
}

// storeBase walks a store value back to ctx.KVStore(key) collecting prefixes.
func (p *Prog) storeBase(v ssa.Value, depth int) (store string, prefix *Key) {
	return p.storeBaseEnv(v, nil, depth)
}

// storeBaseEnv is storeBase inside a module helper that returns a store (env binds its parameters).
func (p *Prog) storeBaseEnv(v ssa.Value, env *KeyEnv, depth int) (store string, prefix *Key) {
	prefix = &Key{}
	if depth > 8 {
		return "?", unknownKey("store depth")
	}
	switch x := v.(type) {
	case *ssa.Call:
		d, ok := Describe(&x.Call)
		if !ok {
			return "?", unknownKey("dynamic store")
		}
		if d.Name == "KVStore" && d.Recv == "Context" {
			return storeKeyOwner(x.Call.Args[len(x.Call.Args)-1]), prefix
		}
		if d.Name == "NewStore" && strings.HasSuffix(d.Pkg, "store/prefix") {
			st, pre := p.storeBaseEnv(x.Call.Args[0], env, depth+1)
			return st, concatKeys(pre, p.keyOf(x.Call.Args[1], env, 0, map[ssa.Value]bool{}))
		}
		// a module helper that opens the (prefix) store for its callers
		if fn := x.Call.StaticCallee(); fn != nil && p.isMod[fn] && fn.Blocks != nil {
			for e := env; e != nil; e = e.Parent {
				if e.Fn == fn {
					return "?", unknownKey("recursive store helper")
				}
			}
			var rets []*ssa.Return
			Instrs(fn, func(in ssa.Instruction) {
				if r, ok := in.(*ssa.Return); ok {
					rets = append(rets, r)
				}
			})
			if len(rets) == 1 && len(rets[0].Results) == 1 {
				return p.storeBaseEnv(rets[0].Results[0], &KeyEnv{Fn: fn, Site: x, Parent: env}, depth+1)
			}
		}
		return "?", unknownKey("store from " + d.String())
	case *ssa.MakeInterface:
		return p.storeBaseEnv(x.X, env, depth+1)
	case *ssa.ChangeInterface:
		return p.storeBaseEnv(x.X, env, depth+1)
	case *ssa.Phi:
		var st string
		var k *Key
		for _, e := range x.Edges {
			s2, k2 := p.storeBaseEnv(e, env, depth+1)
			if k == nil {
				st, k = s2, k2
			} else if s2 != st || k.String() != k2.String() {
				return "?", unknownKey("phi of stores")
			}
		}
		if k != nil {
			return st, k
		}
	case *ssa.UnOp:
		if a, ok := x.X.(*ssa.Alloc); ok && x.Op == token.MUL {
			var st *ssa.Store
			n := 0
			for _, r := range *a.Referrers() {
				if s, ok := r.(*ssa.Store); ok && s.Addr == a {
					st = s
					n++
				}
			}
			if n == 1 {
				return p.storeBaseEnv(st.Val, env, depth+1)
			}
		}
	}
	return "?", unknownKey(fmt.Sprintf("store value %T", v))
}

// storeKeyOwner names the struct type whose field feeds ctx.KVStore.
func storeKeyOwner(v ssa.Value) string {
	for i := 0; i < 6; i++ {
		switch x := v.(type) {
		case *ssa.UnOp:
			v = x.X
			continue
		case *ssa.FieldAddr:
			if n := NamedOf(x.X.Type()); n != nil {
				pk := ""
				if n.Obj().Pkg() != nil {
					pk = shortPkg(n.Obj().Pkg().Path())
				}
				return pk + "." + n.Obj().Name()
			}
		case *ssa.Field:
			if n := NamedOf(x.X.Type()); n != nil {
				pk := ""
				if n.Obj().Pkg() != nil {
					pk = shortPkg(n.Obj().Pkg().Path())
				}
				return pk + "." + n.Obj().Name()
			}
		case *ssa.MakeInterface:
			v = x.X
			continue
		case *ssa.Call:
			// app.GetKey("mhub2") style
			if len(x.Call.Args) > 0 {
				if c, ok := x.Call.Args[len(x.Call.Args)-1].(*ssa.Const); ok && c.Value != nil && c.Value.Kind() == constant.String {
					return "key:" + constant.StringVal(c.Value)
				}
			}
		case *ssa.Parameter:
			return "param:" + x.Name()
		}
		break
	}
	return "?"
}

// StoreOps lists the primitive store effects of one function body.
func (p *Prog) StoreOps(fn *ssa.Function) []StoreOp {
	if p.storeOps == nil {
		p.storeOps = map[*ssa.Function][]StoreOp{}
	}
	if r, ok := p.storeOps[fn]; ok {
		return r
	}
	var out []StoreOp
	Instrs(fn, func(in ssa.Instruction) {
		site, ok := in.(ssa.CallInstruction)
		if !ok {
			return
		}
		cc := site.Common()
		var recv ssa.Value
		var args []ssa.Value
		var name string
		if cc.IsInvoke() {
			if isI, _ := isKVStoreType(cc.Value.Type()); !isI {
				return
			}
			name, recv, args = cc.Method.Name(), cc.Value, cc.Args
		} else if sc := cc.StaticCallee(); sc != nil && sc.Signature.Recv() != nil {
			if _, isP := isKVStoreType(sc.Signature.Recv().Type()); !isP {
				return
			}
			name, recv, args = sc.Name(), cc.Args[0], cc.Args[1:]
		} else {
			return
		}
		if !storeMethods[name] {
			return
		}
		store, pre := p.storeBase(recv, 0)
		op := StoreOp{Fn: fn, Site: site, Op: name, Store: store}
		switch name {
		case "Iterator", "ReverseIterator":
			// start bound gives the prefix when not nil
			start := p.KeyOf(args[0])
			op.Key = concatKeys(pre, start)
			if len(args) > 1 {
				if k, isC := args[1].(*ssa.Const); !isC || k.Value != nil {
					end := args[1]
					if call, ok := end.(*ssa.Call); ok {
						if d, okd := Describe(&call.Call); okd && d.Name == "PrefixEndBytes" && len(call.Call.Args) == 1 {
							op.End = concatKeys(pre, p.KeyOf(call.Call.Args[0]))
						}
					}
					if op.End == nil {
						op.EndOpen = true
					}
				}
			}
		default:
			op.Key = concatKeys(pre, p.KeyOf(args[0]))
			if name == "Set" && len(args) > 1 {
				op.Value = args[1]
			}
		}
		out = append(out, op)
	})
	p.storeOps[fn] = out
	return out
}

// ---------------------------------------------------------------------------
// bank operations

// BankOp is one call through a BankKeeper interface.
type BankOp struct {
	Fn    *ssa.Function
	Site  ssa.CallInstruction
	Op    string // MintCoins | BurnCoins | SendCoinsFromModuleToAccount | ...
	Coins ssa.Value
	Args  []ssa.Value
}

var bankMutators = map[string]bool{
	"MintCoins": true, "BurnCoins": true, "SendCoinsFromModuleToAccount": true,
	"SendCoinsFromAccountToModule": true, "SendCoinsFromModuleToModule": true, "SendCoins": true,
	"DelegateCoinsFromAccountToModule": true, "UndelegateCoinsFromModuleToAccount": true, "SetDenomMetaData": true,
}

// IsBankKeeper reports whether t is a BankKeeper-like interface or keeper.
func IsBankKeeper(t types.Type) bool {
	n := NamedOf(t)
	if n == nil {
		return false
	}
	nm := n.Obj().Name()
	return nm == "BankKeeper" || (n.Obj().Pkg() != nil && strings.HasSuffix(n.Obj().Pkg().Path(), "x/bank/keeper") && strings.Contains(nm, "Keeper"))
}

// BankOps lists the bank effects of one function body.
func (p *Prog) BankOps(fn *ssa.Function) []BankOp {
	if p.bankOps == nil {
		p.bankOps = map[*ssa.Function][]BankOp{}
	}
	if r, ok := p.bankOps[fn]; ok {
		return r
	}
	var out []BankOp
	Instrs(fn, func(in ssa.Instruction) {
		site, ok := in.(ssa.CallInstruction)
		if !ok {
			return
		}
		cc := site.Common()
		var name string
		var args []ssa.Value
		if cc.IsInvoke() {
			if !IsBankKeeper(cc.Value.Type()) {
				return
			}
			name, args = cc.Method.Name(), cc.Args
		} else if sc := cc.StaticCallee(); sc != nil && sc.Signature.Recv() != nil && IsBankKeeper(sc.Signature.Recv().Type()) {
			name, args = sc.Name(), cc.Args[1:]
		} else {
			return
		}
		if !bankMutators[name] {
			return
		}
		op := BankOp{Fn: fn, Site: site, Op: name, Args: args}
		if len(args) > 0 {
			op.Coins = args[len(args)-1]
		}
		out = append(out, op)
	})
	p.bankOps[fn] = out
	return out
}

// PrefixTable maps the first byte of a key to the name of the constant in the
// module's key.go, recovered from the type-checked constants.
type PrefixTable struct {
	ByByte map[byte]string
	ByName map[string]byte
}

// PrefixConstants collects byte-typed constants (mhub2) or []byte{C} package
// variables (oracle) declared in the file named key.go of the package.
func (p *Prog) PrefixConstants(pkgSuffix string) *PrefixTable {
	t := &PrefixTable{ByByte: map[byte]string{}, ByName: map[string]byte{}}
	pkg := p.L.Pkg(pkgSuffix)
	if pkg == nil {
		return t
	}
	sc := pkg.Types.Scope()
	for _, nm := range sc.Names() {
		obj := sc.Lookup(nm)
		file := p.L.Fset.Position(obj.Pos()).Filename
		if !strings.HasSuffix(file, "/key.go") {
			continue
		}
		switch o := obj.(type) {
		case *types.Const:
			b, ok := o.Type().Underlying().(*types.Basic)
			if !ok || (b.Kind() != types.Byte && b.Kind() != types.Uint8) {
				continue
			}
			if v, ok := constant.Int64Val(o.Val()); ok {
				t.ByByte[byte(v)] = nm
				t.ByName[nm] = byte(v)
			}
		case *types.Var:
			if !isByteSlice(o.Type()) {
				continue
			}
			if sp := p.L.Prog.Package(pkg.Types); sp != nil {
				if g, ok := sp.Members[nm].(*ssa.Global); ok {
					k := p.globalKey(g, 0, map[ssa.Value]bool{})
					if b, ok := k.First(); ok && len(k.Parts) == 1 && len(k.Parts[0].Const) == 1 {
						t.ByByte[b] = nm
						t.ByName[nm] = b
					}
				}
			}
		}
	}
	return t
}

// GlobalInit returns the value a package-level variable is initialised with when the package
// initialiser is its only writer (nil otherwise).
func (p *Prog) GlobalInit(g *ssa.Global) ssa.Value {
	if g.Pkg == nil {
		return nil
	}
	var initVal ssa.Value
	writes := 0
	var visit func(f *ssa.Function)
	visit = func(f *ssa.Function) {
		Instrs(f, func(in ssa.Instruction) {
			if st, ok := in.(*ssa.Store); ok && st.Addr == g {
				writes++
				if f.Name() == "init" && f.Synthetic != "" {
					initVal = st.Val
				} else {
					writes += 100
				}
			}
		})
		for _, an := range f.AnonFuncs {
			visit(an)
		}
	}
	for _, mem := range g.Pkg.Members {
		if fn, ok := mem.(*ssa.Function); ok {
			visit(fn)
		}
	}
	for _, fn := range p.AllFuncs {
		if fn.Package() == g.Pkg && fn.Signature.Recv() != nil {
			visit(fn)
		}
	}
	if writes != 1 {
		return nil
	}
	return initVal
}
