package ana

import (
	"go/token"
	"go/types"
	"sort"

	"golang.org/x/tools/go/ssa"
)

// Piece is one operand of a byte-string concatenation, as written in the source: an element of a
// bytes.Join list, an operand of append, a value written to a bytes.Buffer, the source of a copy into a
// pre-sized slice.
type Piece struct {
	Val      ssa.Value
	Env      *KeyEnv // the call chain through which Val's function was entered (nil: analysed on its own)
	Repeated bool    // added once per iteration of a loop
}

// Pieces decomposes a []byte / string value into the ordered operands it is concatenated from.  The
// plumbing it sees through: conversions, single-assignment locals, bytes.Join with an empty separator over a
// list built from literals / appends / (variadic) parameters, append chains (also loop-carried ones),
// bytes.Buffer writes read back with Bytes()/String(), make followed by copies, and module helpers that
// return such a value (their parameters bound to the actuals of the call).  A value it cannot decompose is
// one piece.
func (p *Prog) Pieces(v ssa.Value, env *KeyEnv) []Piece {
	return p.pieces(v, env, 0, map[ssa.Value]bool{})
}

// PiecesOfList decomposes a [][]byte list (e.g. the variadic argument of a hash function) into the pieces of
// its elements, in order.
func (p *Prog) PiecesOfList(v ssa.Value, env *KeyEnv) ([]Piece, bool) {
	return p.pieceList(v, env, 0, map[ssa.Value]bool{})
}

// PiecesAt is Pieces for a value of the callee of site, with the callee's parameters bound to site's actuals.
func (p *Prog) PiecesAt(v ssa.Value, site *ssa.Call) []Piece {
	if site == nil || v == nil || v.Parent() == nil {
		return p.Pieces(v, nil)
	}
	return p.Pieces(v, &KeyEnv{Fn: v.Parent(), Site: site})
}

func isBytesOrString(t types.Type) bool {
	if isByteSlice(t) {
		return true
	}
	b, ok := t.Underlying().(*types.Basic)
	return ok && b.Info()&types.IsString != 0
}

func (p *Prog) pieces(v ssa.Value, env *KeyEnv, depth int, busy map[ssa.Value]bool) []Piece {
	single := []Piece{{Val: v, Env: env}}
	if v == nil {
		return nil
	}
	if depth > 14 || busy[v] {
		return single
	}
	busy[v] = true
	defer delete(busy, v)
	switch x := v.(type) {
	case *ssa.Convert:
		if isBytesOrString(x.Type()) && isBytesOrString(x.X.Type()) {
			if sub := p.pieces(x.X, env, depth+1, busy); len(sub) > 1 {
				return sub
			}
		}
		return single
	case *ssa.ChangeType:
		if sub := p.pieces(x.X, env, depth+1, busy); len(sub) > 1 {
			return sub
		}
		return single
	case *ssa.Slice:
		if x.Low != nil || x.High != nil {
			return single
		}
		if _, isArr := x.X.(*ssa.Alloc); isArr {
			return single
		}
		if sub := p.pieces(x.X, env, depth+1, busy); len(sub) > 1 {
			return sub
		}
		return single
	case *ssa.Parameter:
		fn := x.Parent()
		idx := paramIndex(fn, x)
		if env != nil && env.Fn == fn && env.Site != nil && idx >= 0 && idx < len(env.Site.Call.Args) {
			return p.pieces(env.Site.Call.Args[idx], env.Parent, depth+1, busy)
		}
		return single
	case *ssa.UnOp:
		if x.Op == token.MUL {
			if a, ok := x.X.(*ssa.Alloc); ok {
				var st *ssa.Store
				n := 0
				for _, r := range *a.Referrers() {
					if s, ok := r.(*ssa.Store); ok && s.Addr == ssa.Value(a) {
						st = s
						n++
					}
				}
				if n == 1 {
					if sub := p.pieces(st.Val, env, depth+1, busy); len(sub) > 1 {
						return sub
					}
				}
			}
		}
		return single
	case *ssa.MakeSlice:
		// make([]byte, n) followed by copy(buf[off:], part) in source order; make([]byte, 0, n) is empty
		type cp struct {
			pos token.Pos
			src ssa.Value
		}
		var cps []cp
		for _, r := range *x.Referrers() {
			switch y := r.(type) {
			case *ssa.Slice:
				for _, rr := range *y.Referrers() {
					if c, ok := rr.(*ssa.Call); ok {
						if b, ok := c.Call.Value.(*ssa.Builtin); ok && b.Name() == "copy" && c.Call.Args[0] == ssa.Value(y) {
							cps = append(cps, cp{c.Pos(), c.Call.Args[1]})
						}
					}
				}
			case *ssa.IndexAddr:
				for _, rr := range *y.Referrers() {
					if st, ok := rr.(*ssa.Store); ok && st.Addr == ssa.Value(y) {
						cps = append(cps, cp{st.Pos(), st.Val})
					}
				}
			}
		}
		if len(cps) == 0 {
			if n, ok := constInt(x.Len); ok && n == 0 {
				return nil
			}
			return single
		}
		sort.Slice(cps, func(i, j int) bool { return cps[i].pos < cps[j].pos })
		var out []Piece
		for _, c := range cps {
			out = append(out, p.pieces(c.src, env, depth+1, busy)...)
		}
		return out
	case *ssa.Phi:
		// a loop-carried append chain: acc = phi [init, append(append(acc, a...), b...)]
		var init []ssa.Value
		var rep []Piece
		for _, e := range x.Edges {
			ops, ok := appendChainTo(e, x)
			if !ok {
				init = append(init, e)
				continue
			}
			for _, o := range ops {
				for _, pc := range p.pieces(o, env, depth+1, busy) {
					pc.Repeated = true
					rep = append(rep, pc)
				}
			}
		}
		if len(rep) == 0 || len(init) != 1 {
			return single
		}
		return append(p.pieces(init[0], env, depth+1, busy), rep...)
	case *ssa.Call:
		cc := &x.Call
		d, ok := Describe(cc)
		if !ok {
			return single
		}
		args := cc.Args
		switch {
		case d.Pkg == "builtin" && d.Name == "append" && len(args) == 2:
			a := p.pieces(args[0], env, depth+1, busy)
			b := p.pieces(args[1], env, depth+1, busy)
			return append(append([]Piece{}, a...), b...)
		case d.Is("bytes", "", "Join") && len(args) == 2:
			if sep := p.keyOf(args[1], env, depth+1, map[ssa.Value]bool{}); len(sep.Parts) != 0 {
				return single
			}
			if ps, ok := p.pieceList(args[0], env, depth+1, busy); ok {
				return ps
			}
			return single
		case d.Recv == "Buffer" && (d.Name == "Bytes" || d.Name == "String") && len(args) == 1:
			if ps, ok := p.bufferPieces(args[0], env, depth+1, busy); ok {
				return ps
			}
			return single
		}
		if fn := cc.StaticCallee(); fn != nil && p.isMod[fn] && fn.Blocks != nil && isBytesOrString(x.Type()) {
			for e := env; e != nil; e = e.Parent {
				if e.Fn == fn {
					return single
				}
			}
			var rets []*ssa.Return
			Instrs(fn, func(in ssa.Instruction) {
				if r, ok := in.(*ssa.Return); ok {
					rets = append(rets, r)
				}
			})
			if len(rets) == 1 && len(rets[0].Results) == 1 {
				nenv := &KeyEnv{Fn: fn, Site: x, Parent: env}
				if sub := p.pieces(rets[0].Results[0], nenv, depth+1, busy); len(sub) > 1 {
					return sub
				}
			}
		}
		return single
	}
	return single
}

// appendChainTo: v is append(append(phi, a...), b...) for the given phi; returns a, b in order.
func appendChainTo(v ssa.Value, phi *ssa.Phi) ([]ssa.Value, bool) {
	var ops []ssa.Value
	for i := 0; i < 16; i++ {
		if v == ssa.Value(phi) {
			// reverse
			for l, r := 0, len(ops)-1; l < r; l, r = l+1, r-1 {
				ops[l], ops[r] = ops[r], ops[l]
			}
			return ops, len(ops) > 0
		}
		c, ok := v.(*ssa.Call)
		if !ok {
			return nil, false
		}
		b, ok := c.Call.Value.(*ssa.Builtin)
		if !ok || b.Name() != "append" || len(c.Call.Args) != 2 {
			return nil, false
		}
		ops = append(ops, c.Call.Args[1])
		v = c.Call.Args[0]
	}
	return nil, false
}

// pieceList evaluates a [][]byte value built from literals, make([][]byte, 0, n), appends and (variadic)
// parameters to the pieces of its elements in order.
func (p *Prog) pieceList(v ssa.Value, env *KeyEnv, depth int, busy map[ssa.Value]bool) ([]Piece, bool) {
	if depth > 16 || v == nil {
		return nil, false
	}
	switch x := v.(type) {
	case *ssa.Const:
		return nil, x.Value == nil
	case *ssa.MakeSlice:
		if c, ok := constInt(x.Len); ok && c == 0 {
			return nil, true
		}
		return nil, false
	case *ssa.Slice:
		if x.Low != nil || x.High != nil {
			return nil, false
		}
		a, ok := x.X.(*ssa.Alloc)
		if !ok {
			return p.pieceList(x.X, env, depth+1, busy)
		}
		n := arrayLen(a.Type())
		elems, ok := arrayLitElems(a)
		if !ok || n < 0 {
			return nil, false
		}
		var out []Piece
		for i := int64(0); i < n; i++ {
			e, has := elems[i]
			if !has {
				continue
			}
			out = append(out, p.pieces(e, env, depth+1, busy)...)
		}
		return out, true
	case *ssa.Parameter:
		fn := x.Parent()
		idx := paramIndex(fn, x)
		if env != nil && env.Fn == fn && env.Site != nil && idx >= 0 && idx < len(env.Site.Call.Args) {
			return p.pieceList(env.Site.Call.Args[idx], env.Parent, depth+1, busy)
		}
		return nil, false
	case *ssa.UnOp:
		if x.Op == token.MUL {
			if a, ok := x.X.(*ssa.Alloc); ok {
				var st *ssa.Store
				n := 0
				for _, r := range *a.Referrers() {
					if s, ok := r.(*ssa.Store); ok && s.Addr == ssa.Value(a) {
						st = s
						n++
					}
				}
				if n == 1 {
					return p.pieceList(st.Val, env, depth+1, busy)
				}
			}
		}
		return nil, false
	case *ssa.Call:
		if b, ok := x.Call.Value.(*ssa.Builtin); ok && b.Name() == "append" && len(x.Call.Args) == 2 {
			a, ok1 := p.pieceList(x.Call.Args[0], env, depth+1, busy)
			b2, ok2 := p.pieceList(x.Call.Args[1], env, depth+1, busy)
			if ok1 && ok2 {
				return append(append([]Piece{}, a...), b2...), true
			}
		}
		return nil, false
	}
	return nil, false
}

func blockInLoop(b *ssa.BasicBlock) bool {
	seen := map[*ssa.BasicBlock]bool{}
	var stack []*ssa.BasicBlock
	stack = append(stack, b.Succs...)
	for len(stack) > 0 {
		x := stack[len(stack)-1]
		stack = stack[:len(stack)-1]
		if x == b {
			return true
		}
		if seen[x] {
			continue
		}
		seen[x] = true
		stack = append(stack, x.Succs...)
	}
	return false
}

// rangeElement: v is the element of a `for _, e := range s` loop over a slice (index running from the first to
// the last element); returns the slice.
func rangeElement(v ssa.Value) (ssa.Value, bool) {
	ld, ok := v.(*ssa.UnOp)
	if !ok || ld.Op != token.MUL {
		return nil, false
	}
	ia, ok := ld.X.(*ssa.IndexAddr)
	if !ok || !RangeIndex(ia) {
		return nil, false
	}
	return ia.X, true
}

// RangeIndex: the index of ia runs over the whole slice, first element to last (a range loop or the
// equivalent for i := 0; i < len(s); i++).
func RangeIndex(ia *ssa.IndexAddr) bool {
	phi, _ := ia.Index.(*ssa.Phi)
	if phi == nil {
		if bo, ok := ia.Index.(*ssa.BinOp); ok && bo.Op == token.ADD {
			phi, _ = bo.X.(*ssa.Phi)
		}
	}
	if phi == nil {
		return false
	}
	hasStart, hasStep := false, false
	for _, e := range phi.Edges {
		if k, ok := e.(*ssa.Const); ok && k.Value != nil {
			if s := k.Value.ExactString(); s == "-1" || s == "0" {
				hasStart = true
			}
		}
		if bo, ok := e.(*ssa.BinOp); ok && bo.Op == token.ADD && bo.X == ssa.Value(phi) {
			if k, ok := bo.Y.(*ssa.Const); ok && k.Value != nil && k.Value.ExactString() == "1" {
				hasStep = true
			}
		}
	}
	if !hasStart || !hasStep {
		return false
	}
	okLen := false
	Instrs(ia.Parent(), func(in ssa.Instruction) {
		bo, ok := in.(*ssa.BinOp)
		if !ok || bo.Op != token.LSS {
			return
		}
		if call, ok := bo.Y.(*ssa.Call); ok {
			if b, ok := call.Call.Value.(*ssa.Builtin); ok && b.Name() == "len" && call.Call.Args[0] == ia.X {
				okLen = true
			}
		}
	})
	return okLen
}

// bufferPieces: the values written to a local bytes.Buffer, in source order.
func (p *Prog) bufferPieces(recv ssa.Value, env *KeyEnv, depth int, busy map[ssa.Value]bool) ([]Piece, bool) {
	a, ok := recv.(*ssa.Alloc)
	if !ok {
		return nil, false
	}
	type wr struct {
		pos  token.Pos
		call *ssa.Call
	}
	var ws []wr
	for _, r := range *a.Referrers() {
		c, ok := r.(*ssa.Call)
		if !ok {
			if _, isDbg := r.(*ssa.DebugRef); isDbg {
				continue
			}
			return nil, false // the buffer escapes or is re-assigned
		}
		d, ok := Describe(&c.Call)
		if !ok || d.Recv != "Buffer" || len(c.Call.Args) == 0 || c.Call.Args[0] != recv {
			return nil, false
		}
		switch d.Name {
		case "Write", "WriteString":
			ws = append(ws, wr{c.Pos(), c})
		case "Bytes", "String", "Len", "Grow":
		default:
			return nil, false
		}
	}
	sort.Slice(ws, func(i, j int) bool { return ws[i].pos < ws[j].pos })
	var out []Piece
	for _, w := range ws {
		arg := w.call.Call.Args[1]
		if blockInLoop(w.call.Block()) {
			if s, ok := rangeElement(arg); ok {
				if ps, ok := p.pieceList(s, env, depth+1, busy); ok {
					out = append(out, ps...)
					continue
				}
			}
			for _, pc := range p.pieces(arg, env, depth+1, busy) {
				pc.Repeated = true
				out = append(out, pc)
			}
			continue
		}
		out = append(out, p.pieces(arg, env, depth+1, busy)...)
	}
	return out, true
}
