// Package load type-checks one Go module of the repository under analysis and
// builds its SSA form, without ever letting the go command write below /repo.
package load

import (
	"fmt"
	"go/token"
	"go/types"
	"os"
	"path/filepath"
	"regexp"
	"sort"
	"strings"

	"golang.org/x/tools/go/packages"
	"golang.org/x/tools/go/ssa"
	"golang.org/x/tools/go/ssa/ssautil"
)

// Options selects what is loaded.
type Options struct {
	Repo     string            // repository root, default /repo
	Module   string            // module directory relative to Repo ("module", "minter-connector", ...)
	Patterns []string          // package patterns relative to the module directory
	Overlay  map[string][]byte // file contents replacing / adding to what is on disk
	Full     bool              // type-check every dependency from source (thorough tier)
	Tests    bool
	Dead     map[string]bool // full names of functions to leave out (helpers that package norm inlined everywhere)
}

// Loaded is a type-checked, SSA-built module.
type Loaded struct {
	Opt   Options
	Fset  *token.FileSet
	Roots []*packages.Package // root packages (those matching the patterns), sorted by path
	All   map[string]*packages.Package
	Prog  *ssa.Program
	// SrcFuncs are all functions (incl. anonymous ones and methods) whose
	// source lives in a root package, generated files included.
	SrcFuncs []*ssa.Function
	NPkgs    int
}

// RepoRoot returns the repository under analysis (env MHUBSA_REPO overrides /repo).
func RepoRoot() string {
	if r := os.Getenv("MHUBSA_REPO"); r != "" {
		return r
	}
	return "/repo"
}

var replaceRe = regexp.MustCompile(`(?m)^(replace\s+github\.com/MinterTeam/mhub2/([a-z\-]+)\s+=>\s+)\.\./\.\./mhub2/([a-z\-]+)\s*$`)

// tempModfile copies go.mod/go.sum of the module into a fresh directory and
// returns the path of the copied go.mod.  The in-place "../../mhub2/<m>"
// replaces are rewritten to absolute paths below the repository root.
func tempModfile(repo, module string) (dir, modfile string, err error) {
	dir, err = os.MkdirTemp("", "mhubsa-mod-")
	if err != nil {
		return "", "", err
	}
	src := filepath.Join(repo, module)
	mod, err := os.ReadFile(filepath.Join(src, "go.mod"))
	if err != nil {
		os.RemoveAll(dir)
		return "", "", err
	}
	mod = replaceRe.ReplaceAll(mod, []byte("${1}"+repo+"/${3}"))
	if err = os.WriteFile(filepath.Join(dir, "go.mod"), mod, 0o644); err != nil {
		os.RemoveAll(dir)
		return "", "", err
	}
	if sum, e := os.ReadFile(filepath.Join(src, "go.sum")); e == nil {
		if err = os.WriteFile(filepath.Join(dir, "go.sum"), sum, 0o644); err != nil {
			os.RemoveAll(dir)
			return "", "", err
		}
	}
	return dir, filepath.Join(dir, "go.mod"), nil
}

// Load loads, type-checks and SSA-builds the module.
func Load(opt Options) (*Loaded, error) {
	if opt.Repo == "" {
		opt.Repo = RepoRoot()
	}
	tmp, modfile, err := tempModfile(opt.Repo, opt.Module)
	if err != nil {
		return nil, fmt.Errorf("modfile copy: %w", err)
	}
	defer os.RemoveAll(tmp)

	env := []string{}
	for _, e := range os.Environ() {
		if strings.HasPrefix(e, "GOWORK=") || strings.HasPrefix(e, "GOFLAGS=") ||
			strings.HasPrefix(e, "GOPROXY=") || strings.HasPrefix(e, "GOSUMDB=") ||
			strings.HasPrefix(e, "GOTOOLCHAIN=") {
			continue
		}
		env = append(env, e)
	}
	env = append(env, "GOWORK=off", "GOFLAGS=-mod=mod -modfile="+modfile, "GOPROXY=off", "GOSUMDB=off", "GOTOOLCHAIN=local")

	mode := packages.NeedName | packages.NeedFiles | packages.NeedCompiledGoFiles | packages.NeedImports |
		packages.NeedTypes | packages.NeedTypesSizes | packages.NeedSyntax | packages.NeedTypesInfo | packages.NeedModule
	if opt.Full {
		mode |= packages.NeedDeps
	} else {
		mode |= packages.NeedDeps // we need Imports graph for ssautil; types for deps come from source only when Full
	}
	fset := token.NewFileSet()
	cfg := &packages.Config{
		Mode:    mode,
		Dir:     filepath.Join(opt.Repo, opt.Module),
		Env:     env,
		Fset:    fset,
		Tests:   opt.Tests,
		Overlay: opt.Overlay,
	}
	if !opt.Full {
		// LoadSyntax: syntax+types for roots, export data for the rest.
		cfg.Mode = packages.NeedName | packages.NeedFiles | packages.NeedCompiledGoFiles | packages.NeedImports |
			packages.NeedTypes | packages.NeedTypesSizes | packages.NeedSyntax | packages.NeedTypesInfo | packages.NeedModule | packages.NeedExportFile
	}
	pkgs, err := packages.Load(cfg, opt.Patterns...)
	if err != nil {
		return nil, fmt.Errorf("packages.Load: %w", err)
	}
	if len(pkgs) == 0 {
		return nil, fmt.Errorf("no packages matched %v in %s", opt.Patterns, cfg.Dir)
	}
	var errs []string
	all := map[string]*packages.Package{}
	packages.Visit(pkgs, nil, func(p *packages.Package) {
		all[p.PkgPath] = p
	})
	for _, p := range pkgs {
		for _, e := range p.Errors {
			errs = append(errs, fmt.Sprintf("%s: %s", p.PkgPath, e.Error()))
		}
		if p.Types == nil || p.TypesInfo == nil || p.IllTyped {
			errs = append(errs, fmt.Sprintf("%s: not type-checked", p.PkgPath))
		}
	}
	if len(errs) > 0 {
		sort.Strings(errs)
		if len(errs) > 12 {
			errs = append(errs[:12], fmt.Sprintf("... and %d more", len(errs)-12))
		}
		return nil, fmt.Errorf("type errors in root packages:\n  %s", strings.Join(errs, "\n  "))
	}
	sort.Slice(pkgs, func(i, j int) bool { return pkgs[i].PkgPath < pkgs[j].PkgPath })

	var prog *ssa.Program
	if opt.Full {
		prog, _ = ssautil.AllPackages(pkgs, ssa.InstantiateGenerics)
	} else {
		// bodies for the root packages only; every transitively imported package is created from its
		// type information (the way go/analysis' buildssa does), so that an overlay which forces
		// go/packages to parse dependencies without type info cannot reach the SSA builder
		prog = ssa.NewProgram(fset, ssa.InstantiateGenerics)
		isRoot := map[*types.Package]bool{}
		for _, p := range pkgs {
			isRoot[p.Types] = true
		}
		created := map[*types.Package]bool{}
		var createAll func(ps []*types.Package)
		createAll = func(ps []*types.Package) {
			for _, tp := range ps {
				if created[tp] || isRoot[tp] {
					continue
				}
				created[tp] = true
				prog.CreatePackage(tp, nil, nil, true)
				createAll(tp.Imports())
			}
		}
		for _, p := range pkgs {
			createAll(p.Types.Imports())
		}
		for _, p := range pkgs {
			prog.CreatePackage(p.Types, p.Syntax, p.TypesInfo, false)
		}
	}
	prog.Build()

	l := &Loaded{Opt: opt, Fset: fset, Roots: pkgs, All: all, Prog: prog, NPkgs: len(all)}
	rootSet := map[*types.Package]bool{}
	for _, p := range pkgs {
		rootSet[p.Types] = true
	}
	for fn := range ssautil.AllFunctions(prog) {
		if fn.Pkg == nil && fn.Parent() == nil && fn.Origin() == nil {
			continue
		}
		if fn.Synthetic != "" && fn.Syntax() == nil {
			continue
		}
		p := fn.Package()
		if p == nil {
			if o := fn.Origin(); o != nil {
				p = o.Package()
			}
		}
		if p == nil || !rootSet[p.Pkg] {
			continue
		}
		if fn.Blocks == nil {
			continue
		}
		if len(opt.Dead) > 0 {
			o := fn
			for o.Parent() != nil {
				o = o.Parent()
			}
			if tf, ok := o.Object().(*types.Func); ok && opt.Dead[tf.FullName()] {
				continue
			}
		}
		l.SrcFuncs = append(l.SrcFuncs, fn)
	}
	sort.Slice(l.SrcFuncs, func(i, j int) bool {
		a, b := l.SrcFuncs[i], l.SrcFuncs[j]
		if a.Pos() != b.Pos() {
			return a.Pos() < b.Pos()
		}
		return a.String() < b.String()
	})
	return l, nil
}

// Pos renders a position relative to the repository root.
func (l *Loaded) Pos(p token.Pos) string {
	if !p.IsValid() {
		return "-"
	}
	pos := l.Fset.Position(p)
	f := pos.Filename
	if rel, err := filepath.Rel(l.Opt.Repo, f); err == nil && !strings.HasPrefix(rel, "..") {
		f = rel
	}
	return fmt.Sprintf("%s:%d", f, pos.Line)
}

// IsGenerated reports whether the file holding pos is generated protobuf /
// gateway code or a test file; such files are loaded but never rule sites.
func (l *Loaded) IsGenerated(p token.Pos) bool {
	if !p.IsValid() {
		return false
	}
	f := l.Fset.Position(p).Filename
	return strings.HasSuffix(f, ".pb.go") || strings.HasSuffix(f, ".pb.gw.go") || strings.HasSuffix(f, "_test.go") || IsTestSupport(f)
}

// Pkg returns the root package with the given import path suffix.
func (l *Loaded) Pkg(suffix string) *packages.Package {
	for _, p := range l.Roots {
		if p.PkgPath == suffix || strings.HasSuffix(p.PkgPath, "/"+suffix) {
			return p
		}
	}
	return nil
}

// IsTestSupport reports non-_test files that only hold test scaffolding
// (mocks, test environments); they are compiled into the package but are not
// production code and never rule sites or call-graph targets.
func IsTestSupport(file string) bool {
	return strings.HasSuffix(file, "/test_common.go")
}
