// mhubsa decides structural clauses of the mhub2 properties C01..C20 from the
// source under /repo (see /verif/DESIGN.md).
package main

import (
	"flag"
	"fmt"
	"go/types"
	"os"
	"path/filepath"
	"runtime/debug"
	"sort"
	"strconv"
	"strings"

	"golang.org/x/tools/go/ssa"

	"mhubsa/ana"
	"mhubsa/load"
	"mhubsa/norm"
	"mhubsa/report"
	"mhubsa/rules"
)

func verifDir() string {
	if d := os.Getenv("MHUBSA_VERIF"); d != "" {
		return d
	}
	return "/verif"
}

func main() {
	prop := flag.String("property", "", "property id (C01..C20)")
	tier := flag.String("tier", "quick", "quick | thorough")
	dbg := flag.String("debug", "", "debug dump: storeops | roots | func:<name>")
	explain := flag.String("explain", "", "violation file to re-derive")
	mutantSpec := flag.String("mutant", "", "internal: run with one mutation applied (sensitivity suite)")
	flag.Parse()

	if *explain != "" {
		os.Exit(doExplain(*explain))
	}
	if t := os.Getenv("VERIF_TIER"); t != "" && *tier == "" {
		*tier = t
	}
	seed := 0
	if s := os.Getenv("VERIF_SEED"); s != "" {
		seed, _ = strconv.Atoi(s)
	}

	if *dbg != "" {
		os.Exit(doDebug(*dbg))
	}
	f, ok := rules.Registry[*prop]
	if !ok {
		var ids []string
		for id := range rules.Registry {
			ids = append(ids, id)
		}
		sort.Strings(ids)
		fmt.Fprintf(os.Stderr, "usage: mhubsa -property <id> [-tier quick|thorough]\nknown properties: %s\n", strings.Join(ids, " "))
		os.Exit(2)
	}
	dir := verifDir()
	if *mutantSpec != "" || os.Getenv("MHUBSA_INLINEALL") != "" {
		// mutants never write into the real evidence directory
		tmp, err := os.MkdirTemp("", "mhubsa-mut-")
		if err != nil {
			fmt.Fprintln(os.Stderr, err)
			os.Exit(2)
		}
		defer os.RemoveAll(tmp)
		if b, err := os.ReadFile(filepath.Join(dir, "known_findings.json")); err == nil {
			os.WriteFile(filepath.Join(tmp, "known_findings.json"), b, 0o644)
		}
		dir = tmp
	}
	r := report.New(dir, *prop, *tier, seed)
	m := rules.Metas[*prop]
	r.Explanation = m.Explanation
	r.NotDecided = m.NotDecided
	r.Assumptions = m.Assumptions

	code := run(r, f, *tier, *mutantSpec)
	os.Exit(code)
}

func run(r *report.Report, f rules.PropertyFunc, tier, mutantSpec string) (code int) {
	defer func() {
		if e := recover(); e != nil {
			r.InfraErr = fmt.Sprintf("analysis panic: %v\n%s", e, debug.Stack())
			code = r.Finish()
		}
	}()
	var overlay map[string][]byte
	if mutantSpec != "" {
		var err error
		overlay, err = rules.MutantOverlay(mutantSpec)
		if err != nil {
			r.InfraErr = "mutant: " + err.Error()
			return r.Finish()
		}
	}
	l, err := load.Load(load.Options{Module: "module", Patterns: []string{"./x/...", "./app/..."}, Full: tier == "thorough", Overlay: overlay})
	if err != nil {
		r.InfraErr = err.Error()
		return r.Finish()
	}
	var allDead map[string]bool
	if mode := os.Getenv("MHUBSA_INLINEALL"); mode != "" {
		// development aid: check the program with every translatable private helper inlined (what a
		// maintainer's inlining refactorings converge to); mode "thin" keeps multi-statement shared helpers
		keep := func(h, caller *types.Func, shared, thin bool) bool {
			if strings.HasPrefix(mode, "only:") {
				// one helper inlined everywhere, the rest of the pipeline (fallback included) as usual: what a
				// maintainer's "inline function" refactoring produces
				return h.FullName() == strings.TrimPrefix(mode, "only:")
			}
			if mode == "thin" {
				return thin || !shared
			}
			return true
		}
		ov := map[string][]byte{}
		for k, v := range overlay {
			ov[k] = v
		}
		dead := map[string]bool{}
		ctr := 0
		for round := 0; round < 6; round++ {
			res := norm.Round(l, keep, ov, dead, &ctr)
			if len(res.Inlined) == 0 {
				break
			}
			nl, err := load.Load(load.Options{Module: "module", Patterns: []string{"./x/...", "./app/..."}, Full: false, Overlay: res.Overlay})
			if err != nil {
				r.InfraErr = "inline-all: " + err.Error()
				return r.Finish()
			}
			if os.Getenv("MHUBSA_INLINEQUIET") == "" {
				fmt.Fprintf(os.Stderr, "inline-all round %d: %d call sites: %s\n", round, len(res.Inlined), strings.Join(res.Inlined, "; "))
			}
			ov, dead, l = res.Overlay, res.Dead, nl
		}
		overlay, allDead = ov, dead
		if d := os.Getenv("MHUBSA_DUMPNORM"); d != "" {
			for name, b := range overlay {
				os.WriteFile(filepath.Join(d, filepath.Base(name)), b, 0o644)
			}
		}
		l, err = load.Load(load.Options{Module: "module", Patterns: []string{"./x/...", "./app/..."}, Full: tier == "thorough", Overlay: overlay, Dead: allDead})
		if err != nil {
			r.InfraErr = "inline-all: " + err.Error()
			return r.Finish()
		}
		if !strings.HasPrefix(mode, "only:") {
			os.Setenv("MHUBSA_NONORM", "1")
		} else if len(allDead) == 0 {
			fmt.Fprintln(os.Stderr, "inline-only: helper not inlined everywhere (kept)")
		}
	}
	p := ana.NewProg(l)
	rules.InstallAliases(p)
	r.Analysed["packages_module"] = l.NPkgs
	r.Analysed["root_packages_module"] = len(l.Roots)
	r.Analysed["functions_module"] = len(p.Funcs)
	ne := 0
	for _, es := range p.Out {
		ne += len(es)
	}
	r.Analysed["callgraph_edges_module"] = ne
	c := &rules.Ctx{R: r, P: p, Tier: tier, Overlay: overlay, Dead: allDead, Fold: &rules.FoldSet{M: map[*ssa.Function]bool{}}}
	// a check may find that a function it cannot classify is a private helper of one caller; it then
	// registers the helper and the check is run again with the helper folded into that caller
	for pass := 0; ; pass++ {
		c.Fold.Changed = false
		c.Sub = nil
		f(c)
		if !c.Fold.Changed || pass >= 3 {
			break
		}
		r.Reset()
	}
	// Still violations: statements may have been moved into private helpers, which hides them from rules that
	// look at one function at a time.  Re-check a behaviourally equivalent program in which the private
	// single-caller helpers that play no part in any discharged obligation are inlined at their call sites
	// (package norm).  The verdict of the equivalent program is adopted only if it is completely clean;
	// otherwise the report of the program as written stands.
	if r.Pending() > 0 && os.Getenv("MHUBSA_NONORM") == "" {
		if r2, note := normalisedRun(r, c, f, tier, overlay); r2 != nil {
			r.Obls, r.Counts, r.Minimum = r2.Obls, r2.Counts, r2.Minimum
			for k, v := range r2.Analysed {
				r.Analysed[k] = v
			}
			r.Extra["normalised"] = note
		} else if note != "" {
			r.Extra["normalisation_attempt"] = note
		}
		if os.Getenv("MHUBSA_DEBUGNORM") != "" {
			fmt.Fprintln(os.Stderr, "normalisation:", r.Extra["normalised"], r.Extra["normalisation_attempt"])
		}
	}
	if n := len(c.Fold.M); n > 0 {
		r.Analysed["helpers_folded"] = n
	}
	if tier == "thorough" && mutantSpec == "" {
		rules.RunSensitivity(c)
	}
	return r.Finish()
}

// namesIn collects the functions that the obligations of the given status speak about (by name in the key
// or detail, or by the position they are reported at).
func namesIn(r *report.Report, progs []*ana.Prog, status string) map[string]bool {
	out := map[string]bool{}
	type span struct {
		file       string
		from, to   int
		full, name string
	}
	var spans []span
	byName := map[string]string{}
	for _, p := range progs {
		for _, fn := range p.AllFuncs {
			o := ana.Outermost(fn)
			tf, _ := o.Object().(*types.Func)
			if tf == nil || o.Syntax() == nil {
				continue
			}
			byName[ana.FuncName(o)] = tf.FullName()
			a, b := p.L.Fset.Position(o.Syntax().Pos()), p.L.Fset.Position(o.Syntax().End())
			rel := p.L.Pos(o.Syntax().Pos())
			if i := strings.LastIndex(rel, ":"); i > 0 {
				rel = rel[:i]
			}
			spans = append(spans, span{rel, a.Line, b.Line, tf.FullName(), ana.FuncName(o)})
		}
	}
	var names []string
	for n := range byName {
		names = append(names, n)
	}
	for _, o := range r.Obls {
		if o.Status != status || (status == report.Violation && r.IsOpenKnown(o.Rule, o.Key)) {
			continue
		}
		for _, n := range names {
			if strings.Contains(o.Key, n) || strings.Contains(o.Detail, n) {
				// the name must not merely be a prefix of a longer function name
				for _, txt := range []string{o.Key, o.Detail} {
					idx := strings.Index(txt, n)
					for idx >= 0 {
						end := idx + len(n)
						if end == len(txt) || !(txt[end] == '_' || txt[end] >= 'a' && txt[end] <= 'z' || txt[end] >= 'A' && txt[end] <= 'Z' || txt[end] >= '0' && txt[end] <= '9') {
							out[byName[n]] = true
						}
						nx := strings.Index(txt[idx+1:], n)
						if nx < 0 {
							break
						}
						idx += 1 + nx
					}
				}
			}
		}
		if i := strings.LastIndex(o.Where, ":"); i > 0 {
			file := o.Where[:i]
			line, _ := strconv.Atoi(o.Where[i+1:])
			for _, sp := range spans {
				if sp.file == file && sp.from <= line && line <= sp.to {
					out[sp.full] = true
				}
			}
		}
	}
	return out
}

// normalisedRun re-runs the check on the equivalent program with private helpers inlined.  It returns the
// new report when that report is clean, and a note describing what was done.
func normalisedRun(r *report.Report, c *rules.Ctx, f rules.PropertyFunc, tier string, base map[string][]byte) (*report.Report, string) {
	progs := []*ana.Prog{c.P}
	mods := c.LoadedModules()
	var modNames []string
	for m := range mods {
		modNames = append(modNames, m)
	}
	sort.Strings(modNames)
	for _, m := range modNames {
		progs = append(progs, mods[m])
	}
	sem := namesIn(r, progs, report.OK)
	sus := namesIn(r, progs, report.Violation)
	// functions that the discharged obligations of any other property speak about are not helpers either
	semAll, susAll := map[string]bool{}, map[string]bool{}
	for k := range sem {
		semAll[k] = true
	}
	for k := range sus {
		susAll[k] = true
	}
	allDone := false
	allNames := func() {
		if allDone {
			return
		}
		allDone = true
		var ids []string
		for id := range rules.Registry {
			ids = append(ids, id)
		}
		sort.Strings(ids)
		tmp, err := os.MkdirTemp("", "mhubsa-sem-")
		if err != nil {
			return
		}
		defer os.RemoveAll(tmp)
		for _, id := range ids {
			if id == r.Property {
				continue
			}
			func() {
				defer func() { recover() }()
				ro := report.New(tmp, id, tier, 0)
				co := &rules.Ctx{R: ro, P: c.P, Tier: tier, Overlay: base, Fold: &rules.FoldSet{M: map[*ssa.Function]bool{}}}
				co.ShareModules(c)
				rules.Registry[id](co)
				ps := progs
				for _, m := range co.LoadedModules() {
					ps = append(ps, m)
				}
				for k := range namesIn(ro, ps, report.OK) {
					semAll[k] = true
				}
				for k := range namesIn(ro, ps, report.Violation) {
					susAll[k] = true
				}
			}()
		}
	}
	// shared: a multi-statement function with several callers (a shared abstraction rather than an extracted
	// block); thin: a wrapper without control flow.  Stage 1 inlines what the functions a violation points at
	// call; stage 2 the extracted blocks no discharged obligation of any property speaks about; stage 3
	// additionally the private functions violations point at.
	// thin wrappers around a store / bank primitive are what the rules recognise effects by: they stay
	effectWrapper := func(h *types.Func, thin bool) bool {
		if !thin {
			return false
		}
		for _, pr := range progs {
			if fn := pr.L.Prog.FuncValue(h); fn != nil {
				return len(pr.StoreOps(fn))+len(pr.BankOps(fn)) > 0
			}
		}
		return false
	}
	// near: what the functions a violation points at call (two levels of resolved static calls)
	near := map[string]bool{}
	for _, pr := range progs {
		var frontier []*ssa.Function
		for _, fn := range pr.AllFuncs {
			if tf, _ := ana.Outermost(fn).Object().(*types.Func); tf != nil && sus[tf.FullName()] {
				frontier = append(frontier, fn)
			}
		}
		for depth := 0; depth < 2; depth++ {
			var next []*ssa.Function
			for _, fn := range frontier {
				for _, e := range pr.Out[fn] {
					if e.Kind != "static" && e.Kind != "closure" {
						continue
					}
					if tf, _ := ana.Outermost(e.Callee).Object().(*types.Func); tf != nil && !near[tf.FullName()] {
						near[tf.FullName()] = true
						next = append(next, e.Callee)
					}
				}
			}
			frontier = next
		}
	}
	rawStages := []func(h, caller *types.Func, shared, thin bool) bool{
		func(h, caller *types.Func, shared, thin bool) bool {
			return sus[caller.FullName()] && !sus[h.FullName()] && !sem[h.FullName()]
		},
		// shared helpers called by a function a violation points at are inlined there (and only there) even
		// when other obligations speak about them: the helper itself stays for its other callers
		func(h, caller *types.Func, shared, thin bool) bool {
			if sus[caller.FullName()] && !sus[h.FullName()] {
				return shared || !sem[h.FullName()]
			}
			return false
		},
		// ... and the helpers of what those functions call
		func(h, caller *types.Func, shared, thin bool) bool {
			if sus[caller.FullName()] && !sus[h.FullName()] {
				return shared || !sem[h.FullName()]
			}
			return near[caller.FullName()] && !sus[h.FullName()] && !sem[h.FullName()]
		},
		func(h, caller *types.Func, shared, thin bool) bool {
			// (thin wrappers of store / bank primitives are excluded for every stage below; a thin pure helper,
			// e.g. a predicate, is an extracted expression like any other)
			if shared {
				return false
			}
			allNames()
			return !semAll[h.FullName()]
		},
		func(h, caller *types.Func, shared, thin bool) bool {
			if shared {
				return false
			}
			allNames()
			return susAll[h.FullName()] || !semAll[h.FullName()]
		},
	}
	var stages []func(h, caller *types.Func, shared, thin bool) bool
	for _, st := range rawStages {
		st := st
		stages = append(stages, func(h, caller *types.Func, shared, thin bool) bool {
			return !effectWrapper(h, thin) && st(h, caller, shared, thin)
		})
	}
	type modSpec struct {
		module   string
		patterns []string
	}
	specs := []modSpec{{"module", []string{"./x/...", "./app/..."}}}
	for _, m := range modNames {
		specs = append(specs, modSpec{m, mods[m].L.Opt.Patterns})
	}
	var notes []string
	for si, keep := range stages {
		overlay := map[string][]byte{}
		for k, v := range base {
			overlay[k] = v
		}
		ctr := 0
		var inlined []string
		allDead := map[string]bool{}
		failed := ""
		for _, ms := range specs {
			dead := map[string]bool{}
			if ms.module == "module" {
				for k := range c.Dead {
					dead[k] = true
				}
			}
			var l *load.Loaded
			if ms.module == "module" {
				l = c.P.L
			} else {
				l = mods[ms.module].L
			}
			for round := 0; round < 4; round++ {
				res := norm.Round(l, keep, overlay, dead, &ctr)
				if len(res.Inlined) == 0 {
					break
				}
				nl, err := load.Load(load.Options{Module: ms.module, Patterns: ms.patterns, Full: false, Overlay: res.Overlay})
				if err != nil {
					// the rewriting produced something that does not type-check: give up on this stage
					failed = err.Error()
					if len(failed) > 300 {
						failed = failed[:300]
					}
					break
				}
				overlay, dead, l = res.Overlay, res.Dead, nl
				inlined = append(inlined, res.Inlined...)
				for k := range res.Dead {
					allDead[k] = true
				}
			}
		}
		if failed != "" {
			notes = append(notes, fmt.Sprintf("stage %d abandoned: %s", si+1, failed))
			continue
		}
		if len(inlined) == 0 {
			continue
		}
		r2, note := checkNormalised(r, f, tier, overlay, allDead, inlined)
		if r2 != nil {
			return r2, note
		}
		notes = append(notes, note)
	}
	return nil, strings.Join(notes, " | ")
}

func checkNormalised(r *report.Report, f rules.PropertyFunc, tier string, overlay map[string][]byte, allDead map[string]bool, inlined []string) (*report.Report, string) {
	if len(inlined) == 0 {
		return nil, ""
	}
	l, err := load.Load(load.Options{Module: "module", Patterns: []string{"./x/...", "./app/..."}, Full: tier == "thorough", Overlay: overlay, Dead: allDead})
	if err != nil {
		return nil, "normalised program does not load: " + err.Error()
	}
	p2 := ana.NewProg(l)
	rules.InstallAliases(p2)
	r2 := report.New(r.Dir, r.Property, r.Tier, r.Seed)
	c2 := &rules.Ctx{R: r2, P: p2, Tier: tier, Overlay: overlay, Dead: allDead, Fold: &rules.FoldSet{M: map[*ssa.Function]bool{}}}
	for pass := 0; ; pass++ {
		c2.Fold.Changed = false
		c2.Sub = nil
		f(c2)
		if !c2.Fold.Changed || pass >= 3 {
			break
		}
		r2.Reset()
	}
	note := fmt.Sprintf("%d call site(s) of private single-caller helpers inlined: %s", len(inlined), strings.Join(inlined, "; "))
	if r2.Pending() == 0 {
		// the equivalent program must not pass by making rules vacuous: per rule it discharges at least as many
		// obligations as the program as written did
		okBefore, okAfter := map[string]int{}, map[string]int{}
		for _, o := range r.Obls {
			if o.Status == report.OK {
				okBefore[o.Rule]++
			}
		}
		for _, o := range r2.Obls {
			if o.Status == report.OK {
				okAfter[o.Rule]++
			}
		}
		for rule, n := range okBefore {
			if okAfter[rule] < n {
				return nil, note + fmt.Sprintf(" — rejected: rule %s discharges %d obligation(s) on the equivalent program, %d on the program as written", rule, okAfter[rule], n)
			}
		}
		// ... and an open obligation must have been decided, not lost: a rule that reported violations
		// discharges more obligations on the equivalent program than before
		if os.Getenv("MHUBSA_LAXNORM") == "" {
			badBefore := map[string]int{}
			for _, o := range r.Obls {
				if o.Status == report.Violation && !r.IsOpenKnown(o.Rule, o.Key) && !strings.HasSuffix(o.Rule, ".undecided") && !strings.Contains(o.Key, ".undecided") {
					badBefore[o.Rule]++
				}
			}
			for rule, nb := range badBefore {
				if nb > 0 && okAfter[rule] <= okBefore[rule] {
					return nil, note + fmt.Sprintf(" — rejected: rule %s had %d open obligation(s) on the program as written and discharges no additional obligation on the equivalent program (%d before, %d after): the construct it objected to is no longer examined", rule, nb, okBefore[rule], okAfter[rule])
				}
			}
		}
		return r2, note
	}
	if os.Getenv("MHUBSA_DEBUGNORM") != "" {
		fmt.Fprintln(os.Stderr, "  normalised-stage:", strings.Join(inlined, "\n       "))
		for _, o := range r2.Obls {
			if o.Status == report.Violation {
				fmt.Fprintln(os.Stderr, "  normalised-still:", o.Rule, o.Key, o.Where, o.Detail)
			}
		}
		for rule, min := range r2.Minimum {
			if r2.Counts[rule] < min {
				fmt.Fprintln(os.Stderr, "  normalised-min:", rule, r2.Counts[rule], min)
			}
		}
		if d := os.Getenv("MHUBSA_DUMPNORM"); d != "" {
			for name, b := range overlay {
				os.WriteFile(filepath.Join(d, filepath.Base(name)), b, 0o644)
			}
		}
	}
	return nil, note + fmt.Sprintf(" — the equivalent program still has %d open obligation(s); the report of the program as written stands", r2.Pending())
}

func doDebug(what string) int {
	if strings.HasPrefix(what, "cfunc:") {
		l, err := load.Load(load.Options{Module: "minter-connector", Patterns: []string{"./..."}})
		if err != nil {
			fmt.Fprintln(os.Stderr, err)
			return 2
		}
		p := ana.NewProg(l)
		fn := p.Func(strings.TrimPrefix(what, "cfunc:"))
		if fn == nil {
			for _, f := range p.Funcs {
				fmt.Println(ana.FuncName(f))
			}
			return 1
		}
		fn.WriteTo(os.Stdout)
		return 0
	}
	l, err := load.Load(load.Options{Module: "module", Patterns: []string{"./x/...", "./app/..."}})
	if err != nil {
		fmt.Fprintln(os.Stderr, err)
		return 2
	}
	p := ana.NewProg(l)
	switch {
	case what == "storeops":
		for _, fn := range p.Funcs {
			for _, op := range p.StoreOps(fn) {
				fmt.Printf("%-60s %-16s %-22s %s  @%s\n", ana.FuncName(fn), op.Op, op.Store, op.Key, p.InstrPos(op.Site))
			}
			for _, op := range p.BankOps(fn) {
				fmt.Printf("%-60s BANK %-16s @%s\n", ana.FuncName(fn), op.Op, p.InstrPos(op.Site))
			}
		}
	case what == "single":
		c := &rules.Ctx{P: p, R: report.New(os.TempDir(), "dbg", "quick", 0)}
		for _, fn := range p.Funcs {
			if fn.Parent() != nil || p.L.IsGenerated(fn.Pos()) {
				continue
			}
			callers := map[string]int{}
			for _, e := range p.In[fn] {
				callers[ana.FuncName(ana.Outermost(e.Caller))]++
			}
			if len(callers) == 1 {
				for k, n := range callers {
					fmt.Printf("%-60s <- %s x%d  effects=%d\n", ana.FuncName(fn), k, n, len(c.Effects(fn)))
				}
			}
		}
	case what == "roots":
		c := &rules.Ctx{P: p, R: report.New(os.TempDir(), "dbg", "quick", 0)}
		r := c.Roots()
		pr := func(n string, fs interface{}) { fmt.Println(n, fs) }
		pr("begin", rules.Names(r.Begin))
		pr("end", rules.Names(r.End))
		pr("msg", rules.Names(r.Msg))
		pr("gov", rules.Names(r.Gov))
		pr("init", rules.Names(r.InitGen))
		pr("export", rules.Names(r.ExportGen))
		pr("query", rules.Names(r.Query))
	case strings.HasPrefix(what, "func:"):
		fn := p.Func(strings.TrimPrefix(what, "func:"))
		if fn == nil {
			fmt.Println("not found")
			return 1
		}
		fn.WriteTo(os.Stdout)
		for _, e := range p.Out[fn] {
			fmt.Printf("  -> %s (%s) @%s\n", ana.FuncName(e.Callee), e.Kind, p.InstrPos(e.Site.(interface {
				ana.SSAInstr
			})))
		}
	case strings.HasPrefix(what, "units:"):
		fn := p.Func(strings.TrimPrefix(what, "units:"))
		q := ana.NewUQ(p)
		q.Trace = func(s string) { fmt.Println(s) }
		q.AnalyzeRoot(fn)
		for _, is := range q.SortedIssues() {
			fmt.Println("ISSUE", is.Kind, p.InstrPos(is.At), is.Detail)
		}
	case strings.HasPrefix(what, "expr:"):
		parts := strings.SplitN(strings.TrimPrefix(what, "expr:"), ":", 2)
		debugExpr(p, parts[0], parts[1])
	case strings.HasPrefix(what, "leaves:"):
		// leaves:<func>:<valuename>
		parts := strings.SplitN(strings.TrimPrefix(what, "leaves:"), ":", 2)
		fn := p.Func(parts[0])
		if fn == nil {
			fmt.Println("not found")
			return 1
		}
		for _, b := range fn.Blocks {
			for _, in := range b.Instrs {
				if v, ok := in.(interface {
					Name() string
				}); ok && v.Name() == parts[1] {
					pv := p.Leaves(in.(ana.SSAValue), ana.PVOpt{})
					fmt.Println("leaves:", pv.List())
					fmt.Println("ops:", pv.OpList())
				}
			}
		}
	}
	return 0
}

func doExplain(file string) int {
	b, err := os.ReadFile(file)
	if err != nil {
		fmt.Fprintln(os.Stderr, err)
		return 2
	}
	fmt.Printf("%s\n", b)
	return 0
}
