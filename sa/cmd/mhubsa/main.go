// mhubsa decides structural clauses of the mhub2 properties C01..C20 from the
// source under /repo (see /verif/DESIGN.md).
package main

import (
	"flag"
	"fmt"
	"os"
	"path/filepath"
	"runtime/debug"
	"sort"
	"strconv"
	"strings"

	"golang.org/x/tools/go/ssa"

	"mhubsa/ana"
	"mhubsa/load"
	"mhubsa/report"
	"mhubsa/rules"
)

func verifDir() string {
	if d := os.Getenv("MHUBSA_VERIF"); d != "" {
		return d
	}
	return "/verif"
}

func main() {
	prop := flag.String("property", "", "property id (C01..C20)")
	tier := flag.String("tier", "quick", "quick | thorough")
	dbg := flag.String("debug", "", "debug dump: storeops | roots | func:<name>")
	explain := flag.String("explain", "", "violation file to re-derive")
	mutantSpec := flag.String("mutant", "", "internal: run with one mutation applied (sensitivity suite)")
	flag.Parse()

	if *explain != "" {
		os.Exit(doExplain(*explain))
	}
	if t := os.Getenv("VERIF_TIER"); t != "" && *tier == "" {
		*tier = t
	}
	seed := 0
	if s := os.Getenv("VERIF_SEED"); s != "" {
		seed, _ = strconv.Atoi(s)
	}

	if *dbg != "" {
		os.Exit(doDebug(*dbg))
	}
	f, ok := rules.Registry[*prop]
	if !ok {
		var ids []string
		for id := range rules.Registry {
			ids = append(ids, id)
		}
		sort.Strings(ids)
		fmt.Fprintf(os.Stderr, "usage: mhubsa -property <id> [-tier quick|thorough]\nknown properties: %s\n", strings.Join(ids, " "))
		os.Exit(2)
	}
	dir := verifDir()
	if *mutantSpec != "" {
		// mutants never write into the real evidence directory
		tmp, err := os.MkdirTemp("", "mhubsa-mut-")
		if err != nil {
			fmt.Fprintln(os.Stderr, err)
			os.Exit(2)
		}
		defer os.RemoveAll(tmp)
		if b, err := os.ReadFile(filepath.Join(dir, "known_findings.json")); err == nil {
			os.WriteFile(filepath.Join(tmp, "known_findings.json"), b, 0o644)
		}
		dir = tmp
	}
	r := report.New(dir, *prop, *tier, seed)
	m := rules.Metas[*prop]
	r.Explanation = m.Explanation
	r.NotDecided = m.NotDecided
	r.Assumptions = m.Assumptions

	code := run(r, f, *tier, *mutantSpec)
	os.Exit(code)
}

func run(r *report.Report, f rules.PropertyFunc, tier, mutantSpec string) (code int) {
	defer func() {
		if e := recover(); e != nil {
			r.InfraErr = fmt.Sprintf("analysis panic: %v\n%s", e, debug.Stack())
			code = r.Finish()
		}
	}()
	var overlay map[string][]byte
	if mutantSpec != "" {
		var err error
		overlay, err = rules.MutantOverlay(mutantSpec)
		if err != nil {
			r.InfraErr = "mutant: " + err.Error()
			return r.Finish()
		}
	}
	l, err := load.Load(load.Options{Module: "module", Patterns: []string{"./x/...", "./app/..."}, Full: tier == "thorough", Overlay: overlay})
	if err != nil {
		r.InfraErr = err.Error()
		return r.Finish()
	}
	p := ana.NewProg(l)
	r.Analysed["packages_module"] = l.NPkgs
	r.Analysed["root_packages_module"] = len(l.Roots)
	r.Analysed["functions_module"] = len(p.Funcs)
	ne := 0
	for _, es := range p.Out {
		ne += len(es)
	}
	r.Analysed["callgraph_edges_module"] = ne
	c := &rules.Ctx{R: r, P: p, Tier: tier, Overlay: overlay, Fold: &rules.FoldSet{M: map[*ssa.Function]bool{}}}
	// a check may find that a function it cannot classify is a private helper of one caller; it then
	// registers the helper and the check is run again with the helper folded into that caller
	for pass := 0; ; pass++ {
		c.Fold.Changed = false
		c.Sub = nil
		f(c)
		if !c.Fold.Changed || pass >= 3 {
			break
		}
		r.Reset()
	}
	if n := len(c.Fold.M); n > 0 {
		r.Analysed["helpers_folded"] = n
	}
	if tier == "thorough" && mutantSpec == "" {
		rules.RunSensitivity(c)
	}
	return r.Finish()
}

func doDebug(what string) int {
	l, err := load.Load(load.Options{Module: "module", Patterns: []string{"./x/...", "./app/..."}})
	if err != nil {
		fmt.Fprintln(os.Stderr, err)
		return 2
	}
	p := ana.NewProg(l)
	switch {
	case what == "storeops":
		for _, fn := range p.Funcs {
			for _, op := range p.StoreOps(fn) {
				fmt.Printf("%-60s %-16s %-22s %s  @%s\n", ana.FuncName(fn), op.Op, op.Store, op.Key, p.InstrPos(op.Site))
			}
			for _, op := range p.BankOps(fn) {
				fmt.Printf("%-60s BANK %-16s @%s\n", ana.FuncName(fn), op.Op, p.InstrPos(op.Site))
			}
		}
	case what == "single":
		c := &rules.Ctx{P: p, R: report.New(os.TempDir(), "dbg", "quick", 0)}
		for _, fn := range p.Funcs {
			if fn.Parent() != nil || p.L.IsGenerated(fn.Pos()) {
				continue
			}
			callers := map[string]int{}
			for _, e := range p.In[fn] {
				callers[ana.FuncName(ana.Outermost(e.Caller))]++
			}
			if len(callers) == 1 {
				for k, n := range callers {
					fmt.Printf("%-60s <- %s x%d  effects=%d\n", ana.FuncName(fn), k, n, len(c.Effects(fn)))
				}
			}
		}
	case what == "roots":
		c := &rules.Ctx{P: p, R: report.New(os.TempDir(), "dbg", "quick", 0)}
		r := c.Roots()
		pr := func(n string, fs interface{}) { fmt.Println(n, fs) }
		pr("begin", rules.Names(r.Begin))
		pr("end", rules.Names(r.End))
		pr("msg", rules.Names(r.Msg))
		pr("gov", rules.Names(r.Gov))
		pr("init", rules.Names(r.InitGen))
		pr("export", rules.Names(r.ExportGen))
		pr("query", rules.Names(r.Query))
	case strings.HasPrefix(what, "func:"):
		fn := p.Func(strings.TrimPrefix(what, "func:"))
		if fn == nil {
			fmt.Println("not found")
			return 1
		}
		fn.WriteTo(os.Stdout)
		for _, e := range p.Out[fn] {
			fmt.Printf("  -> %s (%s) @%s\n", ana.FuncName(e.Callee), e.Kind, p.InstrPos(e.Site.(interface {
				ana.SSAInstr
			})))
		}
	case strings.HasPrefix(what, "units:"):
		fn := p.Func(strings.TrimPrefix(what, "units:"))
		q := ana.NewUQ(p)
		q.Trace = func(s string) { fmt.Println(s) }
		q.AnalyzeRoot(fn)
		for _, is := range q.SortedIssues() {
			fmt.Println("ISSUE", is.Kind, p.InstrPos(is.At), is.Detail)
		}
	case strings.HasPrefix(what, "expr:"):
		parts := strings.SplitN(strings.TrimPrefix(what, "expr:"), ":", 2)
		debugExpr(p, parts[0], parts[1])
	case strings.HasPrefix(what, "leaves:"):
		// leaves:<func>:<valuename>
		parts := strings.SplitN(strings.TrimPrefix(what, "leaves:"), ":", 2)
		fn := p.Func(parts[0])
		if fn == nil {
			fmt.Println("not found")
			return 1
		}
		for _, b := range fn.Blocks {
			for _, in := range b.Instrs {
				if v, ok := in.(interface {
					Name() string
				}); ok && v.Name() == parts[1] {
					pv := p.Leaves(in.(ana.SSAValue), ana.PVOpt{})
					fmt.Println("leaves:", pv.List())
					fmt.Println("ops:", pv.OpList())
				}
			}
		}
	}
	return 0
}

func doExplain(file string) int {
	b, err := os.ReadFile(file)
	if err != nil {
		fmt.Fprintln(os.Stderr, err)
		return 2
	}
	fmt.Printf("%s\n", b)
	return 0
}
