package main

import (
	"fmt"
	"strings"

	"golang.org/x/tools/go/ssa"

	"mhubsa/ana"
)

// debugExpr prints Expr and Leaves for every call argument of calls to the named callee inside fn.
func debugExpr(p *ana.Prog, fnName, calleeName string) {
	fn := p.Func(fnName)
	if fn == nil {
		fmt.Println("not found", fnName)
		return
	}
	var visit func(f *ssa.Function)
	visit = func(f *ssa.Function) {
		ana.Calls(f, func(site ssa.CallInstruction, d ana.CalleeDesc) {
			if !strings.HasSuffix(d.String(), calleeName) {
				return
			}
			fmt.Printf("== %s @%s\n", d, p.InstrPos(site.(ssa.Instruction)))
			args := site.Common().Args
			for i, a := range args {
				fmt.Printf("  arg%d expr: %s\n", i, p.Expr(a, 2))
				l := p.Leaves(a, ana.PVOpt{})
				fmt.Printf("       leaves: %v\n       ops: %v\n", l.List(), l.OpList())
			}
		})
		for _, an := range f.AnonFuncs {
			visit(an)
		}
	}
	visit(fn)
}
