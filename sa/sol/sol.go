// Package sol is a purpose-built reader for the subset of Solidity used by
// Hub2.sol: a tokenizer, bracket matching, and extraction of declarations and
// of the argument lists the cross-artefact rules compare.  It is not a
// Solidity front end; every extraction is validated by the rules that use it
// (expected functions, events and abi.encode sites must be found).
package sol

import (
	"fmt"
	"os"
	"strings"
	"unicode"
)

// Tok is one token.
type Tok struct {
	S    string
	Line int
	Kind int // 0 ident/keyword, 1 number/hex, 2 string, 3 punct
}

// Param is a declared parameter / field / variable.
type Param struct {
	Type    string
	Name    string
	Indexed bool
}

// Func is a function (or constructor) definition.
type Func struct {
	Name   string
	Params []Param
	Body   []Tok
	Line   int
	Locals map[string]string // simple "TYPE name = ..." declarations inside the body
	Inits  map[string][]Tok  // initialiser tokens of those declarations
}

// Event is an event declaration.
type Event struct {
	Name   string
	Params []Param
	Line   int
}

// File is the parsed contract file.
type File struct {
	Path      string
	Toks      []Tok
	StateVars map[string]string
	Structs   map[string][]Param
	Funcs     map[string]*Func
	Events    map[string]*Event
}

// Tokenize splits Solidity source into tokens, dropping comments.
func Tokenize(src string) []Tok {
	var out []Tok
	line := 1
	i := 0
	n := len(src)
	for i < n {
		ch := src[i]
		switch {
		case ch == '\n':
			line++
			i++
		case ch == ' ' || ch == '\t' || ch == '\r':
			i++
		case ch == '/' && i+1 < n && src[i+1] == '/':
			for i < n && src[i] != '\n' {
				i++
			}
		case ch == '/' && i+1 < n && src[i+1] == '*':
			i += 2
			for i+1 < n && !(src[i] == '*' && src[i+1] == '/') {
				if src[i] == '\n' {
					line++
				}
				i++
			}
			i += 2
		case ch == '"' || ch == '\'':
			q := ch
			j := i + 1
			for j < n && src[j] != q {
				if src[j] == '\\' {
					j++
				}
				j++
			}
			out = append(out, Tok{S: src[i : j+1], Line: line, Kind: 2})
			i = j + 1
		case unicode.IsLetter(rune(ch)) || ch == '_' || ch == '$':
			j := i
			for j < n && (unicode.IsLetter(rune(src[j])) || unicode.IsDigit(rune(src[j])) || src[j] == '_' || src[j] == '$') {
				j++
			}
			out = append(out, Tok{S: src[i:j], Line: line, Kind: 0})
			i = j
		case unicode.IsDigit(rune(ch)):
			j := i
			for j < n && (unicode.IsLetter(rune(src[j])) || unicode.IsDigit(rune(src[j]))) {
				j++
			}
			out = append(out, Tok{S: src[i:j], Line: line, Kind: 1})
			i = j
		default:
			// multi-char operators
			for _, op := range []string{"==", "!=", "<=", ">=", "&&", "||", "=>", "++", "--", "+=", "-="} {
				if strings.HasPrefix(src[i:], op) {
					out = append(out, Tok{S: op, Line: line, Kind: 3})
					i += len(op)
					goto next
				}
			}
			out = append(out, Tok{S: string(ch), Line: line, Kind: 3})
			i++
		next:
		}
	}
	return out
}

// match returns the index of the bracket closing the one at toks[i].
func match(toks []Tok, i int) int {
	open := toks[i].S
	close := map[string]string{"(": ")", "{": "}", "[": "]"}[open]
	depth := 0
	for j := i; j < len(toks); j++ {
		switch toks[j].S {
		case open:
			depth++
		case close:
			depth--
			if depth == 0 {
				return j
			}
		}
	}
	return -1
}

// SplitArgs splits a token list on top-level commas.
func SplitArgs(toks []Tok) [][]Tok {
	var out [][]Tok
	depth := 0
	start := 0
	for i, t := range toks {
		switch t.S {
		case "(", "[", "{":
			depth++
		case ")", "]", "}":
			depth--
		case ",":
			if depth == 0 {
				out = append(out, toks[start:i])
				start = i + 1
			}
		}
	}
	if start < len(toks) {
		out = append(out, toks[start:])
	}
	return out
}

// Text renders tokens without spaces (canonical form used for comparisons).
func Text(toks []Tok) string {
	var sb strings.Builder
	for i, t := range toks {
		if i > 0 && t.Kind != 3 && toks[i-1].Kind != 3 {
			sb.WriteString(" ")
		}
		sb.WriteString(t.S)
	}
	return sb.String()
}

func parseParams(toks []Tok) []Param {
	var out []Param
	for _, p := range SplitArgs(toks) {
		if len(p) == 0 {
			continue
		}
		var par Param
		var ty []string
		words := p
		// last identifier is the name unless only a type is given
		for i, t := range words {
			if t.S == "indexed" {
				par.Indexed = true
				continue
			}
			if t.S == "memory" || t.S == "calldata" || t.S == "storage" || t.S == "payable" {
				continue
			}
			if i == len(words)-1 && t.Kind == 0 && len(ty) > 0 && words[i-1].S != "[" {
				par.Name = t.S
				continue
			}
			ty = append(ty, t.S)
		}
		par.Type = strings.Join(ty, "")
		out = append(out, par)
	}
	return out
}

// Parse reads and parses the file.
func Parse(path string) (*File, error) {
	b, err := os.ReadFile(path)
	if err != nil {
		return nil, err
	}
	f := &File{Path: path, Toks: Tokenize(string(b)), StateVars: map[string]string{}, Structs: map[string][]Param{}, Funcs: map[string]*Func{}, Events: map[string]*Event{}}
	t := f.Toks
	depth := 0
	contractDepth := -1
	for i := 0; i < len(t); i++ {
		switch t[i].S {
		case "{":
			depth++
			continue
		case "}":
			depth--
			if depth == contractDepth {
				contractDepth = -1
			}
			continue
		}
		switch {
		case t[i].S == "struct" && i+2 < len(t) && t[i+2].S == "{":
			end := match(t, i+2)
			var fields []Param
			body := t[i+3 : end]
			start := 0
			for j, x := range body {
				if x.S == ";" {
					fields = append(fields, parseParams(body[start:j])...)
					start = j + 1
				}
			}
			f.Structs[t[i+1].S] = fields
			i = end
		case (t[i].S == "contract" || t[i].S == "library") && i+1 < len(t):
			// find its opening brace
			j := i
			for j < len(t) && t[j].S != "{" {
				j++
			}
			if t[i].S == "contract" && contractDepth < 0 {
				contractDepth = depth
			}
			depth++
			i = j
		case t[i].S == "event" && i+2 < len(t) && t[i+2].S == "(":
			end := match(t, i+2)
			f.Events[t[i+1].S] = &Event{Name: t[i+1].S, Params: parseParams(t[i+3 : end]), Line: t[i].Line}
			i = end
		case (t[i].S == "function" || t[i].S == "constructor" || t[i].S == "receive") && contractDepth >= 0 && depth == contractDepth+1:
			name := t[i].S
			j := i + 1
			if t[i].S == "function" {
				name = t[j].S
				j++
			}
			if j >= len(t) || t[j].S != "(" {
				continue
			}
			pend := match(t, j)
			fn := &Func{Name: name, Params: parseParams(t[j+1 : pend]), Line: t[i].Line, Locals: map[string]string{}}
			// skip modifiers up to the body or ';'
			k := pend + 1
			for k < len(t) && t[k].S != "{" && t[k].S != ";" {
				if t[k].S == "(" {
					k = match(t, k)
				}
				k++
			}
			if k < len(t) && t[k].S == "{" {
				bend := match(t, k)
				fn.Body = t[k+1 : bend]
				fn.scanLocals()
				i = bend
			} else {
				i = k
			}
			f.Funcs[name] = fn
		case contractDepth >= 0 && depth == contractDepth+1 && t[i].Kind == 0 && isTypeStart(t[i].S):
			// state variable: TYPE [public|private|internal] NAME [= ...];
			j := i
			var ty []string
			for j < len(t) && t[j].S != ";" && t[j].S != "=" {
				j++
			}
			decl := t[i:j]
			if len(decl) >= 2 {
				name := decl[len(decl)-1].S
				for _, x := range decl[:len(decl)-1] {
					if x.S == "public" || x.S == "private" || x.S == "internal" || x.S == "constant" || x.S == "immutable" {
						continue
					}
					ty = append(ty, x.S)
				}
				f.StateVars[name] = strings.Join(ty, "")
			}
			for j < len(t) && t[j].S != ";" {
				if t[j].S == "(" || t[j].S == "{" || t[j].S == "[" {
					j = match(t, j)
				}
				j++
			}
			i = j
		}
	}
	return f, nil
}

func isTypeStart(s string) bool {
	switch {
	case strings.HasPrefix(s, "uint"), strings.HasPrefix(s, "int"), strings.HasPrefix(s, "bytes"), s == "address", s == "bool", s == "string", s == "mapping":
		return true
	}
	return false
}

func (fn *Func) scanLocals() {
	t := fn.Body
	for i := 0; i+2 < len(t); i++ {
		if t[i].Kind == 0 && isTypeStart(t[i].S) && (i == 0 || t[i-1].S == ";" || t[i-1].S == "{" || t[i-1].S == "}") {
			// TYPE [memory] NAME =
			j := i + 1
			ty := t[i].S
			for j < len(t) && (t[j].S == "[" || t[j].S == "]" || t[j].S == "memory") {
				if t[j].S != "memory" {
					ty += t[j].S
				}
				j++
			}
			if j+1 < len(t) && t[j].Kind == 0 && (t[j+1].S == "=" || t[j+1].S == ";") {
				fn.Locals[t[j].S] = ty
				if t[j+1].S == "=" {
					k := j + 2
					for k < len(t) && t[k].S != ";" {
						if t[k].S == "(" || t[k].S == "[" || t[k].S == "{" {
							k = match(t, k)
						}
						k++
					}
					if fn.Inits == nil {
						fn.Inits = map[string][]Tok{}
					}
					fn.Inits[t[j].S] = t[j+2 : k]
				}
			}
		}
	}
}

// Calls returns the argument token lists of every occurrence of the dotted call path
// (e.g. "abi.encode", "emit TransferToChainEvent", "safeTransferFrom") in the body.
func (fn *Func) Calls(path ...string) [][]Tok {
	var out [][]Tok
	t := fn.Body
	for i := 0; i < len(t); i++ {
		ok := true
		j := i
		for k, p := range path {
			if j >= len(t) || t[j].S != p {
				ok = false
				break
			}
			j++
			if k < len(path)-1 && j < len(t) && t[j].S == "." {
				j++
			}
		}
		if !ok {
			continue
		}
		// optional {value: X} call options
		if j < len(t) && t[j].S == "{" {
			j = match(t, j) + 1
		}
		if j < len(t) && t[j].S == "(" {
			end := match(t, j)
			out = append(out, t[j+1:end])
		}
	}
	return out
}

// CallOptions returns the token lists inside {...} call options of path (e.g. deposit{value: msg.value}()).
func (fn *Func) CallOptions(name string) [][]Tok {
	var out [][]Tok
	t := fn.Body
	for i := 0; i+1 < len(t); i++ {
		if t[i].S == name && t[i+1].S == "{" {
			end := match(t, i+1)
			out = append(out, t[i+2:end])
		}
	}
	return out
}

// TypeOf resolves the ABI type of an argument expression inside fn.
func (f *File) TypeOf(fn *Func, arg []Tok) string {
	if len(arg) == 0 {
		return "?"
	}
	if len(arg) == 1 {
		a := arg[0]
		if a.Kind == 1 && strings.HasPrefix(a.S, "0x") {
			if len(a.S) == 66 {
				return "bytes32"
			}
			return fmt.Sprintf("hex%d", (len(a.S)-2)/2)
		}
		for _, p := range fn.Params {
			if p.Name == a.S {
				return normType(p.Type)
			}
		}
		if ty, ok := fn.Locals[a.S]; ok {
			return normType(ty)
		}
		if ty, ok := f.StateVars[a.S]; ok {
			return normType(ty)
		}
		return "?" + a.S
	}
	// _args.field
	if len(arg) == 3 && arg[1].S == "." {
		for _, p := range fn.Params {
			if p.Name == arg[0].S {
				if fields, ok := f.Structs[p.Type]; ok {
					for _, fl := range fields {
						if fl.Name == arg[2].S {
							return normType(fl.Type)
						}
					}
				}
			}
		}
		if arg[0].S == "msg" && arg[2].S == "value" {
			return "uint256"
		}
		if arg[0].S == "msg" && arg[2].S == "sender" {
			return "address"
		}
	}
	return "?" + Text(arg)
}

func normType(t string) string {
	t = strings.ReplaceAll(t, "payable", "")
	if t == "uint" {
		return "uint256"
	}
	if strings.HasPrefix(t, "uint[") {
		return "uint256" + t[4:]
	}
	return t
}

// Signature renders the canonical event signature Name(type,...).
func (e *Event) Signature() string {
	var ts []string
	for _, p := range e.Params {
		ts = append(ts, normType(p.Type))
	}
	return e.Name + "(" + strings.Join(ts, ",") + ")"
}
