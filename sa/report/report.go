// Package report collects obligations, matches them against the committed
// known-findings file and writes the evidence and violation files.
package report

import (
	"encoding/json"
	"fmt"
	"os"
	"path/filepath"
	"regexp"
	"sort"
	"strings"
	"time"
)

// Status of one obligation.
const (
	OK        = "ok"
	Violation = "violation"
	Known     = "known-finding"
	Advisory  = "advisory"
)

// Obligation is one decided instance of a rule.
type Obligation struct {
	Rule   string   `json:"rule"`
	Key    string   `json:"key"`
	Where  string   `json:"where"`
	Detail string   `json:"detail,omitempty"`
	Status string   `json:"status"`
	Path   []string `json:"path,omitempty"`
}

// Finding is one entry of known_findings.json.
type Finding struct {
	Property string `json:"property"`
	Rule     string `json:"rule"`
	Key      string `json:"key"`
	Commit   string `json:"commit,omitempty"`
	What     string `json:"what"`
}

// KnownFile is the committed known-findings file.
type KnownFile struct {
	Open  []Finding `json:"open"`
	Fixed []Finding `json:"fixed"`
}

// Report accumulates the result of checking one property.
type Report struct {
	Property    string
	Tier        string
	Seed        int
	Dir         string // /verif
	Explanation string
	NotDecided  []string
	Assumptions []string
	Obls        []Obligation
	Counts      map[string]int // rule -> instances seen
	Minimum     map[string]int // rule -> hand-confirmed minimum
	Analysed    map[string]int
	Extra       map[string]interface{}
	start       time.Time
	known       KnownFile
	InfraErr    string
}

// New starts a report.
func New(dir, property, tier string, seed int) *Report {
	r := &Report{Property: property, Tier: tier, Seed: seed, Dir: dir, Counts: map[string]int{}, Minimum: map[string]int{},
		Analysed: map[string]int{}, Extra: map[string]interface{}{}, start: time.Now()}
	if b, err := os.ReadFile(filepath.Join(dir, "known_findings.json")); err == nil {
		if err := json.Unmarshal(b, &r.known); err != nil {
			r.InfraErr = "known_findings.json: " + err.Error()
		}
	}
	return r
}

func (r *Report) add(rule, key, where, detail, status string, path []string) {
	r.Obls = append(r.Obls, Obligation{Rule: rule, Key: key, Where: where, Detail: detail, Status: status, Path: path})
	if status != Advisory {
		r.Counts[rule]++
	}
}

// Reset drops everything recorded so far (the check is run again with a refined program view).
func (r *Report) Reset() {
	r.Obls = nil
	r.Counts = map[string]int{}
	r.Minimum = map[string]int{}
}

// Ok records a discharged obligation.
func (r *Report) Ok(rule, key, where, detail string) { r.add(rule, key, where, detail, OK, nil) }

// Bad records a violated obligation.
func (r *Report) Bad(rule, key, where, detail string, path ...string) {
	r.add(rule, key, where, detail, Violation, path)
}

// Undecided records an obligation the analysis can name but not decide.
func (r *Report) Undecided(rule, key, where, detail string) {
	r.add(rule+".undecided", key, where, detail, Violation, nil)
}

// Note records evidence-only information.
func (r *Report) Note(rule, key, where, detail string) {
	r.add(rule, key, where, detail, Advisory, nil)
}

// Check is Ok or Bad depending on cond.
func (r *Report) Check(cond bool, rule, key, where, okDetail, badDetail string) bool {
	if cond {
		r.Ok(rule, key, where, okDetail)
	} else {
		r.Bad(rule, key, where, badDetail)
	}
	return cond
}

// Min declares the hand-confirmed minimum instance count of a rule.
func (r *Report) Min(rule string, n int) { r.Minimum[rule] = n }

var unsafeRe = regexp.MustCompile(`[^A-Za-z0-9_.\-]+`)

// Finish prints the verdict lines, writes evidence and returns the exit code.
func (r *Report) Finish() int {
	// vacuity: a rule that matched fewer instances than confirmed by hand fails
	var rules []string
	for rule := range r.Minimum {
		rules = append(rules, rule)
	}
	sort.Strings(rules)
	for _, rule := range rules {
		if r.Counts[rule] < r.Minimum[rule] {
			r.Obls = append(r.Obls, Obligation{Rule: rule + ".undecided", Key: "instances", Where: "-",
				Detail: fmt.Sprintf("rule matched %d instance(s), hand-confirmed minimum is %d: the anchor no longer resolves", r.Counts[rule], r.Minimum[rule]),
				Status: Violation})
		}
	}
	// known findings
	open := map[string]Finding{}
	for _, f := range r.known.Open {
		if f.Property == r.Property {
			open[f.Rule+"\x00"+f.Key] = f
		}
	}
	nViol, nKnown, nOK, nAdv := 0, 0, 0, 0
	vdir := filepath.Join(r.Dir, "evidence", "violations")
	os.MkdirAll(vdir, 0o755)
	// remove stale violation files of this property
	if ents, err := os.ReadDir(vdir); err == nil {
		for _, e := range ents {
			if strings.HasPrefix(e.Name(), r.Property+"-") {
				os.Remove(filepath.Join(vdir, e.Name()))
			}
		}
	}
	seenKnown := map[string]bool{}
	for i := range r.Obls {
		o := &r.Obls[i]
		switch o.Status {
		case OK:
			nOK++
		case Advisory:
			nAdv++
		case Violation:
			if f, ok := open[o.Rule+"\x00"+o.Key]; ok {
				o.Status = Known
				nKnown++
				if !seenKnown[o.Rule+"\x00"+o.Key] {
					seenKnown[o.Rule+"\x00"+o.Key] = true
					fmt.Printf("KNOWN-FINDING: property=%s %s %s at %s: %s\n", r.Property, o.Rule, o.Key, o.Where, f.What)
				}
				continue
			}
			nViol++
			name := unsafeRe.ReplaceAllString(fmt.Sprintf("%s-%s-%s", r.Property, o.Rule, o.Key), "_")
			if len(name) > 150 {
				name = name[:150]
			}
			path := filepath.Join(vdir, name+".json")
			// several violations with the same rule+key: number them
			for n := 2; ; n++ {
				if _, err := os.Stat(path); err != nil {
					break
				}
				path = filepath.Join(vdir, fmt.Sprintf("%s-%d.json", name, n))
			}
			b, _ := json.MarshalIndent(map[string]interface{}{"property": r.Property, "rule": o.Rule, "key": o.Key, "where": o.Where, "detail": o.Detail, "path": o.Path, "tier": r.Tier}, "", " ")
			os.WriteFile(path, b, 0o644)
			fmt.Printf("%s %s %s: %s\n", o.Where, o.Rule, o.Key, o.Detail)
			for _, h := range o.Path {
				fmt.Printf("    %s\n", h)
			}
			fmt.Printf("VIOLATION property=%s replay=%s\n", r.Property, path)
		}
	}
	// per-rule summary lines
	per := map[string][4]int{}
	for _, o := range r.Obls {
		c := per[o.Rule]
		switch o.Status {
		case OK:
			c[0]++
		case Violation:
			c[1]++
		case Known:
			c[2]++
		case Advisory:
			c[3]++
		}
		per[o.Rule] = c
	}
	var prs []string
	for k := range per {
		prs = append(prs, k)
	}
	sort.Strings(prs)
	for _, k := range prs {
		c := per[k]
		fmt.Printf("  %-34s ok=%d violation=%d known=%d advisory=%d (min %d)\n", k, c[0], c[1], c[2], c[3], r.Minimum[k])
	}
	if r.InfraErr != "" {
		fmt.Fprintf(os.Stderr, "mhubsa: infrastructure error: %s\n", r.InfraErr)
	}
	r.writeEvidence(nOK, nViol, nKnown, nAdv)
	fmt.Printf("%s %s: obligations=%d discharged=%d violations=%d known-findings=%d advisory=%d wall=%.1fs\n",
		r.Property, r.Tier, nOK+nViol+nKnown, nOK, nViol, nKnown, nAdv, time.Since(r.start).Seconds())
	if r.InfraErr != "" {
		return 2
	}
	if nViol > 0 {
		return 1
	}
	return 0
}

func (r *Report) writeEvidence(nOK, nViol, nKnown, nAdv int) {
	samples := []interface{}{}
	// all violations/known first, then a bounded number of ok obligations per rule
	perRule := map[string]int{}
	for _, o := range r.Obls {
		if o.Status == OK || o.Status == Advisory {
			perRule[o.Rule]++
			if perRule[o.Rule] > 12 {
				continue
			}
		}
		samples = append(samples, o)
	}
	instances := map[string]interface{}{}
	for rule, n := range r.Counts {
		instances[rule] = map[string]int{"found": n, "confirmed_minimum": r.Minimum[rule]}
	}
	expl := r.Explanation
	if len(r.NotDecided) > 0 {
		expl += " NOT DECIDED: " + strings.Join(r.NotDecided, "; ") + "."
	}
	cov := map[string]interface{}{
		"explanation":    expl,
		"obligations":    nOK + nViol + nKnown,
		"discharged":     nOK,
		"known_findings": nKnown,
		"advisory_notes": nAdv,
		"rule_instances": instances,
		"analysed":       r.Analysed,
		"samples":        samples,
		"checker_cmd":    fmt.Sprintf("/verif/bin/mhubsa -property %s -tier %s", r.Property, r.Tier),
		"trusted_base":   r.Assumptions,
		"exhaustive":     false,
	}
	for k, v := range r.Extra {
		cov[k] = v
	}
	if r.InfraErr != "" {
		cov["infrastructure_error"] = r.InfraErr
		cov["discharged"] = 0
	}
	ev := map[string]interface{}{
		"property_id": r.Property,
		"tier":        r.Tier,
		"seed":        r.Seed,
		"level":       "other",
		"coverage":    cov,
		"assumptions": r.Assumptions,
		"wall_s":      time.Since(r.start).Seconds(),
		"violations":  nViol,
	}
	os.MkdirAll(filepath.Join(r.Dir, "evidence"), 0o755)
	b, _ := json.MarshalIndent(ev, "", " ")
	os.WriteFile(filepath.Join(r.Dir, "evidence", r.Property+".json"), b, 0o644)
}

// Pending counts what Finish would report as violations: unlisted violated obligations, rules below their
// confirmed minimum, and an infrastructure error.
func (r *Report) Pending() int {
	n := 0
	for _, o := range r.Obls {
		if o.Status == Violation && !r.IsOpenKnown(o.Rule, o.Key) {
			n++
		}
	}
	for rule, min := range r.Minimum {
		if r.Counts[rule] < min {
			n++
		}
	}
	if r.InfraErr != "" {
		n += 1000
	}
	return n
}

// IsOpenKnown reports whether (rule,key) is listed as an open finding of this report's property.
func (r *Report) IsOpenKnown(rule, key string) bool {
	for _, f := range r.known.Open {
		if f.Property == r.Property && f.Rule == rule && f.Key == key {
			return true
		}
	}
	return false
}
