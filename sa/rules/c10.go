package rules

import (
	"go/token"
	"go/types"
	"regexp"
	"strconv"
	"strings"

	"golang.org/x/tools/go/ssa"

	"mhubsa/ana"
)

func init() {
	register("C10", Meta{
		Explanation: "Structural necessary conditions of well-formed batches: (non-empty) in the batch-build function the store of the new BatchTx and the nonce / sequence bumps before it are cut off from the entry by 'len(selected) > 0'; (cap) the selection callback stops at len(selected) == max, the iterate helper stops when the callback says so, and every caller passes a constant <= 100; (own-token) the per-token pool iteration prefix SendToExternalKey|chain|tokenId ends in a variable-length string that is followed by fee(32)|id(8) in the full key, so the callback invocation must be guarded by equality of the decoded entry's token id with the requested id (a decimal Minter coin id can be a prefix of another); (fee-order) the fee component of the pool key is fixed-width big-endian (FillBytes on 32 bytes) directly after the token id and the per-token iteration is a reverse iterator; (counters) LastOutgoingBatchNonceKey and OutgoingSequence each have a single +1 increment function, the batch's BatchNonce is the increment's result and every OutgoingTxKey write is preceded by SetSequence(increment()).",
		NotDecided:  []string{"'highest-fee first' as an ordering fact beyond the key schema and iterator direction", "gap-freeness over histories beyond single-increment-per-store (a bump without a store is excluded by non-empty)"},
		Assumptions: commonAssumptions,
	}, checkC10)
}

func checkC10(c *Ctx) {
	p, r := c.P, c.R
	roots := c.Roots()
	reach := c.ConsensusReach()
	live := c.LiveReach()
	r.Min("C10.non-empty", 1)
	r.Min("C10.cap", 3)
	r.Min("C10.own-token", 2)
	r.Min("C10.fee-order", 2)
	r.Min("C10.counters", 4)
	// the batch-nonce counter survives a restart: the genesis clauses that restore it (C15)
	c.includeKeys("counters", "C15", rulesIn("C15.faithful-import", "C15.field-roundtrip", "C15.prefix-export"), func(rule, key string) bool {
		return strings.Contains(key, "LastOutgoingBatchNonceKey") || strings.Contains(key, "LastOutgoingBatchTxNonce")
	})

	// batch-build functions: contain a BatchTx literal and delete pool entries
	var builds []*ssa.Function
	for _, f := range c.SemanticFuncs(reach) {
		if len(allocsOfType(f, "BatchTx")) > 0 && hasEff(c.Effects(f), "store", "Delete", "SendToExternalKey") {
			builds = append(builds, f)
		}
	}
	if len(builds) == 0 {
		r.Undecided("C10.non-empty", "role", "-", "no batch-build function found")
	}
	for _, f := range builds {
		var batchAlloc, txVar *ssa.Alloc
		for _, a := range allocsOfType(f, "BatchTx") {
			for _, v := range ana.FieldStores(a)["Transactions"] {
				if ld, ok := v.(*ssa.UnOp); ok && ld.Op == token.MUL {
					if al, ok := ld.X.(*ssa.Alloc); ok {
						txVar, batchAlloc = al, a
					}
				}
			}
		}
		// the batch is filed under the token id it was asked for, unchanged: the selection, the transfers' own
		// token and the lookup on execution all use that string as it is
		for _, a := range allocsOfType(f, "BatchTx") {
			for _, v := range ana.FieldStores(a)["ExternalTokenId"] {
				l := p.Leaves(v, ana.PVOpt{})
				isPar := false
				for lab := range l.Leaves {
					if strings.HasPrefix(lab, "param:"+fname(f)+"#") {
						isPar = true
					}
				}
				r.Check(isPar && len(l.Ops) == 0 && len(l.Leaves) == 1, "C10.own-token", "header:"+fname(f), c.pos(a), "the batch's ExternalTokenId is the requested token id, unchanged",
					"the batch header's ExternalTokenId is not the requested token id as given ("+strings.Join(l.List(), ",")+" through "+strings.Join(l.OpList(), ",")+"): a transformed id no longer equals its transfers' token or the registered token (decimal Minter ids are not hex addresses)")
			}
		}
		if txVar == nil {
			r.Undecided("C10.non-empty", fname(f), p.Pos(f.Pos()), "no BatchTx literal fed from a local slice")
			continue
		}
		// ---- non-empty ----------------------------------------------------------
		nonEmpty := lenAtom(txVar, true)
		var guarded []ssa.Instruction
		ana.Calls(f, func(site ssa.CallInstruction, d ana.CalleeDesc) {
			for _, callee := range p.Callees(site) {
				es := c.Effects(callee)
				if hasEff(es, "store", "Set", "OutgoingTxKey") || hasEff(es, "store", "Set", "LastOutgoingBatchNonceKey") || c.isIncrementOf(callee, "LastOutgoingBatchNonceKey") {
					guarded = append(guarded, site.(ssa.Instruction))
				}
			}
		})
		okNE := len(guarded) >= 2
		bad := ""
		for _, g := range guarded {
			if !ana.Guarded(g, nonEmpty) {
				okNE = false
				bad = c.pos(g)
			}
		}
		r.Check(okNE, "C10.non-empty", fname(f), c.pos(batchAlloc), "nonce bump and batch store are guarded by len(selected) > 0",
			"a batch is stored (and a nonce and sequence number consumed) without testing that any transfer was selected: an empty batch is offered for signing (unguarded at "+bad+")")

		// ---- cap ------------------------------------------------------------------
		for _, an := range f.AnonFuncs {
			// closures that append to txVar
			captures := false
			if mc := p.ClosureSite(an); mc != nil {
				for _, b := range mc.Bindings {
					if b == ssa.Value(txVar) {
						captures = true
					}
				}
			}
			if !captures {
				continue
			}
			ana.Instrs(an, func(in ssa.Instruction) {
				ret, ok := in.(*ssa.Return)
				if !ok || len(ret.Results) != 1 {
					return
				}
				ex := p.Expr(ret.Results[0], 0)
				m := regexp.MustCompile(`^\(len\(local:` + regexp.QuoteMeta(txVar.Comment) + `\)(==|>=)\$p(\d+)\)$`).FindStringSubmatch(ex)
				if m == nil {
					r.Bad("C10.cap", "stop:"+fname(an), c.pos(ret), "the selection callback does not stop at len(selected) == max: "+ex)
					return
				}
				r.Ok("C10.cap", "stop:"+fname(an), c.pos(ret), "selection stops at "+ex)
				idx, _ := strconv.Atoi(m[2])
				// every caller passes a constant <= 100 for that parameter
				for _, e := range p.In[f] {
					if !live[e.Caller] {
						continue
					}
					args := e.Site.Common().Args
					okC := false
					val := "?"
					if idx < len(args) {
						if k, ok := args[idx].(*ssa.Const); ok && k.Value != nil {
							val = k.Value.ExactString()
							if n, err := strconv.ParseInt(val, 10, 64); err == nil && n >= 1 && n <= 100 {
								okC = true
							}
						}
					}
					r.Check(okC, "C10.cap", "max:"+fname(e.Caller), c.pos(e.Site), "caller passes the constant "+val+" <= 100", "a caller of the batch builder passes a batch size that is not a constant in 1..100: "+val)
				}
			})
		}
	}

	// ---- own-token / fee-order ----------------------------------------------------------
	// per-token selection helpers: a string parameter (the token id) and a callback over pool entries
	for _, f := range sortedFuncs(live) {
		if f.Parent() != nil || p.L.IsGenerated(f.Pos()) {
			continue
		}
		var tokPar, cbPar *ssa.Parameter
		for _, par := range f.Params {
			if par.Type().String() == "string" {
				tokPar = par
			}
			if sig, ok := par.Type().Underlying().(*types.Signature); ok && sig.Params().Len() == 1 && sig.Results().Len() == 1 {
				if n := ana.NamedOf(sig.Params().At(0).Type()); n != nil && n.Obj().Name() == "SendToExternal" {
					cbPar = par
				}
			}
		}
		if tokPar == nil || cbPar == nil {
			continue
		}
		derivesTok := func(v ssa.Value) bool {
			if v == ssa.Value(tokPar) {
				return true
			}
			l := p.Leaves(v, ana.PVOpt{})
			for lab, vals := range l.Vals {
				if strings.HasPrefix(lab, "param:") {
					for _, x := range vals {
						if x == ssa.Value(tokPar) {
							return true
						}
					}
				}
			}
			return false
		}
		eq := ana.AtomCmp(func(o token.Token, x, y ssa.Value) (bool, bool) {
			if o != token.EQL && o != token.NEQ {
				return false, false
			}
			for _, pr := range [][2]ssa.Value{{x, y}, {y, x}} {
				la := p.Leaves(pr[0], ana.PVOpt{})
				if (la.HasField("SendToExternal.Token.ExternalTokenId") || la.HasField("SendToExternal.Fee.ExternalTokenId")) && derivesTok(pr[1]) {
					return o == token.EQL, true
				}
			}
			return false, false
		})
		// callback invocations in f and its closures
		type cbSite struct {
			fn   *ssa.Function
			call *ssa.Call
		}
		var sites []cbSite
		var visit func(g *ssa.Function)
		visit = func(g *ssa.Function) {
			ana.Instrs(g, func(in ssa.Instruction) {
				call, ok := in.(*ssa.Call)
				if !ok {
					return
				}
				v := call.Call.Value
				if v == ssa.Value(cbPar) {
					sites = append(sites, cbSite{g, call})
					return
				}
				// captured by a closure: *freevar or freevar
				if ld, ok := v.(*ssa.UnOp); ok {
					v = ld.X
				}
				if fv, ok := v.(*ssa.FreeVar); ok {
					if mc := p.ClosureSite(g); mc != nil {
						for i, x := range g.FreeVars {
							if x == fv && i < len(mc.Bindings) {
								b := mc.Bindings[i]
								if b == ssa.Value(cbPar) {
									sites = append(sites, cbSite{g, call})
								} else if a, ok := b.(*ssa.Alloc); ok {
									for _, st := range wholeStores(a) {
										if st.Val == ssa.Value(cbPar) {
											sites = append(sites, cbSite{g, call})
										}
									}
								}
							}
						}
					}
				}
			})
			for _, an := range g.AnonFuncs {
				visit(an)
			}
		}
		visit(f)
		if len(sites) == 0 {
			continue
		}
		okF := true
		why := ""
		for _, s := range sites {
			if !ana.Guarded(s.call, eq) {
				okF = false
				why = "the callback is invoked at " + c.pos(s.call) + " without testing that the entry's token id equals the requested one"
				continue
			}
			if s.fn != f {
				// closure form: where the token differs the closure must answer "continue" (false)
				ana.Instrs(s.fn, func(in ssa.Instruction) {
					ret, ok := in.(*ssa.Return)
					if !ok || len(ret.Results) != 1 {
						return
					}
					check := func(v ssa.Value, at ssa.Instruction) {
						if ana.Guarded(at, eq) {
							return
						}
						if !isConstVal(v, "false") {
							okF = false
							why = "for an entry of another token the selection stops (or answers non-false) at " + c.pos(ret) + " instead of skipping it"
						}
					}
					if ph, ok := ret.Results[0].(*ssa.Phi); ok && ph.Block() == ret.Block() {
						for i, e := range ph.Edges {
							pred := ph.Block().Preds[i]
							check(e, pred.Instrs[len(pred.Instrs)-1])
						}
					} else {
						check(ret.Results[0], ret)
					}
				})
			}
		}
		r.Check(okF, "C10.own-token", fname(f), p.Pos(f.Pos()), "entries whose token id differs from the requested one are skipped before the callback",
			"the per-token pool selection does not restrict itself to the requested token: "+why+" (the pool key's token id is a variable-length string followed by fee|id, so decimal Minter coin ids that are prefixes of each other share a key prefix)")
		// fee-order: the iteration the helper performs is a reverse iteration of the pool
		dirOK := false
		for g := range p.ReachCS(f) {
			for _, op := range p.StoreOps(g) {
				if op.IsIter() && c.prefixName(op) == "SendToExternalKey" && op.Op == "ReverseIterator" {
					dirOK = true
				}
				if op.IsIter() && c.prefixName(op) == "SendToExternalKey" && op.Op == "Iterator" {
					dirOK = false
				}
			}
		}
		r.Check(dirOK, "C10.fee-order", "direction:"+fname(f), p.Pos(f.Pos()), "per-token selection walks the pool with a reverse iterator (highest key, i.e. highest fee, first)", "the per-token pool selection does not use a reverse iterator: the lowest-fee transfers would be batched first")
	}
	// the pool key: 0x07|chain|str|fill32|u64, with the 32-byte buffer
	nKey := 0
	for _, f := range sortedFuncs(live) {
		for _, op := range p.StoreOps(f) {
			if c.prefixName(op) != "SendToExternalKey" || !op.IsWrite() {
				continue
			}
			nKey++
			kinds := strings.Join(op.Key.Kinds(), "|")
			ok := kinds == "0x07|chain|str|fill32|u64"
			// buffer width
			for _, pt := range op.Key.Parts {
				if pt.Kind == "fill32" {
					// the FillBytes call: its buffer must be make([]byte, 32)
					ok = ok && fillWidth(pt.Val) == 32
				}
			}
			r.Check(ok, "C10.fee-order", "key:"+fname(f)+":"+op.Op, c.pos(op.Site), "pool key = prefix|chain|tokenId|fee(32 bytes big-endian)|id(8)", "the pool key is "+kinds+", expected prefix|chain|tokenId|fee(32)|id(8) with a 32-byte fee")
		}
	}
	if nKey == 0 {
		r.Undecided("C10.fee-order", "key", "-", "no pool key writer found")
	}

	// ---- counters -------------------------------------------------------------------------
	c.checkRecoverAtomic("C10.counters")
	c.checkCounter("C10.counters", "LastOutgoingBatchNonceKey", live, roots, 0)
	c.checkCounter("C10.counters", "OutgoingSequence", live, roots, 0)
	for _, f := range builds {
		ok := false
		for _, a := range allocsOfType(f, "BatchTx") {
			for _, v := range ana.FieldStores(a)["BatchNonce"] {
				if c.isIncValue(v, f, "LastOutgoingBatchNonceKey", live) {
					ok = true
				}
			}
		}
		r.Check(ok, "C10.counters", "batch-nonce:"+fname(f), p.Pos(f.Pos()), "BatchNonce is the result of the single increment function", "the new batch's nonce is not the result of the batch-nonce increment")
	}
	for f, es := range c.Writers(live, "Set", "OutgoingTxKey") {
		for _, e := range es {
			// SetSequence(increment()) precedes the write
			ok := false
			ana.Instrs(f, func(in ssa.Instruction) {
				call, isC := in.(ssa.CallInstruction)
				if !isC {
					return
				}
				d, _ := ana.Describe(call.Common())
				if d.Name != "SetSequence" {
					return
				}
				for _, a := range call.Common().Args {
					if c.isIncValue(a, f, "OutgoingSequence", live) {
						cin := call.(ssa.Instruction)
						if cin.Block() == e.At.Block() && ana.InstrIndex(cin) < ana.InstrIndex(e.At) || cin.Block().Dominates(e.At.Block()) {
							ok = true
						}
					}
				}
			})
			r.Check(ok, "C10.counters", "sequence:"+fname(f), c.pos(e.At), "every outgoing tx is stamped with incrementOutgoingSequence() before it is stored", "an outgoing tx is stored without being stamped with the next outgoing sequence number")
		}
	}
}

// fillWidth returns the constant length of the buffer passed to FillBytes for a fill32 part.
func fillWidth(recv ssa.Value) int64 {
	// recv is the *big.Int receiver; find the FillBytes call using it
	if recv == nil {
		return -1
	}
	for _, ref := range *recv.Referrers() {
		call, ok := ref.(*ssa.Call)
		if !ok {
			continue
		}
		d, _ := ana.Describe(&call.Call)
		if d.Name != "FillBytes" || len(call.Call.Args) != 2 {
			continue
		}
		if sl, ok := call.Call.Args[1].(*ssa.Slice); ok {
			if a, ok := sl.X.(*ssa.Alloc); ok {
				if pt, ok := a.Type().Underlying().(*types.Pointer); ok {
					if at, ok := pt.Elem().Underlying().(*types.Array); ok {
						return at.Len()
					}
				}
			}
		}
		if ms, ok := call.Call.Args[1].(*ssa.MakeSlice); ok {
			if k, ok := ms.Len.(*ssa.Const); ok && k.Value != nil {
				n, _ := strconv.ParseInt(k.Value.ExactString(), 10, 64)
				return n
			}
		}
	}
	return -1
}

// lenAtom is the condition len(*v) > 0 (want) or len(*v) == 0 (!want) in its equivalent spellings.
func lenAtom(txVar *ssa.Alloc, want bool) ana.Atom {
	return ana.AtomCmp(func(op token.Token, x, y ssa.Value) (bool, bool) {
		isLen := func(v ssa.Value) bool {
			call, ok := v.(*ssa.Call)
			if !ok {
				return false
			}
			if b, ok := call.Call.Value.(*ssa.Builtin); !ok || b.Name() != "len" {
				return false
			}
			return loadedAlloc(call.Call.Args[0]) == txVar
		}
		o := op
		var k ssa.Value
		switch {
		case isLen(x):
			k = y
		case isLen(y):
			k = x
			o = ana.FlipOp(op)
		default:
			return false, false
		}
		kc, ok := k.(*ssa.Const)
		if !ok || kc.Value == nil {
			return false, false
		}
		switch kc.Value.ExactString() {
		case "0":
			switch o {
			case token.GTR, token.NEQ:
				return want, true
			case token.EQL, token.LEQ:
				return !want, true
			}
		case "1":
			switch o {
			case token.GEQ:
				return want, true
			case token.LSS:
				return !want, true
			}
		}
		return false, false
	})
}
