package rules

import (
	"go/types"
	"go/token"
	"regexp"
	"sort"
	"strings"

	"golang.org/x/tools/go/ssa"

	"mhubsa/ana"
)

func init() {
	register("C04", Meta{
		Explanation: "Structural necessary conditions of 'an outgoing transfer is in exactly one place': (pool-writers) the only code that writes or deletes SendToExternalKey entries plays one of the roles pool-insert (burns first), batch-cancel (re-indexes a batch it deletes), genesis import, batch-build (stores the batch it moved the entry into) or refund (mints back); OutgoingTxKey has one writer which stamps the sequence; (batch-build) in the selection callback every element appended to the slice that becomes BatchTx.Transactions is deleted from the pool in the same activation with a key built from that same element's Id and Fee, nothing is deleted without being appended, and the batch is stored on every path after the iteration; (batch-cancel) every element of batch.Transactions is re-indexed and then exactly that batch's index is deleted; (batch-executed) the executed batch's index is deleted on every path after it was found; (refund-delete) the refund deletes the pool entry it refunds on every success path; (unique-id) LastSendToExternalIDKey has a single +1 increment function whose result becomes the entry's Id; (status-final) the one writer of TxStatusKey forces REFUNDED to stay REFUNDED; (key-agreement) every pool key is built from the Id and Fee of one and the same entry.",
		NotDecided:  []string{"absence of duplicates across cancel-during-batching histories beyond what the pairings imply", "ids after a genesis import (see C15)", "that the reported status follows the lifecycle in every history"},
		Assumptions: commonAssumptions,
	}, checkC04)
}

// rootAndPath returns the root value and field path a loaded value comes from.
func rootAndPath(v ssa.Value) (ssa.Value, string) {
	for i := 0; i < 4; i++ {
		switch x := v.(type) {
		case *ssa.UnOp:
			if x.Op == token.MUL {
				if fa, ok := x.X.(*ssa.FieldAddr); ok {
					r, p := fieldRoot(fa)
					return r, p
				}
				return x.X, ""
			}
		case *ssa.Field:
			r, p := fieldRoot(x)
			return r, p
		case *ssa.ChangeType:
			v = x.X
			continue
		case *ssa.Convert:
			v = x.X
			continue
		}
		break
	}
	return v, ""
}

func fieldRoot(v ssa.Value) (ssa.Value, string) {
	var path []string
	for {
		switch x := v.(type) {
		case *ssa.FieldAddr:
			if st := structOf(x.X.Type()); st != nil {
				path = append([]string{st.Field(x.Field).Name()}, path...)
			}
			v = x.X
			continue
		case *ssa.Field:
			if st := structOf(x.X.Type()); st != nil {
				path = append([]string{st.Field(x.Field).Name()}, path...)
			}
			v = x.X
			continue
		case *ssa.UnOp:
			if x.Op == token.MUL {
				if fa, ok := x.X.(*ssa.FieldAddr); ok {
					v = fa
					continue
				}
			}
		}
		return v, strings.Join(path, ".")
	}
}

func checkC04(c *Ctx) {
	c.checkKeyMakers("C04", 6)
	p := c.P
	r := c.R
	reach := c.LiveReach()
	roots := c.Roots()

	// pool, batches and their counters survive a restart (the genesis clauses of C15 about them)
	// a batch nonce is consumed only together with a stored batch: the Minter side numbers executed batches by
	// counting them, so a gap makes every later execution report name the wrong batch (C10's clauses)
	c.include("batch-build", "C10", rulesIn("C10.non-empty", "C10.counters"))
	// an observed execution withdraws the older batches of the same token only (C13): a batch of another
	// token that is put back while the contract can still execute it pays its transfers twice
	c.include("batch-executed", "C13", rulesIn("C13.older-same-token", "C13.timeout-guard"))
	c.includeKeys("genesis", "C15", rulesIn("C15.faithful-import", "C15.field-roundtrip", "C15.prefix-export"), func(rule, key string) bool {
		for _, k := range []string{"SendToExternalKey", "UnbatchedSendToExternalTxs", "LastOutgoingBatchNonceKey", "LastOutgoingBatchTxNonce", "LastSendToExternalIDKey", "OutgoingTxKey", "OutgoingTxs"} {
			if strings.Contains(key, k) {
				return true
			}
		}
		return false
	})

	c.checkChainScoped("C04.key-shape", func(pn string) bool { return pn != "LastExternalBlockHeightKey" })
	r.Min("C04.value-semantics", 1)
	c.checkValueSemantics("C04.value-semantics")

	// ---- C04.pool-writers -------------------------------------------------
	r.Min("C04.pool-writers", 6)
	sets := c.Writers(reach, "Set", "SendToExternalKey")
	dels := c.Writers(reach, "Delete", "SendToExternalKey")
	var insertFns, cancelFns, buildFns, refundFns []*ssa.Function
	for _, f := range sortedKeys(sets) {
		effs := c.Effects(f)
		switch {
		case c.isGenesisImport(f):
			r.Ok("C04.pool-writers", "set:"+fname(f), p.Pos(f.Pos()), "role genesis-import")
		case hasEff(effs, "bank", "BurnCoins", ""):
			insertFns = append(insertFns, f)
			r.Ok("C04.pool-writers", "set:"+fname(f), p.Pos(f.Pos()), "role pool-insert (burns before recording)")
		case hasEff(effs, "store", "Delete", "OutgoingTxKey"):
			cancelFns = append(cancelFns, f)
			r.Ok("C04.pool-writers", "set:"+fname(f), p.Pos(f.Pos()), "role batch-cancel (deletes an outgoing tx)")
		default:
			r.Bad("C04.pool-writers", "set:"+fname(f), c.pos(sets[f][0].At), "writes a SendToExternalKey entry but plays none of the roles pool-insert / batch-cancel / genesis-import")
		}
	}
	trans := func(f *ssa.Function, kind, op, prefix string) bool {
		for g := range p.Reach(f) {
			if hasEff(c.Effects(ana.Outermost(g)), kind, op, prefix) {
				return true
			}
		}
		return false
	}
	for _, f := range sortedKeys(dels) {
		effs := c.Effects(f)
		switch {
		case hasEff(effs, "bank", "MintCoins", ""):
			refundFns = append(refundFns, f)
			r.Ok("C04.pool-writers", "delete:"+fname(f), p.Pos(f.Pos()), "role refund (mints back)")
		case trans(f, "store", "Set", "OutgoingTxKey"):
			buildFns = append(buildFns, f)
			r.Ok("C04.pool-writers", "delete:"+fname(f), p.Pos(f.Pos()), "role batch-build (stores an outgoing tx)")
		default:
			r.Bad("C04.pool-writers", "delete:"+fname(f), c.pos(dels[f][0].At), "deletes a SendToExternalKey entry but neither refunds it nor stores a batch")
		}
	}
	otxSets := c.Writers(reach, "Set", "OutgoingTxKey")
	for _, f := range sortedKeys(otxSets) {
		// the single writer must stamp the sequence before storing
		okSeq := false
		ana.Calls(f, func(site ssa.CallInstruction, d ana.CalleeDesc) {
			if d.Name == "SetSequence" {
				okSeq = true
			}
		})
		r.Check(okSeq && len(otxSets) == 1, "C04.pool-writers", "otx-set:"+fname(f), p.Pos(f.Pos()),
			"single OutgoingTxKey writer, stamps the sequence", sprintf("OutgoingTxKey written by %d functions or without SetSequence", len(otxSets)))
	}

	// ---- C04.key-agreement --------------------------------------------------
	// every pool key (Set and Delete) is MakeSendToExternalKey(chain, X.Id, X.Fee) for one X
	r.Min("C04.key-agreement", 3)
	for _, f := range sortedFuncs(reach) {
		for _, op := range p.StoreOps(f) {
			if c.prefixName(op) != "SendToExternalKey" || !op.IsWrite() {
				continue
			}
			// the u64 and fill32 parts carry the values
			var idP, feeP, chainP *ana.Part
			for k := range op.Key.Parts {
				pt := &op.Key.Parts[k]
				switch pt.Kind {
				case "u64":
					idP = pt
				case "fill32":
					feeP = pt
				case "chain":
					chainP = pt
				}
			}
			if idP == nil || feeP == nil {
				r.Undecided("C04.key-agreement", fname(f)+":"+op.Op, c.pos(op.Site), "pool key shape not recognised: "+op.Key.String())
				continue
			}
			okAll := true
			n := 0
			detail := ""
			check := func(outer ssa.CallInstruction, where string) {
				n++
				il := p.PartLeaves(*idP, outer, ana.PVOpt{})
				fl := p.PartLeaves(*feeP, outer, ana.PVOpt{})
				if fl.HasOp("Keeper.ConvertFromExternalValue") || fl.HasOp("Keeper.ConvertToExternalValue") && op.Op == "Delete" {
					okAll = false
					detail = sprintf("at %s: the fee component of the key is a converted amount, the entry is stored under its external-unit fee", where)
				}
				fromEntry := func(il, fl *ana.Prov) bool {
					return il.HasField("SendToExternal.Id") && fl.HasField("SendToExternal.Fee.Amount") && !fl.HasField("SendToExternal.Token.Amount") && !fl.HasField("SendToExternal.ValCommission.Amount")
				}
				if !fromEntry(il, fl) {
					// the entry may be a local that was just built (the setter written in place): its fields by name
					nf := ana.PVOpt{NoFieldStores: true}
					if !fromEntry(p.PartLeaves(*idP, outer, nf), p.PartLeaves(*feeP, outer, nf)) {
						okAll = false
						detail = sprintf("at %s: id<-%v fee<-%v", where, il.List(), fl.List())
					}
				}
				// a pool entry does not record the chain whose pool it sits in: a delete whose chain component is
				// taken from the entry (its RefundChainId) addresses another chain's pool and removes nothing
				if op.Op == "Delete" && chainP != nil {
					cl := p.PartLeaves(*chainP, outer, ana.PVOpt{})
					for _, fld := range cl.Fields() {
						if strings.HasPrefix(fld, "SendToExternal.") {
							okAll = false
							detail = sprintf("at %s: the chain component of the deleted key derives from the entry's %s", where, fld)
						}
					}
				}
			}
			il0 := p.PartLeaves(*idP, nil, ana.PVOpt{})
			fl0 := p.PartLeaves(*feeP, nil, ana.PVOpt{})
			cparam := false
			if chainP != nil && op.Op == "Delete" {
				cparam = p.PartLeaves(*chainP, nil, ana.PVOpt{}).HasPrefix("param:")
			}
			if cparam || (il0.HasPrefix("param:") && !il0.HasPrefix("field:")) || (fl0.HasPrefix("param:") && !fl0.HasPrefix("field:")) {
				for _, e := range p.In[f] {
					if reach[e.Caller] {
						check(e.Site, c.pos(e.Site))
					}
				}
			} else {
				check(nil, c.pos(op.Site))
			}
			r.Check(okAll && n > 0, "C04.key-agreement", fname(f)+":"+op.Op, c.pos(op.Site),
				sprintf("pool key built from SendToExternal.Id and SendToExternal.Fee at %d site(s)", n),
				"pool key is not built from the entry's own Id and Fee: "+detail)
		}
	}

	// every reader and writer of a prefix spells the key the same way: a case / trim / replace transformation of a
	// key component applied on one side only makes the reader look under a key the writer never writes
	transformRe := regexp.MustCompile(`(?i)(ToLower|ToUpper|Trim|Replace|Title|Fields|Split|Fold|Normalize)`)
	keyForms := map[string]map[string]string{} // prefix -> transformation signature -> an example site
	for _, f := range sortedFuncs(reach) {
		if p.L.IsGenerated(f.Pos()) {
			continue
		}
		for _, op := range p.StoreOps(f) {
			pn := c.prefixName(op)
			if pn == "" || op.IsIter() {
				continue
			}
			var sig []string
			for k := range op.Key.Parts {
				pt := op.Key.Parts[k]
				if pt.Val == nil {
					continue
				}
				sites := []ssa.CallInstruction{nil}
				if p.PartLeaves(pt, nil, ana.PVOpt{}).HasPrefix("param:") {
					sites = nil
					for _, e := range p.In[f] {
						if reach[e.Caller] {
							sites = append(sites, e.Site)
						}
					}
					if len(sites) == 0 {
						sites = []ssa.CallInstruction{nil}
					}
				}
				for _, site := range sites {
					for _, o := range p.PartLeaves(pt, site, ana.PVOpt{}).OpList() {
						if transformRe.MatchString(o) {
							sig = append(sig, sprintf("%d:%s", k, o))
						}
					}
				}
			}
			sort.Strings(sig)
			key := strings.Join(sig, ",")
			if keyForms[pn] == nil {
				keyForms[pn] = map[string]string{}
			}
			if _, ok := keyForms[pn][key]; !ok {
				keyForms[pn][key] = c.pos(op.Site) + " (" + op.Op + " in " + fname(f) + ")"
			}
		}
	}
	var pns []string
	for pn := range keyForms {
		pns = append(pns, pn)
	}
	sort.Strings(pns)
	for _, pn := range pns {
		forms := keyForms[pn]
		if len(forms) <= 1 {
			continue
		}
		var desc []string
		for sig, where := range forms {
			if sig == "" {
				sig = "as given"
			}
			desc = append(desc, sig+" at "+where)
		}
		sort.Strings(desc)
		r.Bad("C04.key-agreement", "transform:"+pn, "-", "the accesses of "+pn+" do not spell the key the same way ("+strings.Join(desc, "; ")+"): a record written under one spelling is not found under the other")
	}
	r.Ok("C04.key-agreement", "transform:all", "-", sprintf("%d prefixes: readers and writers apply the same key-component transformations", len(pns)))

	// ---- C04.batch-build ----------------------------------------------------
	r.Min("C04.batch-build", 3)
	for _, f := range buildFns {
		c.checkBatchBuild(f)
	}

	// ---- C04.batch-cancel ---------------------------------------------------
	r.Min("C04.batch-cancel", 2)
	for _, f := range cancelFns {
		c.checkBatchCancel(f)
	}

	// ---- C04.batch-executed -------------------------------------------------
	r.Min("C04.batch-executed", 1)
	c.checkBatchExecuted(reach)

	// ---- C04.refund-delete --------------------------------------------------
	r.Min("C04.refund-delete", 1)
	for _, f := range refundFns {
		effs := c.Effects(f)
		var dl []ssa.Instruction
		for _, e := range effsOf(effs, "store", "Delete", "SendToExternalKey") {
			if e.In == f {
				dl = append(dl, e.At)
			}
		}
		for _, m := range effsOf(effs, "bank", "MintCoins", "") {
			if m.In != f {
				continue
			}
			ok, ret := ana.MustPassBefore(m.At, dl, false)
			where := c.pos(m.At)
			if !ok {
				r.Bad("C04.refund-delete", fname(f), where, "a success return at "+c.pos(ret)+" is reachable after the refund mint without deleting the pool entry")
			} else {
				r.Ok("C04.refund-delete", fname(f), where, "pool entry deleted on every success path after the mint")
			}
		}
	}

	// the key under which the refunded entry is deleted is rebuilt from the entry's Id and Fee: the refund
	// function must not assign those fields of a SendToExternal between the lookup and the delete
	for _, f := range refundFns {
		nSt := 0
		var bad ssa.Instruction
		fld := ""
		visit := func(g *ssa.Function) {
			ana.Instrs(g, func(in ssa.Instruction) {
				st, ok := in.(*ssa.Store)
				if !ok {
					return
				}
				fa, ok := st.Addr.(*ssa.FieldAddr)
				if !ok {
					return
				}
				root, path := fieldRoot(fa)
				var rt types.Type
				if root != nil {
					rt = root.Type()
				}
				if n := ana.NamedOf(rt); n == nil || n.Obj().Name() != "SendToExternal" {
					return
				}
				if _, fresh := root.(*ssa.Alloc); fresh {
					return // a new entry being built
				}
				nSt++
				if path == "Id" || strings.HasPrefix(path, "Fee") {
					bad, fld = st, path
				}
			})
		}
		visit(f)
		for _, an := range f.AnonFuncs {
			visit(an)
		}
		if bad != nil {
			r.Bad("C04.refund-delete", "entry-unchanged:"+fname(f), c.pos(bad), "the refund assigns "+fld+" of the looked-up pool entry before the entry is deleted: the delete key is rebuilt from the changed value, the entry stays in the pool under its real key and can be refunded again")
		} else {
			r.Ok("C04.refund-delete", "entry-unchanged:"+fname(f), p.Pos(f.Pos()), sprintf("the key fields (Id, Fee) of the looked-up entry are not assigned in the refund function (%d other field assignment(s))", nSt))
		}
	}

	c.checkRecoverAtomic("C04.batch-build")
	// ---- C04.unique-id --------------------------------------------------------
	c.checkCounter("C04.unique-id", "LastSendToExternalIDKey", reach, roots, 0)
	r.Min("C04.unique-id", 2)
	for _, f := range insertFns {
		// the Id stored by the pool insert is the increment's result
		ok := false
		for _, a := range allocsOfType(f, "SendToExternal") {
			for _, v := range ana.FieldStores(a)["Id"] {
				if c.isIncValue(v, f, "LastSendToExternalIDKey", reach) {
					ok = true
				}
			}
		}
		r.Check(ok, "C04.unique-id", "id-source:"+fname(f), p.Pos(f.Pos()), "entry Id is the result of the single increment function", "the pool entry's Id is not the result of the id counter's increment")
	}

	// ---- C04.status-final ---------------------------------------------------
	// the status record of a transfer is keyed by its tx hash: no other transfer is filed under that hash
	c.includeKeys("status-final", "C19", rulesIn("C19.record"), func(rule, key string) bool { return strings.HasPrefix(key, "payout-hash:") })
	r.Min("C04.status-final", 1)
	c.checkStatusFinal(reach)

	c.R.Analysed["reachable_functions"] = len(reach)
}

// allocsOfType lists composite-literal / local allocations of the named struct type in fn (and its closures).
func allocsOfType(fn *ssa.Function, typeName string) []*ssa.Alloc {
	var out []*ssa.Alloc
	var visit func(f *ssa.Function)
	visit = func(f *ssa.Function) {
		ana.Instrs(f, func(in ssa.Instruction) {
			if a, ok := in.(*ssa.Alloc); ok {
				if n := ana.NamedOf(a.Type()); n != nil && n.Obj().Name() == typeName {
					out = append(out, a)
				}
			}
		})
		for _, an := range f.AnonFuncs {
			visit(an)
		}
	}
	visit(fn)
	return out
}

// checkBatchBuild: append into the future Transactions slice <=> pool delete, same element.
func (c *Ctx) checkBatchBuild(f *ssa.Function) {
	p, r := c.P, c.R
	// the BatchTx literal and the variable feeding Transactions
	var txVar *ssa.Alloc
	var batchAlloc *ssa.Alloc
	for _, a := range allocsOfType(f, "BatchTx") {
		for _, v := range ana.FieldStores(a)["Transactions"] {
			if ld, ok := v.(*ssa.UnOp); ok && ld.Op == token.MUL {
				if al, ok := ld.X.(*ssa.Alloc); ok {
					txVar, batchAlloc = al, a
				}
			}
		}
	}
	if txVar == nil {
		r.Undecided("C04.batch-build", fname(f), p.Pos(f.Pos()), "no BatchTx literal whose Transactions field is fed from a local slice variable")
		return
	}
	// closures that append to txVar
	nApp := 0
	for _, an := range f.AnonFuncs {
		var fv *ssa.FreeVar
		if mc := p.ClosureSite(an); mc != nil {
			for i, b := range mc.Bindings {
				if b == ssa.Value(txVar) && i < len(an.FreeVars) {
					fv = an.FreeVars[i]
				}
			}
		}
		if fv == nil {
			continue
		}
		var appends []*ssa.Store
		for _, ref := range *fv.Referrers() {
			if st, ok := ref.(*ssa.Store); ok && st.Addr == fv {
				if call, ok := st.Val.(*ssa.Call); ok {
					if b, ok := call.Call.Value.(*ssa.Builtin); ok && b.Name() == "append" {
						appends = append(appends, st)
					}
				}
			}
		}
		var dels []ssa.Instruction
		var delEffs []Eff
		for _, e := range c.Effects(an) {
			if e.Kind == "store" && e.Op == "Delete" && e.Prefix == "SendToExternalKey" && e.In == an {
				dels = append(dels, e.At)
				delEffs = append(delEffs, e)
			}
		}
		for _, st := range appends {
			nApp++
			// appended element
			call := st.Val.(*ssa.Call)
			elems := p.Leaves(call.Call.Args[1], ana.PVOpt{})
			ok, ret := ana.MustPassBefore(st, dels, true)
			if !ok {
				r.Bad("C04.batch-build", fname(an)+":append", c.pos(st), "an element is copied into the batch but a return at "+c.pos(ret)+" is reachable without deleting it from the pool")
			} else {
				r.Ok("C04.batch-build", fname(an)+":append", c.pos(st), sprintf("every appended element (%v) is deleted from the pool in the same activation", elems.List()))
			}
		}
		// no delete without append: removing the append blocks must disconnect every delete
		for _, d := range dels {
			avoid := map[*ssa.BasicBlock]bool{}
			sameBlockBefore := false
			for _, st := range appends {
				avoid[st.Block()] = true
				if st.Block() == d.Block() && ana.InstrIndex(st) < ana.InstrIndex(d) {
					sameBlockBefore = true
				}
			}
			okDom := sameBlockBefore
			if !okDom {
				// reachable from entry without passing an append block?
				okDom = !reachAvoiding(an, d.Block(), avoid)
			}
			r.Check(okDom, "C04.batch-build", fname(an)+":delete", c.pos(d), "pool delete only after the element was appended to the batch", "a pool entry can be deleted without having been copied into the batch")
		}
		// the deleted key is built from the appended element
		for _, e := range delEffs {
			call, ok := e.At.(ssa.CallInstruction)
			if !ok {
				continue
			}
			same := true
			var rootsSeen []ssa.Value
			delArgs := call.Common().Args
			if e.Prim == e.At {
				// the store primitive itself (the deleter is written out in place): the arguments of the key constructor
				for _, a := range call.Common().Args {
					if kc, ok := a.(*ssa.Call); ok && kc.Call.StaticCallee() != nil && p.IsModule(kc.Call.StaticCallee()) {
						delArgs = kc.Call.Args
					}
				}
			}
			for _, a := range delArgs {
				if n := ana.NamedOf(a.Type()); n != nil && (n.Obj().Name() == "Context" || n.Obj().Name() == "ChainID" || n.Obj().Name() == "Keeper") {
					continue
				}
				root, _ := rootAndPath(a)
				rootsSeen = append(rootsSeen, root)
			}
			var elemRoot ssa.Value
			for _, st := range appends {
				ac := st.Val.(*ssa.Call)
				// element of the varargs array literal
				if sl, ok := ac.Call.Args[1].(*ssa.Slice); ok {
					if al, ok := sl.X.(*ssa.Alloc); ok {
						for _, ref := range *al.Referrers() {
							if ia, ok := ref.(*ssa.IndexAddr); ok {
								for _, rr := range *ia.Referrers() {
									if s2, ok := rr.(*ssa.Store); ok {
										elemRoot = s2.Val
									}
								}
							}
						}
					}
				}
			}
			for _, rt := range rootsSeen {
				if rt != elemRoot {
					same = false
				}
			}
			r.Check(same && elemRoot != nil && len(rootsSeen) > 0, "C04.batch-build", fname(an)+":same-element", c.pos(e.At),
				"deleted pool key is built from the appended element", "the pool key deleted is not built from the element that was appended to the batch")
		}
	}
	if nApp == 0 {
		r.Undecided("C04.batch-build", fname(f), p.Pos(f.Pos()), "no append into the slice that becomes BatchTx.Transactions found")
	}
	// the batch is stored on every path after the literal is built
	var stores []ssa.Instruction
	ana.Calls(f, func(site ssa.CallInstruction, d ana.CalleeDesc) {
		for _, callee := range p.Callees(site) {
			if hasEff(c.Effects(callee), "store", "Set", "OutgoingTxKey") {
				for _, a := range site.Common().Args {
					if ana.AllocOf(a) == batchAlloc {
						stores = append(stores, site)
					}
				}
			}
		}
	})
	ok, ret := ana.MustPassBefore(batchAlloc, stores, true)
	if len(stores) == 0 {
		ok = false
	}
	// ... and from the moment the selection has run: an exit that stores nothing is the one taken when nothing
	// was selected
	if ok && txVar != nil {
		avoid := map[*ssa.BasicBlock]bool{}
		for _, st := range stores {
			avoid[st.Block()] = true
		}
		empty := lenAtom(txVar, false)
		all, _ := ana.Returns(f)
		for _, an := range f.AnonFuncs {
			mc := p.ClosureSite(an)
			if mc == nil || !hasEff(c.Effects(an), "store", "Delete", "SendToExternalKey") {
				continue
			}
			for _, ref := range *mc.Referrers() {
				call, isCall := ref.(ssa.CallInstruction)
				if !isCall {
					continue
				}
				for _, rt := range all {
					if avoid[rt.Block()] {
						continue
					}
					if ana.ReachesWithout(call.(ssa.Instruction), rt, avoid) && !ana.Guarded(rt, empty) {
						ok, ret = false, rt
					}
				}
			}
		}
	}
	if ok {
		r.Ok("C04.batch-build", fname(f)+":stored", c.pos(batchAlloc), "the built batch is stored on every path")
	} else {
		w := "-"
		if ret != nil {
			w = c.pos(ret)
		}
		r.Bad("C04.batch-build", fname(f)+":stored", c.pos(batchAlloc), "the batch that took entries out of the pool is not stored on the path returning at "+w)
	}
}

func reachAvoiding(fn *ssa.Function, target *ssa.BasicBlock, avoid map[*ssa.BasicBlock]bool) bool {
	if len(fn.Blocks) == 0 {
		return false
	}
	seen := map[*ssa.BasicBlock]bool{}
	stack := []*ssa.BasicBlock{fn.Blocks[0]}
	for len(stack) > 0 {
		b := stack[len(stack)-1]
		stack = stack[:len(stack)-1]
		if seen[b] {
			continue
		}
		seen[b] = true
		if b == target {
			return true
		}
		if avoid[b] {
			continue
		}
		stack = append(stack, b.Succs...)
	}
	return false
}

// checkBatchCancel: loop over exactly batch.Transactions re-indexing each, then delete that batch.
func (c *Ctx) checkBatchCancel(f *ssa.Function) {
	p, r := c.P, c.R
	effs := c.Effects(f)
	var setSites, delSites []Eff
	for _, e := range effs {
		if e.In != f {
			continue
		}
		if e.Kind == "store" && e.Op == "Set" && e.Prefix == "SendToExternalKey" {
			setSites = append(setSites, e)
		}
		if e.Kind == "store" && e.Op == "Delete" && e.Prefix == "OutgoingTxKey" {
			delSites = append(delSites, e)
		}
	}
	for _, s := range setSites {
		call, ok := s.At.(ssa.CallInstruction)
		if !ok {
			continue
		}
		// the re-indexed element is an element of <batch>.Transactions (range loop)
		okElem := false
		var batchRoot ssa.Value
		for _, a := range call.Common().Args {
			if n := ana.NamedOf(a.Type()); n == nil || n.Obj().Name() != "SendToExternal" {
				continue
			}
			// a = *(&slice[i]) with slice = batch.Transactions
			if ld, ok := a.(*ssa.UnOp); ok {
				if ia, ok := ld.X.(*ssa.IndexAddr); ok {
					root, path := rootAndPath(ia.X)
					if path == "Transactions" {
						okElem = true
						batchRoot = root
						// loop bound must be len of the same slice: the IndexAddr index is the loop phi
						okElem = okElem && fullRange(ia)
					}
				}
			}
		}
		r.Check(okElem, "C04.batch-cancel", fname(f)+":reindex", c.pos(s.At), "every element of batch.Transactions is re-indexed into the pool (range over the whole slice)", "the pool re-index in batch cancel does not range over the whole batch.Transactions slice")
		// deletion of that same batch afterwards on every path
		var dl []ssa.Instruction
		sameBatch := false
		for _, d := range delSites {
			dl = append(dl, d.At)
			if dc, ok := d.At.(ssa.CallInstruction); ok {
				for _, a := range dc.Common().Args {
					l := p.Leaves(a, ana.PVOpt{Opaque: func(d ana.CalleeDesc) bool { return d.Name == "GetStoreIndex" || strings.HasPrefix(d.Name, "Make") }})
					for lab, vals := range l.Vals {
						if strings.Contains(lab, "GetStoreIndex") {
							for _, v := range vals {
								if cc := ana.CallOf(v); cc != nil {
									recv := cc.Args
									if cc.IsInvoke() {
										recv = []ssa.Value{cc.Value}
									}
									if len(recv) > 0 && sameObject(recv[0], batchRoot) {
										sameBatch = true
									}
								}
							}
						}
					}
				}
			}
		}
		ok2, ret := ana.MustPassBefore(s.At, dl, true)
		if len(dl) == 0 {
			ok2 = false
		}
		where := "-"
		if ret != nil {
			where = c.pos(ret)
		}
		r.Check(ok2 && sameBatch, "C04.batch-cancel", fname(f)+":delete", c.pos(s.At), "the cancelled batch's own store index is deleted on every path after re-indexing",
			sprintf("after re-indexing, the batch's own index is not deleted on every path (unpaired exit %s, same-batch=%v)", where, sameBatch))
	}
	if len(setSites) == 0 {
		r.Undecided("C04.batch-cancel", fname(f), p.Pos(f.Pos()), "no pool re-index found in batch cancel")
	}
}

// sameObject: both values denote the same pointer (identical SSA value, or loads of the same alloc).
func sameObject(a, b ssa.Value) bool {
	if a == nil || b == nil {
		return false
	}
	strip := func(v ssa.Value) ssa.Value {
		for i := 0; i < 4; i++ {
			switch x := v.(type) {
			case *ssa.UnOp:
				if x.Op == token.MUL {
					if _, ok := x.X.(*ssa.Alloc); ok {
						return x.X
					}
					if _, ok := x.X.(*ssa.FreeVar); ok {
						return x.X
					}
				}
				return v
			case *ssa.MakeInterface:
				v = x.X
			case *ssa.ChangeType:
				v = x.X
			default:
				return v
			}
		}
		return v
	}
	return strip(a) == strip(b)
}

// fullRange reports that the IndexAddr indexes with a loop counter that runs
// from -1/0 to len(slice) in steps of one (the shape of "for range slice").
func fullRange(ia *ssa.IndexAddr) bool {
	phi, ok := ia.Index.(*ssa.Phi)
	if !ok {
		// rotated loops: index may be phi+1
		if bo, ok := ia.Index.(*ssa.BinOp); ok && bo.Op == token.ADD {
			phi, _ = bo.X.(*ssa.Phi)
		}
		if phi == nil {
			return false
		}
	}
	// some edge is a constant start, another is phi+1
	hasStart, hasStep := false, false
	for _, e := range phi.Edges {
		if k, ok := e.(*ssa.Const); ok && k.Value != nil {
			s := k.Value.ExactString()
			if s == "-1" || s == "0" {
				hasStart = true
			}
		}
		if bo, ok := e.(*ssa.BinOp); ok && bo.Op == token.ADD {
			if k, ok := bo.Y.(*ssa.Const); ok && k.Value != nil && k.Value.ExactString() == "1" {
				hasStep = true
			}
		}
	}
	if !hasStart || !hasStep {
		return false
	}
	// the loop condition compares against len(the same slice)
	fn := ia.Parent()
	okLen := false
	ana.Instrs(fn, func(in ssa.Instruction) {
		bo, ok := in.(*ssa.BinOp)
		if !ok || bo.Op != token.LSS {
			return
		}
		if call, ok := bo.Y.(*ssa.Call); ok {
			if b, ok := call.Call.Value.(*ssa.Builtin); ok && b.Name() == "len" && sameSlice(call.Call.Args[0], ia.X) {
				okLen = true
			}
		}
	})
	return okLen
}

func (c *Ctx) checkBatchExecuted(reach map[*ssa.Function]bool) {
	p, r := c.P, c.R
	// the batch-executed role: mints (payouts) and deletes an OutgoingTxKey entry
	found := 0
	for _, f := range c.batchExecutedFns(reach) {
		effs := c.Effects(f)
		found++
		// lookup of the executed batch
		var getSite ssa.Instruction
		ana.Calls(f, func(site ssa.CallInstruction, d ana.CalleeDesc) {
			for _, callee := range p.Callees(site) {
				if hasEff(c.Effects(callee), "store", "Get", "OutgoingTxKey") && getSite == nil {
					getSite = site
				}
			}
		})
		if getSite == nil {
			r.Undecided("C04.batch-executed", fname(f), p.Pos(f.Pos()), "no lookup of the executed batch found")
			continue
		}
		var dl []ssa.Instruction
		for _, e := range effs {
			if e.In == f && e.Kind == "store" && e.Op == "Delete" && e.Prefix == "OutgoingTxKey" {
				dl = append(dl, e.At)
			}
		}
		// every path from the lookup to a mint passes the delete
		bad := false
		for _, m := range effs {
			if m.Kind == "bank" && m.Op == "MintCoins" && m.In == f {
				avoid := map[*ssa.BasicBlock]bool{}
				for _, d := range dl {
					avoid[d.Block()] = true
				}
				if ana.ReachesWithout(getSite, m.At, avoid) {
					bad = true
					r.Bad("C04.batch-executed", fname(f), c.pos(m.At), "a payout is reachable from the batch lookup without deleting the executed batch's store index")
				}
			}
		}
		if !bad {
			r.Ok("C04.batch-executed", fname(f), c.pos(getSite), "the executed batch's index is deleted on every path from its lookup to the payouts")
		}
	}
	if found == 0 {
		r.Undecided("C04.batch-executed", "role", "-", "no function plays the batch-executed role (mint + delete of an outgoing tx)")
	}
}

// isIncrementOf: fn stores decode(Get(k))+1 under the counter prefix and returns the stored value.
func (c *Ctx) isIncrementOf(fn *ssa.Function, prefix string) bool {
	effs := c.Effects(fn)
	sets := effsOf(effs, "store", "Set", prefix)
	if len(sets) == 0 {
		return false
	}
	// a returned value that is X+1
	okRet := false
	ana.Instrs(fn, func(in ssa.Instruction) {
		if ret, ok := in.(*ssa.Return); ok {
			for _, v := range ret.Results {
				if isPlusOne(v) {
					okRet = true
				}
			}
		}
	})
	return okRet
}

func isPlusOne(v ssa.Value) bool {
	bo, ok := v.(*ssa.BinOp)
	if !ok || bo.Op != token.ADD {
		return false
	}
	k, ok := bo.Y.(*ssa.Const)
	if ok && k.Value != nil && k.Value.ExactString() == "1" {
		return true
	}
	k, ok = bo.X.(*ssa.Const)
	return ok && k.Value != nil && k.Value.ExactString() == "1"
}

// ctrWrite is one place where a new value of a counter is computed and stored (directly or through a thin
// setter whose stored value is its parameter).
type ctrWrite struct {
	Fn  *ssa.Function   // the function that computes the value
	At  ssa.Instruction // the store operation or the call of the setter
	Val ssa.Value       // the previous+1 value that is stored, nil if the stored value is not of that form
}

// opaqueAll: calls of module functions are leaves (library conversions stay transparent).
func opaqueAll(d ana.CalleeDesc) bool { return strings.Contains(d.Pkg, "MinterTeam/mhub2") }

// plusOneIn returns the x+1 values (within v's own function) that v is computed from.
func (c *Ctx) plusOneIn(v ssa.Value) []ssa.Value {
	if v == nil {
		return nil
	}
	var out []ssa.Value
	for _, b := range c.P.Leaves(v, ana.PVOpt{Opaque: opaqueAll}).Vals["binop:+"] {
		if isPlusOne(b) && b.Parent() == v.Parent() {
			out = append(out, b)
		}
	}
	return out
}

// counterWrites lists the places in reach where the counter under prefix receives a new value.
func (c *Ctx) counterWrites(prefix string, reach map[*ssa.Function]bool) []ctrWrite {
	p := c.P
	var out []ctrWrite
	for _, f := range sortedFuncs(reach) {
		for _, op := range p.StoreOps(f) {
			if c.prefixName(op) != prefix || !op.IsWrite() {
				continue
			}
			in, _ := op.Site.(ssa.Instruction)
			if po := c.plusOneIn(op.Value); len(po) > 0 {
				out = append(out, ctrWrite{f, in, po[0]})
				continue
			}
			// a setter: the stored value is one of its parameters
			parIdx := -1
			if op.Value != nil {
				for lab, vals := range p.Leaves(op.Value, ana.PVOpt{Opaque: opaqueAll}).Vals {
					if !strings.HasPrefix(lab, "param:") {
						continue
					}
					for _, v := range vals {
						if par, ok := v.(*ssa.Parameter); ok && par.Parent() == f && !strings.HasSuffix(par.Type().String(), "types.Context") {
							for i, fp := range f.Params {
								if fp == par && c.prefixPartFree(op, par) {
									parIdx = i
								}
							}
						}
					}
				}
			}
			if parIdx < 0 || f.Parent() != nil {
				out = append(out, ctrWrite{f, in, nil})
				continue
			}
			n := 0
			for _, e := range p.In[f] {
				if !reach[e.Caller] || e.Kind != "static" {
					continue
				}
				args := e.Site.Common().Args
				if parIdx >= len(args) {
					continue
				}
				n++
				var val ssa.Value
				if po := c.plusOneIn(args[parIdx]); len(po) > 0 {
					val = po[0]
				}
				out = append(out, ctrWrite{e.Caller, e.Site.(ssa.Instruction), val})
			}
			if n == 0 {
				out = append(out, ctrWrite{f, in, nil})
			}
		}
	}
	return out
}

// prefixPartFree: the parameter is the value, not (only) a component of the key.
func (c *Ctx) prefixPartFree(op ana.StoreOp, par *ssa.Parameter) bool {
	if op.Key == nil {
		return true
	}
	for _, pt := range op.Key.Parts {
		if pt.Val == ssa.Value(par) {
			return false
		}
	}
	return true
}

// isIncValue: v (a value of f) is the new value of the counter under prefix: the result of the increment
// function, or the previous+1 value that f itself stores under the prefix.
func (c *Ctx) isIncValue(v ssa.Value, f *ssa.Function, prefix string, reach map[*ssa.Function]bool) bool {
	var cands []ssa.Value
	cands = append(cands, v)
	l := c.P.Leaves(v, ana.PVOpt{Opaque: opaqueAll})
	for lab, vals := range l.Vals {
		if strings.HasPrefix(lab, "call:") || lab == "binop:+" {
			cands = append(cands, vals...)
		}
	}
	// no arithmetic on the way other than the increment itself
	for op := range l.Ops {
		if strings.HasPrefix(op, "binop:") && op != "binop:+" {
			return false
		}
	}
	var writes []ctrWrite
	for _, cv := range cands {
		switch x := cv.(type) {
		case *ssa.Call:
			if callee := x.Call.StaticCallee(); callee != nil && c.isIncrementOf(callee, prefix) {
				return true
			}
		case *ssa.BinOp:
			if !isPlusOne(x) {
				continue
			}
			if writes == nil {
				writes = c.counterWrites(prefix, reach)
			}
			for _, w := range writes {
				if w.Val == ssa.Value(x) && x.Parent() == f {
					return true
				}
			}
		}
	}
	return false
}

// readsPrefix: fn, or a function it statically calls (two levels), reads the store under prefix.
func (c *Ctx) readsPrefix(fn *ssa.Function, prefix string) bool {
	frontier := []*ssa.Function{fn}
	seen := map[*ssa.Function]bool{fn: true}
	for depth := 0; depth <= 2; depth++ {
		var next []*ssa.Function
		for _, g := range frontier {
			for _, op := range c.P.StoreOps(g) {
				if op.Op == "Get" && c.prefixName(op) == prefix {
					return true
				}
			}
			for _, e := range c.P.Out[g] {
				if e.Kind == "static" && !seen[e.Callee] {
					seen[e.Callee] = true
					next = append(next, e.Callee)
				}
			}
		}
		frontier = next
	}
	return false
}

// checkCounter is the MC engine: in block / message / governance code every new value of a counter prefix is
// previous+1, computed where the counter is read, and there is exactly one such place; other writers are
// administrative setters reachable only from InitGenesis / upgrade handlers.
func (c *Ctx) checkCounter(rule, prefix string, reach map[*ssa.Function]bool, roots *Roots, _ int) {
	r := c.R
	consensus := c.P.Reach(append(append(append([]*ssa.Function{}, roots.Block...), roots.Msg...), roots.Gov...)...)
	nInc := 0
	seen := map[string]bool{}
	var admins, incs []ctrWrite
	for _, w := range c.counterWrites(prefix, reach) {
		switch {
		case w.Val != nil && c.readsPrefix(w.Fn, prefix):
			nInc++
			incs = append(incs, w)
			r.Ok(rule, "increment:"+fname(w.Fn), c.pos(w.At), sprintf("%s is advanced by exactly one: the value stored is previous+1", prefix))
		case consensus[w.Fn]:
			r.Bad(rule, "writer:"+fname(w.Fn), c.pos(w.At), sprintf("%s is written outside its increment function in code reachable from block/message processing", prefix))
		default:
			if !seen[fname(w.Fn)] {
				seen[fname(w.Fn)] = true
				r.Ok(rule, "admin-writer:"+fname(w.Fn), c.pos(w.At), "administrative setter reachable only from genesis/upgrade code")
			}
			admins = append(admins, w)
		}
	}
	// a restore of the counter comes before anything in the same function that takes the next value from it
	// (an import that stamps restored objects first would hand out numbers below the restored counter)
	for _, w := range admins {
		incFns := map[*ssa.Function]bool{}
		for _, iw := range incs {
			incFns[ana.Outermost(iw.Fn)] = true
		}
		ana.Calls(w.Fn, func(site ssa.CallInstruction, d ana.CalleeDesc) {
			in := site.(ssa.Instruction)
			if in == w.At {
				return
			}
			uses := false
			for _, callee := range c.P.Callees(site) {
				for g := range c.P.ReachCS(callee) {
					if incFns[ana.Outermost(g)] {
						uses = true
					}
				}
			}
			if !uses {
				return
			}
			before := w.At.Block() == in.Block() && ana.InstrIndex(w.At) < ana.InstrIndex(in) || (w.At.Block() != in.Block() && w.At.Block().Dominates(in.Block()))
			r.Check(before, rule, "restore-first:"+fname(w.Fn), c.pos(in), sprintf("%s is restored before the import takes numbers from it", prefix),
				sprintf("%s takes the next value of %s at %s before the counter has been restored (at %s): restored objects are numbered from the old counter value, and the numbers handed out later repeat or skip", fname(w.Fn), prefix, c.pos(in), c.pos(w.At)))
		})
	}
	if nInc != 1 {
		r.Bad(rule, "increment-count:"+prefix, "-", sprintf("%d increment functions for %s, expected exactly one", nInc, prefix))
	}
}

func (c *Ctx) checkStatusFinal(reach map[*ssa.Function]bool) {
	p, r := c.P, c.R
	ws := c.Writers(reach, "Set", "TxStatusKey")
	if len(ws) != 1 {
		r.Bad("C04.status-final", "writers", "-", sprintf("TxStatusKey has %d writers, expected one", len(ws)))
	}
	for _, f := range sortedKeys(ws) {
		// a comparison of a loaded TxStatus.Status with the REFUNDED constant whose
		// true branch forces the stored status to REFUNDED
		refunded := enumValue(p, "mhub2/types", "TX_STATUS_REFUNDED")
		ok := false
		for _, iff := range ana.IfsUsing(f, func(cd ana.Cond) bool {
			if cd.Op != token.EQL && cd.Op != token.NEQ {
				return false
			}
			return (isConstVal(cd.Y, refunded) && p.Leaves(cd.X, ana.PVOpt{}).HasField("TxStatus.Status")) ||
				(isConstVal(cd.X, refunded) && p.Leaves(cd.Y, ana.PVOpt{}).HasField("TxStatus.Status"))
		}) {
			// the stored Status is a phi/variable that is REFUNDED on the equal edge
			for _, a := range allocsOfType(f, "TxStatus") {
				for _, v := range ana.FieldStores(a)["Status"] {
					l := p.Leaves(v, ana.PVOpt{})
					if l.Has("const:"+refunded) && statusForced(iff, v, refunded) {
						ok = true
					}
				}
			}
		}
		r.Check(ok, "C04.status-final", fname(f), p.Pos(f.Pos()), "a stored REFUNDED status forces the written status to REFUNDED", "the status writer no longer keeps REFUNDED final")
	}
}

// statusForced: v is a phi (or load of a local) whose incoming value on the
// branch where stored==REFUNDED is the REFUNDED constant.
func statusForced(iff *ssa.If, v ssa.Value, refunded string) bool {
	cd := ana.NormCond(iff.Cond)
	eqOnTrue := (cd.Op == token.EQL) != cd.Neg
	b := iff.Block()
	thenB := b.Succs[0]
	if !eqOnTrue {
		thenB = b.Succs[1]
	}
	switch x := v.(type) {
	case *ssa.Phi:
		for i, e := range x.Edges {
			pred := x.Block().Preds[i]
			if isConstVal(e, refunded) && (pred == thenB || pred == b) {
				return true
			}
		}
	case *ssa.UnOp:
		// local variable assigned in the branch
		if a, ok := x.X.(*ssa.Alloc); ok {
			for _, ref := range *a.Referrers() {
				if st, ok := ref.(*ssa.Store); ok && isConstVal(st.Val, refunded) && st.Block() == thenB {
					return true
				}
			}
		}
	}
	return false
}

func isConstVal(v ssa.Value, exact string) bool {
	k, ok := v.(*ssa.Const)
	return ok && k.Value != nil && k.Value.ExactString() == exact
}

func enumValue(p *ana.Prog, pkgSuffix, name string) string {
	pkg := p.L.Pkg(pkgSuffix)
	if pkg == nil {
		return "?"
	}
	return constExact(pkg.Types.Scope().Lookup(name))
}

// sameSlice: two values that denote the same slice – the same SSA value, loads of one local, or loads of the
// same field path of one root (x.Items read twice).
func sameSlice(a, b ssa.Value) bool {
	if a == b || sameObject(a, b) {
		return true
	}
	ra, pa := rootAndPath(a)
	rb, pb := rootAndPath(b)
	if pa == "" || pa != pb {
		return false
	}
	return ra == rb || sameObject(ra, rb)
}
