package rules

import (
	"golang.org/x/tools/go/ssa"

	"mhubsa/ana"
)

// checkUnits runs the UQ engine from the consensus roots and reports the
// issues of one partition: payout=true reports those inside the
// batch-executed function (C19), payout=false everything else (C01).
func (c *Ctx) checkUnits(rule string, reach map[*ssa.Function]bool, payout bool) {
	execs := map[*ssa.Function]bool{}
	for _, f := range c.batchExecutedFns(reach) {
		execs[f] = true
	}
	c.checkUnitsIn(rule, reach, func(f *ssa.Function) bool { return execs[f] == payout })
}

// checkUnitsIn reports the unit issues whose enclosing (outermost) function satisfies in.
func (c *Ctx) checkUnitsIn(rule string, reach map[*ssa.Function]bool, in func(*ssa.Function) bool) {
	p, r := c.P, c.R
	roots := c.Roots()
	q := ana.NewUQ(p)
	var rs []*ssa.Function
	rs = append(rs, roots.Block...)
	rs = append(rs, roots.Msg...)
	rs = append(rs, roots.Gov...)
	for _, f := range rs {
		q.AnalyzeRoot(f)
	}
	n := 0
	for _, is := range q.SortedIssues() {
		if !in(ana.Outermost(is.Fn)) {
			continue
		}
		n++
		r.Bad(rule, is.Kind+":"+fname(is.Fn)+":"+shortDetail(is.Detail), c.pos(is.At), is.Detail, is.Chain...)
	}
	r.Analysed["unit_sites_examined"] = q.Sites
	if q.Sites < 10 {
		r.Undecided(rule, "coverage", "-", sprintf("the unit analysis examined only %d sites with a known unit (expected at least 10): its seeds no longer resolve", q.Sites))
	}
	if n == 0 {
		r.Ok(rule, "all-sites", "-", sprintf("no bank operation receives external-unit coins, no conversion is applied in the wrong direction and no known-vs-known unit mix among %d examined sites", q.Sites))
	}
}

func shortDetail(d string) string {
	if len(d) > 60 {
		return d[:60]
	}
	return d
}
