package rules

func (c *Ctx) checkSolLock()         {}
func (c *Ctx) checkConnectorAmount() {}
func (c *Ctx) checkKeysGenerator()   {}
