package rules

import "golang.org/x/tools/go/ssa"

func (c *Ctx) checkUnits(rule string, reach map[*ssa.Function]bool, feeOnly bool) {}
func (c *Ctx) checkSolLock()                                                    {}
func (c *Ctx) checkConnectorAmount()                                            {}

func (c *Ctx) checkKeysGenerator() {}
