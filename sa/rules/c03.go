package rules

import (
	"go/token"
	"strings"

	"golang.org/x/tools/go/ssa"

	"mhubsa/ana"
)

func init() {
	register("C03", Meta{
		Explanation: "Structural necessary conditions of 'applied exactly once, in nonce order': (nonce-writer) LastObservedEventNonceKey is written only by the tally-apply function and InitGenesis; in the former the stored value is the event's nonce and the write is cut off from the entry by 'event nonce == last observed + 1'; (tally-order) every call of the apply function from end-block code is guarded by 'nonce == GetLastObservedEventNonce()+1'; (accepted-first) on the applying path Accepted=true is persisted and the observed nonce is bumped before the handler is invoked, and the apply call is guarded by '!record.Accepted'; (single-apply) the handler is invoked only from the process function, which is called only from the apply function, which is called only from the end-block tally, each from a single call site; the handler's self-calls pass a value of the concrete type *SendToHubEvent and no self-call is reachable from the SendToHubEvent case (bounded recursion); (contiguity) = C02.one-vote.",
		NotDecided:  []string{"several records of one block reaching quorum in adversarial orders beyond what the guards imply", "behaviour of conflicting claims over histories (only: at most one apply per nonce follows from the nonce guard)"},
		Assumptions: commonAssumptions,
	}, checkC03)
}

// observedNonceRead: value derives from a call that Gets LastObservedEventNonceKey.
func (c *Ctx) observedNonceRead(v ssa.Value) bool {
	l := c.P.Leaves(v, ana.PVOpt{Opaque: func(d ana.CalleeDesc) bool { return true }})
	for lab, vals := range l.Vals {
		if !strings.HasPrefix(lab, "call:") {
			continue
		}
		for _, x := range vals {
			if call, ok := x.(*ssa.Call); ok {
				if callee := call.Call.StaticCallee(); callee != nil && hasEff(c.Effects(callee), "store", "Get", "LastObservedEventNonceKey") {
					return true
				}
			}
		}
	}
	return false
}

// atomNextNonce: x == y+1 with y read from LastObservedEventNonceKey and x satisfying isNonce.
func (c *Ctx) atomNextNonce(isNonce func(ssa.Value) bool) ana.Atom {
	p := c.P
	return ana.AtomCmp(func(op token.Token, x, y ssa.Value) (bool, bool) {
		if op != token.EQL && op != token.NEQ {
			return false, false
		}
		for _, pr := range [][2]ssa.Value{{x, y}, {y, x}} {
			a, b := pr[0], pr[1]
			if !isNonce(a) || c.observedNonceRead(a) {
				continue
			}
			l := p.Leaves(b, ana.PVOpt{Opaque: func(d ana.CalleeDesc) bool { return true }})
			if c.observedNonceRead(b) && l.Ops["binop:+"] && l.Has("const:1") && !l.Ops["binop:-"] && !l.Ops["binop:*"] {
				return op == token.EQL, true
			}
		}
		return false, false
	})
}

func checkC03(c *Ctx) {
	p, r := c.P, c.R
	roots := c.Roots()
	live := c.LiveReach()
	isEventNonce := func(v ssa.Value) bool { return p.Leaves(v, ana.PVOpt{}).HasField("ExternalEvent.EventNonce") }

	// Minter events get their nonces from the connector: its restart / numbering clauses (C20)
	c.include("connector", "C20", rulesIn("C20.cursor", "C20.counted-iff-valid"))
	// the tally of a chain reads the vote records of that chain only: bounded scans end inside the chain
	c.checkIteratorBounds("C03.tally-order", func(pn string) bool { return pn == "ExternalEventVoteRecordKey" })

	// the observed-event cursor survives a restart for every chain (the genesis clauses of C15 about it)
	c.includeKeys("genesis", "C15", rulesIn("C15.faithful-import", "C15.field-roundtrip", "C15.prefix-export", "C15.export-own-state"), func(rule, key string) bool {
		for _, k := range []string{"LastObservedEventNonce", "LastEventNonceByValidatorKey", "Nonces", "every-chain"} {
			if strings.Contains(key, k) {
				return true
			}
		}
		return false
	})

	// ---- C03.nonce-writer ---------------------------------------------------
	r.Min("C03.nonce-writer", 2)
	ws := c.Writers(live, "Set", "LastObservedEventNonceKey")
	var applyFns []*ssa.Function
	for _, f := range sortedKeys(ws) {
		if c.isGenesisImport(f) {
			r.Ok("C03.nonce-writer", fname(f), p.Pos(f.Pos()), "role genesis import")
			continue
		}
		callsProcess := len(c.procSites(f, "mhub2")) > 0
		if !callsProcess {
			r.Bad("C03.nonce-writer", fname(f), c.pos(ws[f][0].At), "writes the last observed event nonce but is neither the tally-apply function nor InitGenesis")
			continue
		}
		applyFns = append(applyFns, f)
		for _, e := range ws[f] {
			site, ok := e.At.(ssa.CallInstruction)
			if !ok {
				continue
			}
			okVal := false
			for _, a := range site.Common().Args {
				if isEventNonce(a) {
					okVal = true
				}
			}
			guard := ana.Guarded(e.At, c.atomNextNonce(isEventNonce))
			r.Check(okVal && guard, "C03.nonce-writer", fname(f), c.pos(e.At), "stores the event's nonce, guarded by event nonce == last observed + 1",
				sprintf("observed-nonce write: stores event nonce=%v, guarded by nonce==last+1=%v", okVal, guard))
		}
	}

	// ---- C03.tally-order ------------------------------------------------------
	r.Min("C03.tally-order", 1)
	endReach := p.Reach(roots.End...)
	for _, af := range applyFns {
		sites := p.In[af]
		for _, e := range sites {
			if !endReach[e.Caller] && !live[e.Caller] {
				continue
			}
			in := e.Site.(ssa.Instruction)
			// nonce: any integer value that is not itself read from the observed nonce
			atom := c.atomNextNonce(func(v ssa.Value) bool { return true })
			ok, chain := p.GuardedInter(in, 2, atom)
			if ok {
				r.Ok("C03.tally-order", fname(e.Caller), c.pos(in), "apply call guarded by nonce == GetLastObservedEventNonce()+1")
			} else {
				r.Bad("C03.tally-order", fname(e.Caller), c.pos(in), "the apply function is called without the 'nonce == last observed + 1' test", chain...)
			}
			// the record passed and the nonce compared belong together: the record comes from map[nonce]
			okRec := false
			for _, a := range e.Site.Common().Args {
				if n := ana.NamedOf(a.Type()); n != nil && n.Obj().Name() == "ExternalEventVoteRecord" {
					l := p.Leaves(a, ana.PVOpt{})
					okRec = l.Ops["lookup"] || l.Ops["index"]
				}
			}
			_ = okRec
		}
	}

	// ---- C03.accepted-first ---------------------------------------------------
	r.Min("C03.accepted-first", 2)
	for _, af := range applyFns {
		procSites := c.procSites(af, "mhub2")
		// stores of true into <record>.Accepted, nonce set calls, record writes
		var accStores, nonceSets, recWrites []ssa.Instruction
		ana.Instrs(af, func(in ssa.Instruction) {
			if st, ok := in.(*ssa.Store); ok {
				if fa, ok := st.Addr.(*ssa.FieldAddr); ok {
					if s := structOf(fa.X.Type()); s != nil && s.Field(fa.Field).Name() == "Accepted" && isConstVal(st.Val, "true") {
						accStores = append(accStores, in)
					}
				}
			}
		})
		for _, e := range c.Effects(af) {
			if e.In != af || e.Kind != "store" || e.Op != "Set" {
				continue
			}
			if e.Prefix == "LastObservedEventNonceKey" {
				nonceSets = append(nonceSets, e.At)
			}
			if e.Prefix == "ExternalEventVoteRecordKey" {
				recWrites = append(recWrites, e.At)
			}
		}
		for _, ps := range procSites {
			before := func(must []ssa.Instruction) bool {
				if len(must) == 0 {
					return false
				}
				avoid := map[*ssa.BasicBlock]bool{}
				for _, m := range must {
					if m.Block() == ps.Block() && ana.InstrIndex(m) < ana.InstrIndex(ps) {
						return true
					}
					avoid[m.Block()] = true
				}
				return !reachAvoiding(af, ps.Block(), avoid)
			}
			// Accepted=true must precede the record write that precedes the handler
			okOrder := before(nonceSets) && before(accStores) && before(recWrites)
			// and the record write must come after the Accepted store
			okPersist := false
			for _, w := range recWrites {
				for _, a := range accStores {
					if a.Block() == w.Block() && ana.InstrIndex(a) < ana.InstrIndex(w) {
						okPersist = true
					} else if a.Block() != w.Block() && ana.ReachesWithout(a, w, nil) && !ana.ReachesWithout(w, a, nil) {
						okPersist = true
					}
				}
			}
			r.Check(okOrder && okPersist, "C03.accepted-first", fname(af)+":order", c.pos(ps), "observed nonce bumped and Accepted=true persisted before the handler is invoked",
				sprintf("before the handler runs: nonce bumped=%v, Accepted=true set=%v, record persisted=%v, persisted after flag=%v", before(nonceSets), before(accStores), before(recWrites), okPersist))
			// guarded by !Accepted
			notAcc := func(cd ana.Cond) (bool, bool) {
				if cd.Op != token.ILLEGAL {
					return false, false
				}
				ld, ok := cd.X.(*ssa.UnOp)
				if !ok {
					return false, false
				}
				fa, ok := ld.X.(*ssa.FieldAddr)
				if !ok {
					return false, false
				}
				if s := structOf(fa.X.Type()); s != nil && s.Field(fa.Field).Name() == "Accepted" {
					return false, true // holds when Accepted is false
				}
				return false, false
			}
			r.Check(c.guardedUp(ps, notAcc), "C03.accepted-first", fname(af)+":refuse-accepted", c.pos(ps), "the apply path is guarded by !record.Accepted", "an already accepted record can be applied again: the !Accepted guard is missing")
		}
	}

	// ---- C03.single-apply -------------------------------------------------------
	r.Min("C03.single-apply", 2)
	var handlers []*ssa.Function
	for _, f := range p.Funcs {
		if f.Name() == "Handle" && f.Signature.Recv() != nil && inPkg(f, "mhub2/keeper") {
			// implements the keeper's ExternalEventProcessor interface field
			handlers = append(handlers, f)
		}
	}
	for _, h := range handlers {
		cur := h
		okChain := true
		var chain []string
		for depth := 0; depth < 6; depth++ {
			var callers []*ssa.Function
			nSites := 0
			for _, e := range p.In[cur] {
				if ana.Outermost(e.Caller) == cur {
					continue // self recursion, checked below
				}
				if !live[e.Caller] {
					continue
				}
				nSites++
				dup := false
				for _, x := range callers {
					if x == e.Caller {
						dup = true
					}
				}
				if !dup {
					callers = append(callers, e.Caller)
				}
			}
			if len(callers) != 1 || nSites != 1 {
				okChain = false
				chain = append(chain, sprintf("%s has %d caller(s) / %d call site(s): %s", fname(cur), len(callers), nSites, names(callers)))
				break
			}
			chain = append(chain, fname(cur)+" <- "+fname(callers[0]))
			cur = callers[0]
			if isRoot(cur, roots.End) {
				break
			}
			if isRoot(cur, roots.Begin) || isRoot(cur, roots.Msg) || isRoot(cur, roots.Gov) || isRoot(cur, roots.InitGen) {
				okChain = false
				chain = append(chain, "reaches a root other than end-block: "+fname(cur))
				break
			}
		}
		if okChain && !isRoot(cur, roots.End) {
			okChain = false
			chain = append(chain, "chain does not end in the end-block tally")
		}
		if okChain {
			r.Ok("C03.single-apply", "chain:"+fname(h), p.Pos(h.Pos()), strings.Join(chain, "; "))
		} else {
			r.Bad("C03.single-apply", "chain:"+fname(h), p.Pos(h.Pos()), "the event handler can be invoked other than through tally -> apply -> process: "+strings.Join(chain, "; "))
		}
		// bounded recursion
		var selfCalls []ssa.CallInstruction
		for _, e := range p.Out[h] {
			if e.Callee == h {
				selfCalls = append(selfCalls, e.Site)
			}
		}
		okRec := true
		why := ""
		for _, sc := range selfCalls {
			fresh := false
			for _, a := range sc.Common().Args {
				if al := ana.AllocOf(a); al != nil {
					if n := ana.NamedOf(al.Type()); n != nil && n.Obj().Name() == "SendToHubEvent" {
						fresh = true
					}
				}
				// what bounds the recursion is the dynamic type of the event passed on: a value whose static
				// type is the concrete *SendToHubEvent selects the deposit case, wherever it was built
				if mi, ok := a.(*ssa.MakeInterface); ok {
					if n := ana.NamedOf(mi.X.Type()); n != nil && n.Obj().Name() == "SendToHubEvent" {
						fresh = true
					}
				}
			}
			if !fresh {
				okRec = false
				why = "self-call at " + c.pos(sc) + " does not pass a value of the concrete type *SendToHubEvent"
			}
		}
		// no self call reachable from the SendToHubEvent case
		ana.Instrs(h, func(in ssa.Instruction) {
			ta, ok := in.(*ssa.TypeAssert)
			if !ok || !ta.CommaOk {
				return
			}
			if n := ana.NamedOf(ta.AssertedType); n == nil || n.Obj().Name() != "SendToHubEvent" {
				return
			}
			// find the If on the ok component
			for _, ref := range *ta.Referrers() {
				ex, ok := ref.(*ssa.Extract)
				if !ok || ex.Index != 1 {
					continue
				}
				for _, rr := range *ex.Referrers() {
					iff, ok := rr.(*ssa.If)
					if !ok {
						continue
					}
					caseB := iff.Block().Succs[0]
					seen := map[*ssa.BasicBlock]bool{}
					stack := []*ssa.BasicBlock{caseB}
					for len(stack) > 0 {
						b := stack[len(stack)-1]
						stack = stack[:len(stack)-1]
						if seen[b] {
							continue
						}
						seen[b] = true
						stack = append(stack, b.Succs...)
					}
					for _, sc := range selfCalls {
						if seen[sc.Block()] {
							okRec = false
							why = "a self-call is reachable from the SendToHubEvent case: unbounded recursion"
						}
					}
				}
			}
		})
		r.Check(okRec, "C03.single-apply", "recursion:"+fname(h), p.Pos(h.Pos()), sprintf("%d self-call(s), each with a fresh SendToHubEvent whose case does not recurse", len(selfCalls)), why)
	}
	if len(handlers) == 0 {
		r.Undecided("C03.single-apply", "handler", "-", "no external-event handler found")
	}

	// ---- C03.contiguity (= C02.one-vote) ----------------------------------------
	r.Min("C03.contiguity", 5)
	msgBlock := p.Reach(append(append([]*ssa.Function{}, roots.Msg...), roots.Block...)...)
	vas := votesAppends(c, msgBlock, "ExternalEventVoteRecord")
	for _, st := range vas {
		c.checkContiguity("C03.contiguity", st)
	}
	c.checkNonceWriters("C03.contiguity", vas)
}
