package rules

import (
	"encoding/hex"
	"encoding/json"
	"go/constant"
	"go/token"
	"go/types"
	"path/filepath"
	"strings"

	"golang.org/x/tools/go/ssa"

	"mhubsa/ana"
	"mhubsa/load"
	"mhubsa/sol"
)

func init() {
	register("C07", Meta{
		Explanation: "Cross-artefact agreement of the three checkpoint digests (necessary conditions of 'sign-bytes agree with the contract'): (type-lists) for the signer-set, batch and logic-call digests the ordered ABI type list agrees three ways – the arguments of the contract's abi.encode (types resolved from parameters, state variables, LogicCallArgs fields and 32-byte literals), the inputs of the Go ABI JSON constant and method that GetCheckpoint packs with, and the static Go types of the packed argument slice; (field-map) position k of each Go argument list derives from the hub field that corresponds to the contract argument at position k (frozen correspondence table), array arguments are made with the length of the source list and filled at every index of a full range over it (no filtering, no reordering), fixed bytes32 arguments are left-aligned copies; (salts) the Go method-name salts right-padded to 32 bytes equal the hex literals of Hub2.sol; (pure) every return of a GetCheckpoint method is the pack helper's result for that call and no code it reaches writes package-level state (no memoised digests); (pack) the pack helper hashes Pack(...)[4:] with Keccak-256; (eip191) the EIP-191 prefix string is byte-identical in the Go signer, the Go verifier and the contract's verifySig (and in keys-generator), signer and verifier both hash prefix‖digest with Keccak-256, and V in {27,28} is normalised before recovery.",
		NotDecided:  []string{"that go-ethereum abi.Pack and solc abi.encode implement the same ABI for equal type lists (trusted)", "that a produced signature verifies for the signer's address and no other (a fact about secp256k1)", "numeric ranges (uint64 nonces cast through int64)"},
		Assumptions: append(append([]string{}, commonAssumptions...), "go-ethereum abi.Pack and solc abi.encode implement the same ABI specification", "Keccak-256 is collision resistant", "Hub2.sol is read by the purpose-built reader in sa/sol (validated by requiring the expected functions and abi.encode sites)"),
	}, checkC07)
}

// Sol loads Hub2.sol.
func (c *Ctx) Sol() (*sol.File, error) {
	return sol.Parse(filepath.Join(load.RepoRoot(), "solidity", "contracts", "Hub2.sol"))
}

func goABIType(t types.Type) string {
	switch x := t.(type) {
	case *types.Array:
		if b, ok := x.Elem().Underlying().(*types.Basic); ok && (b.Kind() == types.Uint8 || b.Kind() == types.Byte) && x.Len() == 32 {
			return "bytes32"
		}
	case *types.Slice:
		if b, ok := x.Elem().Underlying().(*types.Basic); ok && (b.Kind() == types.Uint8 || b.Kind() == types.Byte) {
			return "bytes"
		}
		return goABIType(x.Elem()) + "[]"
	case *types.Pointer:
		if n := ana.NamedOf(x.Elem()); n != nil && n.Obj().Name() == "Int" && n.Obj().Pkg().Path() == "math/big" {
			return "uint256"
		}
	case *types.Named:
		if x.Obj().Name() == "Address" {
			return "address"
		}
		if x.Obj().Name() == "Hash" {
			return "bytes32"
		}
		return goABIType(x.Underlying())
	}
	return "?" + t.String()
}

type digest struct {
	goType  string   // hub type whose GetCheckpoint builds it
	solFn   string   // contract function holding the abi.encode
	fields  []string // Go source leaf expected at each position (""=gravity id, "salt"=method salt)
	solArgs []string // contract argument expected at each position
}

var digests = []digest{
	{"SignerSetTx", "makeCheckpoint",
		[]string{"", "salt", "SignerSetTx.Nonce", "ExternalSigner.ExternalAddress", "ExternalSigner.Power"},
		[]string{"_gravityId", "methodName", "_valsetNonce", "_validators", "_powers"}},
	{"BatchTx", "submitBatch",
		[]string{"", "salt", "SendToExternal.Token.Amount", "SendToExternal.ExternalRecipient", "SendToExternal.Fee.Amount", "BatchTx.BatchNonce", "BatchTx.ExternalTokenId", "BatchTx.Timeout"},
		[]string{"state_gravityId", "0x", "_amounts", "_destinations", "_fees", "_batchNonce", "_tokenContract", "_batchTimeout"}},
	{"ContractCallTx", "submitLogicCall",
		[]string{"", "salt", "ExternalToken.Amount", "ExternalToken.ExternalTokenId", "ExternalToken.Amount", "ExternalToken.ExternalTokenId", "ContractCallTx.Address", "ContractCallTx.Payload", "ContractCallTx.Timeout", "ContractCallTx.InvalidationScope", "ContractCallTx.InvalidationNonce"},
		[]string{"state_gravityId", "0x", "_args.transferAmounts", "_args.transferTokenContracts", "_args.feeAmounts", "_args.feeTokenContracts", "_args.logicContractAddress", "_args.payload", "_args.timeOut", "_args.invalidationId", "_args.invalidationNonce"}},
}

// containers of the array arguments of the logic call (position -> field of ContractCallTx)
var logicContainers = map[int]string{2: "ContractCallTx.Tokens", 3: "ContractCallTx.Tokens", 4: "ContractCallTx.Fees", 5: "ContractCallTx.Fees"}

func checkC07(c *Ctx) {
	p, r := c.P, c.R
	r.Min("C07.type-lists", 3)
	r.Min("C07.field-map", 24)
	r.Min("C07.salts", 3)
	r.Min("C07.pack", 1)
	r.Min("C07.pure", 3)
	r.Min("C07.eip191", 3)
	sf, err := c.Sol()
	if err != nil {
		r.InfraErr = "Hub2.sol: " + err.Error()
		return
	}
	r.Analysed["sol_functions"] = len(sf.Funcs)
	r.Analysed["sol_events"] = len(sf.Events)

	// the gravity id handed to the digest functions is the configured parameter as stored: the contract was
	// deployed with that very string
	nGid := 0
	for _, f := range sortedFuncs(c.LiveReach()) {
		if p.L.IsGenerated(f.Pos()) || inPkg(f, "mhub2/types") {
			continue
		}
		ana.Calls(f, func(site ssa.CallInstruction, d ana.CalleeDesc) {
			if d.Name != "GetCheckpoint" || len(site.Common().Args) == 0 {
				return
			}
			args := site.Common().Args
			gid := args[len(args)-1]
			l := p.Leaves(gid, ana.PVOpt{})
			nGid++
			lossy := lossyStep(p, gid, l)
			arith := false
			for op := range l.Ops {
				if strings.HasPrefix(op, "binop:") || op == "index" {
					arith = true
				}
			}
			r.Check(lossy == "" && !arith, "C07.field-map", "gravity-id-source:"+fname(f), c.pos(site.(ssa.Instruction)), "the gravity id passed to the digest is the stored parameter, unchanged",
				"the gravity id passed to GetCheckpoint is not the configured parameter as stored (it passes through "+lossy+"): for ids the step changes, every hub digest differs from the contract's")
		})
	}
	if nGid == 0 {
		r.Undecided("C07.field-map", "gravity-id-source", "-", "no call of GetCheckpoint found in the keeper")
	}

	var packFn *ssa.Function
	for _, dg := range digests {
		gf := p.Func("mhub2/types." + dg.goType + ".GetCheckpoint")
		sfn := sf.Funcs[dg.solFn]
		if gf == nil || sfn == nil {
			r.Undecided("C07.type-lists", dg.goType, "-", "GetCheckpoint method or contract function "+dg.solFn+" not found")
			continue
		}
		// contract side
		encs := sfn.Calls("abi", "encode")
		if len(encs) != 1 {
			r.Undecided("C07.type-lists", dg.goType, sprintf("Hub2.sol:%d", sfn.Line), sprintf("%d abi.encode sites in %s, expected one", len(encs), dg.solFn))
			continue
		}
		solArgs := sol.SplitArgs(encs[0])
		var solTypes, solTexts []string
		for _, a := range solArgs {
			solTypes = append(solTypes, sf.TypeOf(sfn, a))
			solTexts = append(solTexts, sol.Text(a))
		}
		// Go side: the packCall call
		var pack *ssa.Call
		ana.Instrs(gf, func(in ssa.Instruction) {
			if call, ok := in.(*ssa.Call); ok {
				if callee := call.Call.StaticCallee(); callee != nil && p.IsModule(callee) && len(call.Call.Args) == 3 {
					if _, isSlice := call.Call.Args[2].Type().Underlying().(*types.Slice); isSlice {
						pack = call
						packFn = callee
					}
				}
			}
		})
		if pack == nil {
			r.Undecided("C07.type-lists", dg.goType, p.Pos(gf.Pos()), "no call of the pack helper found")
			continue
		}
		// the digest is a function of the transaction alone: every return hands back the pack helper's result of
		// this call, and nothing the digest code can reach writes package-level state (no memoisation)
		okRet := true
		ana.Instrs(gf, func(in ssa.Instruction) {
			if ret, ok := in.(*ssa.Return); ok && in.Parent() == gf {
				if len(ret.Results) != 1 || ret.Results[0] != ssa.Value(pack) {
					okRet = false
				}
			}
		})
		gw := c.globalWrites(p.Reach(gf), nil)
		why := ""
		if !okRet {
			why = "a return of GetCheckpoint does not hand back the packed-and-hashed encoding of this call"
		}
		for _, w := range gw {
			gn := "sync.Map"
			if w.g != nil {
				gn = w.g.Name()
			}
			why += sprintf("; %s %s the package-level variable %s at %s", fname(w.f), w.how, gn, c.pos(w.in))
		}
		r.Check(okRet && len(gw) == 0, "C07.pure", dg.goType, p.Pos(gf.Pos()), "every return is the pack helper's result for this transaction; no package-level state is written",
			"the digest is not a pure function of the transaction: "+strings.TrimPrefix(why, "; "))
		abiJSON, ok1 := constString(pack.Call.Args[0])
		method, ok2 := constString(pack.Call.Args[1])
		if !ok1 || !ok2 {
			r.Undecided("C07.type-lists", dg.goType, c.pos(pack), "ABI JSON / method name passed to the pack helper are not constants")
			continue
		}
		var abiDef []struct {
			Name   string `json:"name"`
			Type   string `json:"type"`
			Inputs []struct {
				Name string `json:"name"`
				Type string `json:"type"`
			} `json:"inputs"`
		}
		if err := json.Unmarshal([]byte(abiJSON), &abiDef); err != nil {
			r.Bad("C07.type-lists", dg.goType, c.pos(pack), "the ABI JSON constant does not parse: "+err.Error())
			continue
		}
		var jsonTypes []string
		found := false
		for _, m := range abiDef {
			if m.Name == method && m.Type == "function" {
				found = true
				for _, in := range m.Inputs {
					jsonTypes = append(jsonTypes, in.Type)
				}
			}
		}
		if !found {
			r.Bad("C07.type-lists", dg.goType, c.pos(pack), "method "+method+" is not in the ABI JSON constant")
			continue
		}
		// Go argument slice
		var goArgs []ssa.Value
		if sl, ok := pack.Call.Args[2].(*ssa.Slice); ok {
			if a, ok := sl.X.(*ssa.Alloc); ok {
				elems := arrayElems(a)
				goArgs = elems
			}
		}
		var goTypes []string
		for _, a := range goArgs {
			v := a
			if mi, ok := v.(*ssa.MakeInterface); ok {
				v = mi.X
			}
			goTypes = append(goTypes, goABIType(v.Type()))
		}
		same := strings.Join(solTypes, ",") == strings.Join(jsonTypes, ",") && strings.Join(jsonTypes, ",") == strings.Join(goTypes, ",") && len(solTypes) == len(dg.fields)
		r.Check(same, "C07.type-lists", dg.goType, c.pos(pack), sprintf("contract, ABI JSON (%s) and Go arguments agree on %d positions: %s", method, len(solTypes), strings.Join(solTypes, ",")),
			sprintf("the ordered ABI type lists disagree: contract %s(%v) / ABI JSON %s(%v) / Go arguments (%v)", dg.solFn, solTypes, method, jsonTypes, goTypes))
		// contract argument names at each position
		for k := range dg.solArgs {
			if k >= len(solTexts) {
				break
			}
			want := dg.solArgs[k]
			okN := solTexts[k] == want || (want == "0x" && strings.HasPrefix(solTexts[k], "0x"))
			if !okN {
				r.Bad("C07.field-map", sprintf("%s#%d:contract", dg.goType, k), sprintf("Hub2.sol:%d", sfn.Line), sprintf("the contract hashes %s at position %d, the frozen table expects %s", solTexts[k], k, want))
			}
		}
		// field map
		for k, want := range dg.fields {
			if k >= len(goArgs) {
				break
			}
			key := sprintf("%s#%d:%s", dg.goType, k, strings.TrimPrefix(dg.solArgs[k], "_"))
			v := goArgs[k]
			if mi, ok := v.(*ssa.MakeInterface); ok {
				v = mi.X
			}
			switch want {
			case "":
				l := p.Leaves(v, ana.PVOpt{})
				okG := false
				for lab := range l.Leaves {
					if strings.HasPrefix(lab, "param:") && strings.HasSuffix(lab, ":gravityID") {
						okG = true
					}
				}
				// any single parameter of the method is accepted as the id (name-independent)
				if !okG {
					for lab := range l.Leaves {
						if strings.HasPrefix(lab, "param:"+fname(gf)+"#1:") {
							okG = true
						}
					}
				}
				if okG {
					if lossy := lossyStep(p, v, l); lossy != "" {
						r.Bad("C07.field-map", key, c.pos(pack), "the gravity id passes through "+lossy+" on its way into the digest: the contract holds its UTF-8 bytes, right-padded")
						break
					}
				}
				r.Check(okG, "C07.field-map", key, c.pos(pack), "position 0 is the gravity id parameter", "position 0 of the digest is not the gravity id parameter")
			case "salt":
				// checked by C07.salts
				r.Ok("C07.field-map", key, c.pos(pack), "method salt (see C07.salts)")
			default:
				l := p.Leaves(v, ana.PVOpt{})
				var msgFields []string
				for _, f := range l.Fields() {
					msgFields = append(msgFields, f)
				}
				okF := len(msgFields) >= 1
				for _, f := range msgFields {
					if f != want && f != dg.goType+".Signers" && f != dg.goType+".Transactions" && f != logicContainers[k] {
						okF = false
					}
				}
				has := false
				for _, f := range msgFields {
					if f == want {
						has = true
					}
				}
				detail := ""
				okShape := true
				// arrays: made with the source length and filled over the full range; scalars: no arithmetic
				if _, isSlice := v.Type().Underlying().(*types.Slice); isSlice && goABIType(v.Type()) != "bytes" {
					okShape, detail = arrayFilledFromFullRange(v)
					if dg.goType == "ContractCallTx" && okShape {
						// the container it ranges over
						cont := logicContainers[k]
						hasC := false
						for _, f := range msgFields {
							if f == cont {
								hasC = true
							}
						}
						if !hasC {
							okShape, detail = false, "array does not range over "+cont
						}
					}
				} else if goABIType(v.Type()) == "bytes32" {
					okShape, detail = leftAlignedCopy(v)
				} else {
					for op := range l.Ops {
						if strings.HasPrefix(op, "binop:") {
							okShape, detail = false, "arithmetic ("+op+") on the hashed value"
						}
					}
				}
				if okShape {
					if lossy := lossyStep(p, v, l); lossy != "" {
						okShape, detail = false, "the value passes through "+lossy+" on its way into the digest (the contract hashes the value as it is)"
					}
				}
				r.Check(okF && has && okShape, "C07.field-map", key, c.pos(pack), sprintf("position %d <- %s", k, want),
					sprintf("position %d of the %s digest (contract argument %s) is not fed from %s alone: derives from %v %s", k, dg.goType, dg.solArgs[k], want, msgFields, detail))
			}
		}
		// salts
		c.checkSalt(dg, gf, goArgs, sfn, solArgs)
	}

	// ---- pack --------------------------------------------------------------------------------
	if packFn != nil {
		okPack := false
		detail := ""
		ana.Instrs(packFn, func(in ssa.Instruction) {
			ret, ok := in.(*ssa.Return)
			if !ok || len(ret.Results) != 1 {
				return
			}
			l := p.Leaves(ret.Results[0], ana.PVOpt{Opaque: func(d ana.CalleeDesc) bool { return d.Name == "Pack" || d.Name == "JSON" }})
			if !(l.HasOp("Keccak256Hash") || l.HasOp("Keccak256")) {
				detail = "result is not a Keccak-256 hash"
				return
			}
			// the hashed value is Pack(...)[4:]
			var packSlices []*ssa.Slice
			var packCall *ssa.Call
			ana.Instrs(packFn, func(i2 ssa.Instruction) {
				sl, ok := i2.(*ssa.Slice)
				if !ok {
					return
				}
				if call, _ := ana.UnwrapCall(sl.X); call != nil {
					if d, _ := ana.Describe(&call.Call); d.Name == "Pack" {
						packSlices = append(packSlices, sl)
						packCall = call
					}
				}
			})
			if len(packSlices) == 1 && packCall != nil {
				sl := packSlices[0]
				if k, ok := sl.Low.(*ssa.Const); ok && k.Value != nil && k.Value.ExactString() == "4" && sl.High == nil {
					ana.Instrs(packFn, func(i2 ssa.Instruction) {
						if hc, ok := i2.(*ssa.Call); ok {
							if dd, _ := ana.Describe(&hc.Call); dd.Name == "Keccak256Hash" || dd.Name == "Keccak256" {
								lh := p.Leaves(hc.Call.Args[0], ana.PVOpt{Opaque: func(d ana.CalleeDesc) bool { return d.Name == "Pack" || d.Name == "JSON" }})
								only := true
								for lab := range lh.Leaves {
									if !strings.HasSuffix(lab, ".Pack") && !strings.HasPrefix(lab, "const:") {
										only = false
									}
								}
								if lh.HasCall("ABI.Pack") && only {
									okPack = true
								}
							}
						}
					})
				}
			}
			if !okPack {
				detail = "the hashed bytes are not Pack(...)[4:]"
			}
		})
		r.Check(okPack, "C07.pack", fname(packFn), p.Pos(packFn.Pos()), "digest = Keccak256(Pack(method, args...)[4:]) – selector dropped, nothing else", "the pack helper does not hash exactly the ABI-packed arguments without the 4-byte selector: "+detail)
	} else {
		r.Undecided("C07.pack", "helper", "-", "pack helper not found")
	}

	// ---- eip191 --------------------------------------------------------------------------------
	c.checkEIP191(sf)
}

func constString(v ssa.Value) (string, bool) {
	k, ok := v.(*ssa.Const)
	if !ok || k.Value == nil || k.Value.Kind() != constant.String {
		return "", false
	}
	return constant.StringVal(k.Value), true
}

// arrayElems returns the elements of a "new [N]T (slicelit)" allocation in index order.
func arrayElems(a *ssa.Alloc) []ssa.Value {
	m := map[int64]ssa.Value{}
	var max int64 = -1
	for _, ref := range *a.Referrers() {
		ia, ok := ref.(*ssa.IndexAddr)
		if !ok {
			continue
		}
		k, ok := ia.Index.(*ssa.Const)
		if !ok || k.Value == nil {
			continue
		}
		idx, _ := constant.Int64Val(k.Value)
		for _, rr := range *ia.Referrers() {
			if st, ok := rr.(*ssa.Store); ok && st.Addr == ssa.Value(ia) {
				m[idx] = st.Val
				if idx > max {
					max = idx
				}
			}
		}
	}
	var out []ssa.Value
	for i := int64(0); i <= max; i++ {
		out = append(out, m[i])
	}
	return out
}

// arrayFilledFromFullRange: v is make([]T, len(X)) and v[i] is stored, unconditionally, in a full range over X.
func arrayFilledFromFullRange(v ssa.Value) (bool, string) {
	ms, ok := v.(*ssa.MakeSlice)
	if !ok {
		return false, "(the array is not make([]T, len(source)))"
	}
	lc, ok := ms.Len.(*ssa.Call)
	if !ok {
		return false, "(array length is not len(source))"
	}
	if b, ok := lc.Call.Value.(*ssa.Builtin); !ok || b.Name() != "len" {
		return false, "(array length is not len(source))"
	}
	src := lc.Call.Args[0]
	okStore := false
	for _, ref := range *ms.Referrers() {
		ia, ok := ref.(*ssa.IndexAddr)
		if !ok {
			continue
		}
		// the index is the index of a full range over src
		var srcIA *ssa.IndexAddr
		for _, in := range ia.Block().Instrs {
			if x, ok := in.(*ssa.IndexAddr); ok && x.Index == ia.Index && sameSource(x.X, src) {
				srcIA = x
			}
		}
		if srcIA == nil || !fullRange(srcIA) {
			continue
		}
		// unconditional: the store's block is the loop body entered straight from the header
		for _, rr := range *ia.Referrers() {
			if st, ok := rr.(*ssa.Store); ok && st.Addr == ssa.Value(ia) {
				blk := st.Block()
				// a pointer element is made in the iteration that stores it: one object stored at every index
				// would make every element the last one
				if _, isPtr := st.Val.Type().Underlying().(*types.Pointer); isPtr {
					if fresh := freshIn(st.Val, blk); !fresh {
						return false, "(every element of the array is the same object: the value stored is created outside the loop and only modified inside it)"
					}
				}
				if len(blk.Preds) == 1 {
					if _, isIf := blk.Preds[0].Instrs[len(blk.Preds[0].Instrs)-1].(*ssa.If); isIf {
						if bo, ok := blk.Preds[0].Instrs[len(blk.Preds[0].Instrs)-1].(*ssa.If).Cond.(*ssa.BinOp); ok && bo.Op == token.LSS {
							okStore = true
						}
					}
				}
			}
		}
	}
	if !okStore {
		return false, "(the array is not filled at every index of a full range over its source)"
	}
	return true, ""
}

func sameSource(a, b ssa.Value) bool {
	if a == b {
		return true
	}
	// loads of the same field address expression
	la, ok1 := a.(*ssa.UnOp)
	lb, ok2 := b.(*ssa.UnOp)
	if ok1 && ok2 {
		fa, ok3 := la.X.(*ssa.FieldAddr)
		fb, ok4 := lb.X.(*ssa.FieldAddr)
		if ok3 && ok4 && fa.Field == fb.Field && fa.X == fb.X {
			return true
		}
	}
	return false
}

// leftAlignedCopy: v is a load of a local [32]byte filled by copy(local[:], src) (left aligned).
func leftAlignedCopy(v ssa.Value) (bool, string) {
	ld, ok := v.(*ssa.UnOp)
	if !ok {
		return false, "(the bytes32 value is not a local array)"
	}
	a, ok := ld.X.(*ssa.Alloc)
	if !ok {
		return false, "(the bytes32 value is not a local array)"
	}
	for _, ref := range *a.Referrers() {
		sl, ok := ref.(*ssa.Slice)
		if !ok || sl.Low != nil {
			continue
		}
		for _, rr := range *sl.Referrers() {
			if call, ok := rr.(*ssa.Call); ok {
				if b, ok := call.Call.Value.(*ssa.Builtin); ok && b.Name() == "copy" && call.Call.Args[0] == ssa.Value(sl) {
					return true, ""
				}
			}
		}
	}
	return false, "(the bytes32 value is not a left-aligned copy of the source bytes)"
}

// copySource returns the source of the copy filling a local fixed array.
func copySource(v ssa.Value) ssa.Value {
	ld, ok := v.(*ssa.UnOp)
	if !ok {
		return nil
	}
	a, ok := ld.X.(*ssa.Alloc)
	if !ok {
		return nil
	}
	for _, ref := range *a.Referrers() {
		sl, ok := ref.(*ssa.Slice)
		if !ok {
			continue
		}
		for _, rr := range *sl.Referrers() {
			if call, ok := rr.(*ssa.Call); ok {
				if b, ok := call.Call.Value.(*ssa.Builtin); ok && b.Name() == "copy" && call.Call.Args[0] == ssa.Value(sl) {
					return call.Call.Args[1]
				}
			}
		}
	}
	return nil
}

func (c *Ctx) checkSalt(dg digest, gf *ssa.Function, goArgs []ssa.Value, sfn *sol.Func, solArgs [][]sol.Tok) {
	p, r := c.P, c.R
	if len(goArgs) < 2 || len(solArgs) < 2 {
		r.Undecided("C07.salts", dg.goType, p.Pos(gf.Pos()), "fewer than two digest arguments")
		return
	}
	v := goArgs[1]
	if mi, ok := v.(*ssa.MakeInterface); ok {
		v = mi.X
	}
	goSalt := ""
	if src := copySource(v); src != nil {
		// []uint8("text")[:]
		l := p.Leaves(src, ana.PVOpt{})
		for lab := range l.Leaves {
			if strings.HasPrefix(lab, `const:"`) {
				goSalt = strings.Trim(strings.TrimPrefix(lab, "const:"), `"`)
			}
		}
	}
	if goSalt == "" {
		// the padding may live in a helper: the salt is then the single string constant the array value derives from
		l := p.Leaves(v, ana.PVOpt{})
		n := 0
		for lab := range l.Leaves {
			if strings.HasPrefix(lab, `const:"`) {
				goSalt = strings.Trim(strings.TrimPrefix(lab, "const:"), `"`)
				n++
			} else if !strings.HasPrefix(lab, "const:") {
				n += 2
			}
		}
		if n != 1 {
			goSalt = ""
		}
	}
	// contract literal: directly or through a local initialiser
	lit := sol.Text(solArgs[1])
	if !strings.HasPrefix(lit, "0x") {
		if init, ok := sfn.Inits[lit]; ok {
			lit = sol.Text(init)
		}
	}
	want := make([]byte, 32)
	copy(want, []byte(goSalt))
	ok := goSalt != "" && len(goSalt) <= 32 && strings.EqualFold(lit, "0x"+hex.EncodeToString(want))
	r.Check(ok, "C07.salts", dg.goType, p.Pos(gf.Pos()), sprintf("Go salt %q right-padded == contract literal %s", goSalt, lit), sprintf("the method-name salt differs: Go %q vs contract literal %s", goSalt, lit))
}

func (c *Ctx) checkEIP191(sf *sol.File) {
	p, r := c.P, c.R
	// contract prefix
	solPrefix := ""
	if vs := sf.Funcs["verifySig"]; vs != nil {
		for _, call := range vs.Calls("abi", "encodePacked") {
			args := sol.SplitArgs(call)
			if len(args) == 2 && len(args[0]) == 1 && args[0][0].Kind == 2 {
				s := args[0][0].S
				s = strings.Trim(s, `"`)
				s = strings.ReplaceAll(s, `\x19`, "\x19")
				s = strings.ReplaceAll(s, `\n`, "\n")
				solPrefix = s
			}
		}
	}
	// Go prefix constant(s) used by signer and verifier
	check := func(name string, needNormalise bool) {
		f := p.Func("mhub2/types." + name)
		if f == nil {
			r.Undecided("C07.eip191", name, "-", "function not found")
			return
		}
		okPrefix, okHash := false, false
		ana.Instrs(f, func(in ssa.Instruction) {
			call, ok := in.(*ssa.Call)
			if !ok {
				return
			}
			d, _ := ana.Describe(&call.Call)
			if d.Name == "Keccak256Hash" || d.Name == "Keccak256" {
				okHash = true
				l := p.Leaves(call.Call.Args[0], ana.PVOpt{})
				for lab := range l.Leaves {
					if strings.HasPrefix(lab, "const:") {
						if s, err := unquote(strings.TrimPrefix(lab, "const:")); err == nil && s == solPrefix && s != "" {
							okPrefix = true
						}
					}
				}
				// prefix first, digest second: the hashed bytes are the concatenation of exactly these two
				pcs, isList := p.PiecesOfList(call.Call.Args[0], nil)
				if !isList {
					pcs = p.Pieces(call.Call.Args[0], nil)
				}
				if len(pcs) != 2 {
					okHash = false
				} else {
					l0 := p.Leaves(pcs[0].Val, ana.PVOpt{})
					first := false
					for lab := range l0.Leaves {
						if strings.HasPrefix(lab, "const:") {
							if s, err := unquote(strings.TrimPrefix(lab, "const:")); err == nil && s == solPrefix {
								first = true
							}
						}
					}
					if !first {
						okHash = false
					}
				}
			}
		})
		okNorm := true
		if needNormalise {
			okNorm = false
			// sig[64] -= 27 under sig[64] == 27 || sig[64] == 28, before SigToPub
			var sub *ssa.BinOp
			scan := func(g *ssa.Function) {
				ana.Instrs(g, func(in ssa.Instruction) {
					if bo, ok := in.(*ssa.BinOp); ok && bo.Op == token.SUB {
						if k, ok := bo.Y.(*ssa.Const); ok && k.Value != nil && k.Value.ExactString() == "27" {
							sub = bo
						}
					}
				})
			}
			scan(f)
			if sub == nil {
				// the normalisation may live in a helper of the same package that is handed the signature
				for _, e := range p.Out[f] {
					if e.Kind == "static" && e.Callee.Pkg == f.Pkg && sub == nil {
						scan(e.Callee)
					}
				}
			}
			if sub != nil {
				atom := ana.AtomCmp(func(op token.Token, x, y ssa.Value) (bool, bool) {
					if op != token.EQL {
						return false, false
					}
					if k, ok := y.(*ssa.Const); ok && k.Value != nil && (k.Value.ExactString() == "27" || k.Value.ExactString() == "28") {
						return true, true
					}
					return false, false
				})
				if ana.Guarded(sub, atom) {
					okNorm = true
				}
			}
		}
		r.Check(okPrefix && okHash && okNorm, "C07.eip191", name, p.Pos(f.Pos()), "hashes contract-identical prefix ‖ digest with Keccak-256"+map[bool]string{true: ", V normalised from 27/28", false: ""}[needNormalise],
			sprintf("%s does not hash the contract's EIP-191 prefix followed by the digest (prefix identical=%v, keccak(prefix‖digest)=%v, V normalised=%v)", name, okPrefix, okHash, okNorm))
	}
	check("NewEthereumSignature", false)
	check("ValidateEthereumSignature", true)
	// the verifier recovers one address from the signature as it is (after the 27/28 normalisation) and compares
	// it: a second recovery with another recovery id accepts signatures the contract's ecrecover attributes to
	// another address
	if vf := p.Func("mhub2/types.ValidateEthereumSignature"); vf != nil {
		nRec := 0
		for g := range p.ReachCS(vf) {
			if g.Pkg != vf.Pkg {
				continue
			}
			ana.Calls(g, func(site ssa.CallInstruction, d ana.CalleeDesc) {
				if d.Name == "SigToPub" || d.Name == "Ecrecover" || d.Name == "RecoverPubkey" {
					nRec++
				}
			})
		}
		r.Check(nRec == 1, "C07.eip191", "single-recovery", p.Pos(vf.Pos()), "the verifier recovers the signer once", sprintf("the verifier recovers a public key %d times: a signature is accepted if any of several recovery ids yields the expected address, while the contract recovers exactly one address from the same bytes", nRec))
	}
	r.Check(solPrefix == "\x19Ethereum Signed Message:\n32", "C07.eip191", "contract", sprintf("Hub2.sol:%d", lineOf(sf, "verifySig")), "verifySig hashes \"\\x19Ethereum Signed Message:\\n32\" ‖ digest", "the contract's verifySig prefix is not the 32-byte EIP-191 prefix: "+solPrefix)
	// the verifier compares the recovered address with the expected one
	if f := p.Func("mhub2/types.ValidateEthereumSignature"); f != nil {
		_, succ := ana.Returns(f)
		eq := ana.AtomCmp(func(op token.Token, x, y ssa.Value) (bool, bool) {
			if op != token.EQL && op != token.NEQ {
				return false, false
			}
			lx := p.Leaves(x, ana.PVOpt{Opaque: func(d ana.CalleeDesc) bool { return d.Name == "SigToPub" }})
			ly := p.Leaves(y, ana.PVOpt{})
			if (lx.HasCall("SigToPub") || lx.HasOp("PubkeyToAddress") || lx.HasCall("PubkeyToAddress")) && ly.HasPrefix("param:") {
				return op == token.EQL, true
			}
			lx2 := p.Leaves(y, ana.PVOpt{Opaque: func(d ana.CalleeDesc) bool { return d.Name == "SigToPub" }})
			ly2 := p.Leaves(x, ana.PVOpt{})
			if (lx2.HasCall("SigToPub") || lx2.HasOp("PubkeyToAddress") || lx2.HasCall("PubkeyToAddress")) && ly2.HasPrefix("param:") {
				return op == token.EQL, true
			}
			return false, false
		})
		okCmp := len(succ) > 0
		for _, s := range succ {
			if !ana.Guarded(s, eq) {
				okCmp = false
			}
		}
		r.Check(okCmp, "C07.eip191", "recovered-address", p.Pos(f.Pos()), "success only when the recovered address equals the expected address", "ValidateEthereumSignature can succeed without the recovered address equalling the expected one")
	}
}

func lineOf(sf *sol.File, fn string) int {
	if f := sf.Funcs[fn]; f != nil {
		return f.Line
	}
	return 0
}

func unquote(s string) (string, error) {
	v := constant.MakeFromLiteral(s, token.STRING, 0)
	if v.Kind() != constant.String {
		return "", errNotString
	}
	return constant.StringVal(v), nil
}

var errNotString = &strErr{"not a string"}

type strErr struct{ s string }

func (e *strErr) Error() string { return e.s }

// lossyStep names a step on the way from a hub field to a digest argument that does not keep the value: decoding
// helpers that silently yield something else for part of the input space (Hex2Bytes / FromHex of a prefixed
// string, sub-string slicing), narrowing integer conversions (a rune stored as a byte) and case folding.
func lossyStep(p *ana.Prog, v ssa.Value, l *ana.Prov) string {
	for _, op := range l.OpList() {
		switch {
		case strings.HasSuffix(op, "Hex2Bytes"), strings.HasSuffix(op, "FromHex"), strings.HasSuffix(op, "Hex2BytesFixed"):
			return op
		case strings.HasSuffix(op, "ToLower"), strings.HasSuffix(op, "ToUpper"), strings.HasSuffix(op, "TrimSpace"), strings.Contains(op, "TrimPrefix"), strings.Contains(op, "TrimLeft"),
			op == "TrimRight", op == "TrimSuffix", op == "Trim", op == "ReplaceAll", op == "Replace", op == "ToTitle", op == "ToValidUTF8":
			return op
		}
	}
	// narrowing conversions and string slicing anywhere in the functions that build the value
	seen := map[ssa.Value]bool{}
	var out string
	var walk func(v ssa.Value, depth int)
	walk = func(v ssa.Value, depth int) {
		if v == nil || depth > 10 || seen[v] || out != "" {
			return
		}
		seen[v] = true
		switch x := v.(type) {
		case *ssa.Convert:
			from, ok1 := x.X.Type().Underlying().(*types.Basic)
			to, ok2 := x.Type().Underlying().(*types.Basic)
			if ok1 && ok2 && from.Info()&types.IsInteger != 0 && to.Info()&types.IsInteger != 0 && intBits(to) < intBits(from) {
				out = "a conversion from " + from.Name() + " to " + to.Name()
				return
			}
			walk(x.X, depth+1)
		case *ssa.Slice:
			if b, ok := x.X.Type().Underlying().(*types.Basic); ok && b.Info()&types.IsString != 0 && (x.Low != nil || x.High != nil) {
				out = "a sub-string"
				return
			}
			walk(x.X, depth+1)
		case *ssa.Call:
			for _, a := range x.Call.Args {
				walk(a, depth+1)
			}
			if callee := x.Call.StaticCallee(); callee != nil && p.IsModule(callee) && callee.Blocks != nil && !p.L.IsGenerated(callee.Pos()) && depth < 4 {
				ana.Instrs(callee, func(in ssa.Instruction) {
					switch y := in.(type) {
					case *ssa.Return:
						for _, rv := range y.Results {
							walk(rv, depth+1)
						}
					case *ssa.Store:
						walk(y.Val, depth+1)
					}
				})
			}
		case *ssa.UnOp:
			walk(x.X, depth+1)
		case *ssa.ChangeType:
			walk(x.X, depth+1)
		case *ssa.MakeInterface:
			walk(x.X, depth+1)
		case *ssa.Phi:
			for _, e := range x.Edges {
				walk(e, depth+1)
			}
		case *ssa.Extract:
			walk(x.Tuple, depth+1)
		case *ssa.Alloc:
			for _, ref := range *x.Referrers() {
				if st, ok := ref.(*ssa.Store); ok && st.Addr == ssa.Value(x) {
					walk(st.Val, depth+1)
				}
				if ia, ok := ref.(*ssa.IndexAddr); ok {
					for _, r2 := range *ia.Referrers() {
						if st, ok := r2.(*ssa.Store); ok && st.Addr == ssa.Value(ia) {
							walk(st.Val, depth+1)
						}
					}
				}
			}
		case *ssa.IndexAddr:
			walk(x.X, depth+1)
		}
	}
	walk(v, 0)
	return out
}

// freshIn: the pointer value is created in block b (a call returning a new object or an allocation made there),
// possibly wrapped in method calls that return their receiver.
func freshIn(v ssa.Value, b *ssa.BasicBlock) bool {
	for i := 0; i < 6; i++ {
		switch x := v.(type) {
		case *ssa.Alloc:
			return x.Block() == b
		case *ssa.Call:
			// a constructor (no pointer receiver among the arguments) called in the block
			recvLike := false
			for _, a := range x.Call.Args {
				if _, isPtr := a.Type().Underlying().(*types.Pointer); isPtr && types.Identical(a.Type(), x.Type()) {
					recvLike = true
					v = a
					break
				}
			}
			if !recvLike {
				return x.Block() == b
			}
			continue
		case *ssa.ChangeType:
			v = x.X
			continue
		case *ssa.Phi, *ssa.Parameter, *ssa.UnOp:
			return false
		}
		break
	}
	return false
}
