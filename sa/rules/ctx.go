// Package rules holds one file per property: rule tables and the glue that
// turns engine results into obligations.
package rules

import (
	"fmt"
	"go/types"
	"sort"
	"strings"

	"golang.org/x/tools/go/ssa"

	"mhubsa/ana"
	"mhubsa/load"
	"mhubsa/report"
)

// Ctx is what a property check works with.
type Ctx struct {
	R    *report.Report
	P    *ana.Prog // the hub module (x/..., app/...)
	Tier string

	Overlay     map[string][]byte
	Dead        map[string]bool // helpers inlined everywhere by package norm (left out of every loaded program)
	Fold        *FoldSet        // registered helpers (see roles.go)
	Sub         *SubCache       // reports of included properties, shared along include chains
	conn        map[string]*ana.Prog
	hashLayouts map[string][]string // C14: byte layout of a claim hash -> event types using it
	roots       *Roots
}

// Roots are the entry-point sets of the module.
type Roots struct {
	Begin, End []*ssa.Function // static callees of AppModule.BeginBlock / EndBlock
	Block      []*ssa.Function
	Msg        []*ssa.Function
	Gov        []*ssa.Function
	InitGen    []*ssa.Function
	Hooks      []*ssa.Function // staking hooks of the module (run inside the staking module's block / message processing)
	ExportGen  []*ssa.Function
	Query      []*ssa.Function
}

// PropertyFunc checks one property.
type PropertyFunc func(c *Ctx)

// Registry maps property ids to checks.
var Registry = map[string]PropertyFunc{}

// Explain holds the explanation / not-decided / assumptions per property.
type Meta struct {
	Explanation string
	NotDecided  []string
	Assumptions []string
}

var Metas = map[string]Meta{}

func register(id string, m Meta, f PropertyFunc) {
	Registry[id] = f
	Metas[id] = m
}

var commonAssumptions = []string{
	"Go type checker and go/ssa of golang.org/x/tools v0.29.0 are correct",
	"calls through the expected-keeper interfaces (BankKeeper, StakingKeeper, AccountKeeper, OracleKeeper, sdk.KVStore, paramtypes.Subspace) are primitive effects with their documented contract; their bodies are not analysed",
	"a failed message or an uncommitted CacheContext leaves no writes",
}

// Other returns (loading on demand) another Go module of the repository.
func (c *Ctx) Other(module string, patterns ...string) (*ana.Prog, error) {
	if c.conn == nil {
		c.conn = map[string]*ana.Prog{}
	}
	if p, ok := c.conn[module]; ok {
		return p, nil
	}
	if len(patterns) == 0 {
		patterns = []string{"./..."}
	}
	l, err := load.Load(load.Options{Module: module, Patterns: patterns, Overlay: c.Overlay, Full: false, Dead: c.Dead})
	if err != nil {
		return nil, err
	}
	p := ana.NewProg(l)
	c.conn[module] = p
	c.R.Analysed["packages_"+module] = l.NPkgs
	c.R.Analysed["functions_"+module] = len(p.Funcs)
	return p, nil
}

func methodsNamed(p *ana.Prog, pkgSuffix, typ, name string) []*ssa.Function {
	var out []*ssa.Function
	for _, fn := range p.MethodsOf(pkgSuffix, typ) {
		if fn.Name() == name {
			out = append(out, fn)
		}
	}
	return out
}

func moduleCallees(p *ana.Prog, fns []*ssa.Function) []*ssa.Function {
	var out []*ssa.Function
	seen := map[*ssa.Function]bool{}
	for _, fn := range fns {
		for _, e := range p.Out[fn] {
			if !seen[e.Callee] && !p.L.IsGenerated(e.Callee.Pos()) {
				seen[e.Callee] = true
				out = append(out, e.Callee)
			}
		}
	}
	return out
}

// Roots computes the entry-point sets.
func (c *Ctx) Roots() *Roots {
	if c.roots != nil {
		return c.roots
	}
	p := c.P
	r := &Roots{}
	for _, mod := range []string{"x/mhub2", "x/oracle"} {
		r.Begin = append(r.Begin, moduleCallees(p, methodsNamed(p, mod, "AppModule", "BeginBlock"))...)
		r.End = append(r.End, moduleCallees(p, methodsNamed(p, mod, "AppModule", "EndBlock"))...)
		r.InitGen = append(r.InitGen, moduleCallees(p, methodsNamed(p, mod, "AppModule", "InitGenesis"))...)
		r.ExportGen = append(r.ExportGen, moduleCallees(p, methodsNamed(p, mod, "AppModule", "ExportGenesis"))...)
	}
	r.Block = append(append([]*ssa.Function{}, r.Begin...), r.End...)
	for _, mod := range []string{"mhub2/types", "oracle/types"} {
		for _, iface := range []string{"MsgServer", "QueryServer"} {
			n := p.LookupType(mod, iface)
			if n == nil {
				continue
			}
			it, _ := n.Underlying().(*types.Interface)
			if it == nil {
				continue
			}
			for i := 0; i < it.NumMethods(); i++ {
				for _, fn := range p.ImplementersOf(mod, iface, it.Method(i).Name()) {
					if p.L.IsGenerated(fn.Pos()) {
						continue
					}
					if iface == "MsgServer" {
						r.Msg = append(r.Msg, fn)
					} else {
						r.Query = append(r.Query, fn)
					}
				}
			}
		}
	}
	// staking hooks: methods of the module's Hooks type
	for _, mod := range []string{"mhub2/keeper", "oracle/keeper"} {
		for _, fn := range p.MethodsOf(mod, "Hooks") {
			if !p.L.IsGenerated(fn.Pos()) && fn.Blocks != nil {
				r.Hooks = append(r.Hooks, fn)
			}
		}
	}
	// governance: anonymous functions created inside NewProposalsHandler
	for _, fn := range p.Funcs {
		if fn.Parent() != nil && ana.Outermost(fn).Name() == "NewProposalsHandler" {
			r.Gov = append(r.Gov, fn)
		}
	}
	c.roots = r
	return r
}

func names(fns []*ssa.Function) string {
	var s []string
	for _, f := range fns {
		s = append(s, ana.FuncName(f))
	}
	sort.Strings(s)
	return strings.Join(s, ", ")
}

// ConsensusReach is everything reachable from block processing, messages,
// governance and InitGenesis.
func (c *Ctx) ConsensusReach() map[*ssa.Function]bool {
	r := c.Roots()
	var all []*ssa.Function
	all = append(all, r.Block...)
	all = append(all, r.Msg...)
	all = append(all, r.Gov...)
	all = append(all, r.InitGen...)
	all = append(all, r.Hooks...)
	return c.P.Reach(all...)
}

// LiveReach adds queries and export.
func (c *Ctx) LiveReach() map[*ssa.Function]bool {
	r := c.Roots()
	var all []*ssa.Function
	all = append(all, r.Block...)
	all = append(all, r.Msg...)
	all = append(all, r.Gov...)
	all = append(all, r.InitGen...)
	all = append(all, r.Hooks...)
	all = append(all, r.ExportGen...)
	all = append(all, r.Query...)
	return c.P.Reach(all...)
}

// sortedFuncs returns the functions of a set in source order.
func sortedFuncs(m map[*ssa.Function]bool) []*ssa.Function {
	var out []*ssa.Function
	for f := range m {
		out = append(out, f)
	}
	sort.Slice(out, func(i, j int) bool {
		if out[i].Pos() != out[j].Pos() {
			return out[i].Pos() < out[j].Pos()
		}
		return out[i].String() < out[j].String()
	})
	return out
}

// inPkg reports whether fn belongs to the package with the given suffix.
func inPkg(fn *ssa.Function, suffix string) bool {
	f := ana.Outermost(fn)
	if f.Package() == nil {
		return false
	}
	pp := f.Package().Pkg.Path()
	return pp == suffix || strings.HasSuffix(pp, "/"+suffix)
}

// storeOpsWhere lists the store ops in reachable module code satisfying pred.
func (c *Ctx) storeOpsWhere(reach map[*ssa.Function]bool, pred func(op ana.StoreOp) bool) []ana.StoreOp {
	var out []ana.StoreOp
	for _, fn := range sortedFuncs(reach) {
		if c.P.L.IsGenerated(fn.Pos()) {
			continue
		}
		for _, op := range c.P.StoreOps(fn) {
			if pred(op) {
				out = append(out, op)
			}
		}
	}
	return out
}

// prefixName names the first byte of a key with the constant of key.go.
func (c *Ctx) prefixName(op ana.StoreOp) string {
	b, ok := op.Key.First()
	if !ok {
		return ""
	}
	pkg := "mhub2/types"
	if strings.HasPrefix(op.Store, "oracle/") {
		pkg = "oracle/types"
	}
	t := c.P.PrefixConstants(pkg)
	return t.ByByte[b]
}

func fname(fn *ssa.Function) string { return ana.FuncName(fn) }

func (c *Ctx) pos(in ssa.Instruction) string { return c.P.InstrPos(in) }

func sprintf(f string, a ...interface{}) string { return fmt.Sprintf(f, a...) }

// include runs the rules of another property on the already loaded program and adopts those of its
// obligations that are also necessary conditions of the current property, under the rule id
// "<current>.<label>" with the key "<original rule>:<original key>".  Violations that are listed as
// open known findings of the other property are not adopted (that property reports them).
func (c *Ctx) include(label, other string, keep func(rule string) bool) {
	c.includeKeys(label, other, keep, nil)
}

// includeKeys is include restricted to the obligations whose key satisfies keepKey (nil: all).
func (c *Ctx) includeKeys(label, other string, keep func(rule string) bool, keepKey func(rule, key string) bool) {
	f, ok := Registry[other]
	if !ok {
		return
	}
	if c.Fold == nil {
		c.Fold = &FoldSet{M: map[*ssa.Function]bool{}}
	}
	if c.Sub == nil {
		c.Sub = &SubCache{M: map[string]*report.Report{}}
	}
	sub := c.Sub.M[other]
	if sub == nil {
		sub = report.New(c.R.Dir, other, c.Tier, c.R.Seed)
		c.Sub.M[other] = sub
		sc := &Ctx{R: sub, P: c.P, Tier: c.Tier, Overlay: c.Overlay, Dead: c.Dead, conn: c.conn, roots: c.roots, Fold: c.Fold, Sub: c.Sub}
		f(sc)
		if c.conn == nil {
			c.conn = sc.conn
		}
	}
	rule := c.R.Property + "." + label
	n := 0
	for _, o := range sub.Obls {
		base := strings.TrimSuffix(o.Rule, ".undecided")
		if !keep(base) || o.Status == report.Advisory {
			continue
		}
		// (an "anchor not found" of the other property is adopted with the selection only when the selection
		// would otherwise be empty: see the vacuity test below)
		if keepKey != nil && !keepKey(base, o.Key) {
			continue
		}
		if o.Status == report.Violation && sub.IsOpenKnown(o.Rule, o.Key) {
			continue
		}
		n++
		key := o.Rule + ":" + o.Key
		if o.Status == report.Violation {
			c.R.Bad(rule, key, o.Where, o.Detail, o.Path...)
		} else {
			c.R.Ok(rule, key, o.Where, o.Detail)
		}
	}
	if sub.InfraErr != "" && c.R.InfraErr == "" {
		c.R.InfraErr = sub.InfraErr
	}
	// vacuity of the included rules
	if keepKey != nil && n == 0 {
		c.R.Bad(rule+".undecided", other+":selection", "-", "none of the obligations of "+other+" selected for "+rule+" exists any more")
	}
	for r2, min := range sub.Minimum {
		if keep(r2) && sub.Counts[r2] < min {
			c.R.Bad(rule+".undecided", r2+":instances", "-", sprintf("included rule %s matched %d instance(s), minimum %d", r2, sub.Counts[r2], min))
		}
	}
}

func rulesIn(list ...string) func(string) bool {
	return func(rule string) bool {
		for _, l := range list {
			if rule == l || strings.HasPrefix(rule, l+".") || strings.HasPrefix(rule, l) && strings.HasSuffix(l, ".") {
				return true
			}
		}
		return false
	}
}

// SubCache memoises the reports of included properties within one pass.
type SubCache struct{ M map[string]*report.Report }

// LoadedModules returns the other Go modules of the repository this check has loaded.
func (c *Ctx) LoadedModules() map[string]*ana.Prog {
	out := map[string]*ana.Prog{}
	for k, v := range c.conn {
		out[k] = v
	}
	return out
}

// ShareModules lets this context reuse the other modules already loaded by another one.
func (c *Ctx) ShareModules(o *Ctx) {
	if o.conn == nil {
		o.conn = map[string]*ana.Prog{}
	}
	c.conn = o.conn
}
