package rules

import (
	"os"
	"path/filepath"
	"regexp"
	"sort"
	"strings"

	"golang.org/x/tools/go/ssa"

	"mhubsa/ana"
	"mhubsa/load"
	"mhubsa/sol"
)

func init() {
	register("C08", Meta{
		Explanation: "Only the tables and directions of the confirm->execute->attest loop are decided: (event-kinds) every contract event that carries _eventNonce has a hub event type that is registered with the codec, has a case in the handler's type switch and implements Hash/Validate (frozen kind table), and for the deposit, batch-executed and valset-updated events the signature strings the Rust orchestrator subscribes to equal the canonical signatures computed from the .sol declarations; (attribution) the three …Confirmations queries attribute each signature to the external address of the validator it is stored under; (nonce-directions) the contract demands strictly increasing valset / per-token batch / invalidation nonces, block.number < timeout and cumulative power strictly above the threshold, while the hub's counters only ever grow by one and a batch is withdrawn only under Timeout < observed height (C13), so what the hub withdraws the contract can no longer execute; (minter-threshold) the Minter multisig is built with threshold 667 of weights power*1000/total (connector), the same in the signing and in the submitting path; (digest / signer-set / batch-shape) the clauses of C07, C09, C10 and C13 that executability needs (digest agreement, signer-set membership, normalisation, ordering and nonce, non-empty capped batches with gap-free counters, batches withdrawn only when no longer executable) are re-checked here.",
		NotDecided:  []string{"that the contract / multisig accepts what more than the threshold of the current set confirmed, over all histories, power distributions and relayer choices (the bulk of the property)", "signature validity", "continuity of balances", "digest agreement is C07, set ordering and nonce C09, batch shape C10", "the orchestrator's LogicCallEvent signature literal does not match the contract declaration (advisory: no admissible history reaches a logic call)"},
		Assumptions: append(append([]string{}, commonAssumptions...), "Hub2.sol is read by the purpose-built reader in sa/sol", "Rust sources are only searched for string literals of the form \"Name(type,…)\""),
	}, checkC08)
}

var eventKinds = map[string]string{
	"TransferToChainEvent":          "TransferToChainEvent",
	"TransactionBatchExecutedEvent": "BatchExecutedEvent",
	"ValsetUpdatedEvent":            "SignerSetTxExecutedEvent",
	"LogicCallEvent":                "ContractCallExecutedEvent",
}

func checkC08(c *Ctx) {
	p, r := c.P, c.R
	r.Min("C08.event-kinds", 7)
	r.Min("C08.attribution", 3)
	r.Min("C08.nonce-directions", 5)
	sf, err := c.Sol()
	if err != nil {
		r.InfraErr = "Hub2.sol: " + err.Error()
		return
	}
	// ---- event kinds ---------------------------------------------------------------------------
	var handler *ssa.Function
	for _, f := range p.Funcs {
		if f.Name() == "Handle" && f.Signature.Recv() != nil && inPkg(f, "mhub2/keeper") {
			handler = f
		}
	}
	asserted := map[string]bool{}
	if handler != nil {
		ana.Instrs(handler, func(in ssa.Instruction) {
			if ta, ok := in.(*ssa.TypeAssert); ok {
				if n := ana.NamedOf(ta.AssertedType); n != nil {
					asserted[n.Obj().Name()] = true
				}
			}
		})
	}
	registered := map[string]bool{}
	for _, f := range p.Funcs {
		if f.Name() != "RegisterInterfaces" || !inPkg(f, "mhub2/types") {
			continue
		}
		for _, a := range allocsIn(f) {
			if n := ana.NamedOf(a.Type()); n != nil {
				registered[n.Obj().Name()] = true
			}
		}
	}
	implHash := map[string]bool{}
	for _, h := range p.ImplementersOf("mhub2/types", "ExternalEvent", "Hash") {
		if n := ana.NamedOf(h.Signature.Recv().Type()); n != nil {
			implHash[n.Obj().Name()] = true
		}
	}
	implVal := map[string]bool{}
	for _, h := range p.ImplementersOf("mhub2/types", "ExternalEvent", "Validate") {
		if n := ana.NamedOf(h.Signature.Recv().Type()); n != nil {
			implVal[n.Obj().Name()] = true
		}
	}
	var evNames []string
	for n := range sf.Events {
		evNames = append(evNames, n)
	}
	sort.Strings(evNames)
	for _, en := range evNames {
		ev := sf.Events[en]
		hasNonce := false
		for _, pr := range ev.Params {
			if pr.Name == "_eventNonce" {
				hasNonce = true
			}
		}
		if !hasNonce {
			continue
		}
		hub, ok := eventKinds[en]
		if !ok {
			r.Bad("C08.event-kinds", "kind:"+en, sprintf("Hub2.sol:%d", ev.Line), "the contract emits the nonce-carrying event "+en+" for which the hub has no event type in the frozen kind table: its nonce could never be attested and every later event would be stuck")
			continue
		}
		okK := registered[hub] && asserted[hub] && implHash[hub] && implVal[hub]
		r.Check(okK, "C08.event-kinds", "kind:"+en, sprintf("Hub2.sol:%d", ev.Line), en+" <-> "+hub+": registered, handled, hashed, validated",
			sprintf("contract event %s has no complete hub counterpart %s (registered=%v, handled in the type switch=%v, Hash=%v, Validate=%v)", en, hub, registered[hub], asserted[hub], implHash[hub], implVal[hub]))
	}
	// orchestrator signature literals
	lits := rustEventLiterals(filepath.Join(load.RepoRoot(), "orchestrator"))
	r.Analysed["rust_signature_literals"] = len(lits)
	for _, en := range []string{"TransferToChainEvent", "TransactionBatchExecutedEvent", "ValsetUpdatedEvent"} {
		ev := sf.Events[en]
		if ev == nil {
			r.Undecided("C08.event-kinds", "signature:"+en, "-", "event not declared in Hub2.sol")
			continue
		}
		want := ev.Signature()
		n, bad := 0, ""
		for _, l := range lits {
			if strings.HasPrefix(l.text, en+"(") {
				n++
				if l.text != want {
					bad = l.file + ": " + l.text
				}
			}
		}
		r.Check(n > 0 && bad == "", "C08.event-kinds", "signature:"+en, sprintf("Hub2.sol:%d", ev.Line), sprintf("%d orchestrator literal(s) equal %s", n, want),
			sprintf("the orchestrator subscribes to a signature that differs from the contract's %s (%d literals; mismatch: %s): the event would never be seen and the event nonce sequence would stall", want, n, bad))
	}
	if ev := sf.Events["LogicCallEvent"]; ev != nil {
		for _, l := range lits {
			if strings.HasPrefix(l.text, "LogicCallEvent(") && l.text != ev.Signature() {
				r.Note("C08.event-kinds", "advisory:signature:LogicCallEvent", l.file, "orchestrator literal "+l.text+" differs from the contract's "+ev.Signature()+" (not armed: no non-test code creates a contract call, so no admissible history reaches a logic call)")
				break
			}
		}
	}

	// ---- attribution -----------------------------------------------------------------------------
	c.checkAttribution("C08.attribution")

	// ---- nonce directions ---------------------------------------------------------------------------
	reqs := map[string][]string{}
	for name, fn := range sf.Funcs {
		for _, call := range fn.Calls("require") {
			args := sol.SplitArgs(call)
			if len(args) > 0 {
				reqs[name] = append(reqs[name], sol.Text(args[0]))
			}
		}
	}
	has := func(fn, cond string) bool {
		for _, x := range reqs[fn] {
			if x == cond {
				return true
			}
		}
		return false
	}
	type dir struct{ key, fn, cond, why string }
	for _, d := range []dir{
		{"valset-nonce", "updateValset", "_newValsetNonce>_currentValsetNonce", "the hub's signer-set nonce only grows by one (C09.nonce)"},
		{"batch-nonce", "submitBatch", "state_lastBatchNonces[_tokenContract]<_batchNonce", "the hub's batch nonce only grows by one (C10.counters); older same-token batches are withdrawn on execution (C13)"},
		{"batch-timeout", "submitBatch", "block.number<_batchTimeout", "the hub withdraws a batch only under Timeout < observed height (C13.timeout-guard)"},
		{"logic-timeout", "submitLogicCall", "block.number<_args.timeOut", "contract calls time out by external height"},
		{"logic-nonce", "submitLogicCall", "state_invalidationMapping[_args.invalidationId]<_args.invalidationNonce", "invalidation nonces only grow"},
		{"power-threshold", "checkValidatorSignatures", "cumulativePower>_powerThreshold", "nothing confirmed by less than the threshold is accepted"},
	} {
		r.Check(has(d.fn, d.cond), "C08.nonce-directions", d.key, sprintf("Hub2.sol:%d", lineOf(sf, d.fn)), "contract requires "+d.cond+"; "+d.why, "the contract function "+d.fn+" no longer requires "+d.cond)
	}
	// every state-changing entry point checks the stored checkpoint and the signatures
	for _, fn := range []string{"updateValset", "submitBatch", "submitLogicCall"} {
		f := sf.Funcs[fn]
		if f == nil {
			r.Undecided("C08.nonce-directions", "checked:"+fn, "-", "function not found")
			continue
		}
		okCp := has(fn, "makeCheckpoint(_currentValidators,_currentPowers,_currentValsetNonce,state_gravityId)==state_lastValsetCheckpoint")
		okSig := len(f.Calls("checkValidatorSignatures")) == 1
		thr := false
		for _, call := range f.Calls("checkValidatorSignatures") {
			args := sol.SplitArgs(call)
			if len(args) == 7 && sol.Text(args[6]) == "state_powerThreshold" && sol.Text(args[0]) == "_currentValidators" && sol.Text(args[1]) == "_currentPowers" {
				thr = true
			}
		}
		r.Check(okCp && okSig && thr, "C08.nonce-directions", "checked:"+fn, sprintf("Hub2.sol:%d", f.Line), "verifies the supplied set against the stored checkpoint and the signatures against state_powerThreshold",
			sprintf("%s does not verify the current set against the stored checkpoint (%v) and its signatures against state_powerThreshold (%v/%v)", fn, okCp, okSig, thr))
	}

	// ---- clauses of other properties that are necessary conditions of executability ---------------
	r.Min("C08.digest", 30)
	r.Min("C08.signer-set", 25)
	c.include("digest", "C07", rulesIn("C07."))
	c.include("signer-set", "C09", rulesIn("C09.membership", "C09.sorted", "C09.nonce"))
	// one external key per validator: a key shared by two members fills two slots of the contract's signature
	// check with one signature (and Minter's EditMultisig rejects a duplicate address list)
	c.include("signer-set", "C17", rulesIn("C17.guards", "C17.key-shape"))
	c.include("batch-shape", "C10", rulesIn("C10.non-empty", "C10.cap", "C10.counters"))
	c.include("batch-shape", "C13", rulesIn("C13.older-same-token", "C13.timeout-guard", "C13.cancel-callers"))
	// an execution report must be processed to the end (a contained panic in the payout arithmetic leaves the
	// executed batch pending): the payout clauses of C19
	c.include("batch-shape", "C19", rulesIn("C19.prorata", "C19.clamp", "C19.remainder"))

	// ---- value semantics: what is stamped / wired must reach the object that is stored and used ---------
	r.Min("C08.value-semantics", 1)
	c.checkValueSemantics("C08.value-semantics")

	// ---- listing order: the relayers take the first confirmed tx above their cursor from the listings, which
	// are served in store order (oldest first) unless the caller asks otherwise: module code does not rewrite
	// the caller's page request
	nPag := 0
	for _, f := range sortedFuncs(c.LiveReach()) {
		if p.L.IsGenerated(f.Pos()) || !p.IsModule(f) {
			continue
		}
		ana.Instrs(f, func(in ssa.Instruction) {
			if call, ok := in.(ssa.CallInstruction); ok {
				if d, okd := ana.Describe(call.Common()); okd && (d.Name == "Paginate" || d.Name == "FilteredPaginate") {
					nPag++
				}
			}
			st, ok := in.(*ssa.Store)
			if !ok {
				return
			}
			fa, ok := st.Addr.(*ssa.FieldAddr)
			if !ok {
				return
			}
			if n := ana.NamedOf(fa.X.Type()); n != nil && n.Obj().Name() == "PageRequest" {
				if s := structOf(fa.X.Type()); s != nil {
					fld := s.Field(fa.Field).Name()
					if _, fresh := fa.X.(*ssa.Alloc); fresh && (fld == "Limit" || fld == "Key" || fld == "Offset" || fld == "CountTotal") {
						return // a locally built request that does not touch the direction
					}
					r.Bad("C08.listing-order", "page-request:"+fname(f), c.pos(st), "the page request of a listing query is rewritten by the module (field "+fld+"): the relayers rely on the listings being served in store order, oldest first, and pick the first confirmed tx above their cursor")
				}
			}
		})
	}
	if nPag > 0 {
		r.Ok("C08.listing-order", "page-request", "-", sprintf("%d paginated listings, none rewrites its caller's page request", nPag))
	} else {
		r.Undecided("C08.listing-order", "page-request", "-", "no paginated listing found")
	}

	// ---- minter threshold ---------------------------------------------------------------------------
	c.checkMinterThreshold()
}

type rustLit struct{ file, text string }

var rustSigRe = regexp.MustCompile(`"([A-Z][A-Za-z0-9]*\((?:[a-z0-9\[\]]+)(?:,[a-z0-9\[\]]+)*\))"`)

func rustEventLiterals(root string) []rustLit {
	var out []rustLit
	filepath.Walk(root, func(path string, info os.FileInfo, err error) error {
		if err != nil || info.IsDir() || !strings.HasSuffix(path, ".rs") {
			return nil
		}
		b, err := os.ReadFile(path)
		if err != nil {
			return nil
		}
		rel, _ := filepath.Rel(load.RepoRoot(), path)
		for _, m := range rustSigRe.FindAllStringSubmatch(string(b), -1) {
			out = append(out, rustLit{rel, m[1]})
		}
		return nil
	})
	sort.Slice(out, func(i, j int) bool { return out[i].file+out[i].text < out[j].file+out[j].text })
	return out
}
