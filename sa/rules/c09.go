package rules

import (
	"go/constant"
	"go/token"
	"go/types"
	"regexp"
	"strings"

	"golang.org/x/tools/go/ssa"

	"mhubsa/ana"
)

func init() {
	register("C09", Meta{
		Explanation: "Structural necessary conditions of 'signer sets mirror bonded power': (membership) the signer-set builder ranges over the whole result of StakingKeeper.GetBondedValidatorsByPower; an element is appended iff GetValidatorExternalAddress(chain, validator) is non-zero (the append is guarded by that test, the test's passing edge leads straight to the append, and no other path skips an element or leaves the loop early); its Power is GetLastValidatorPower of the same validator and its address is the looked-up address; the normalisation divisor accumulates exactly the powers of appended members (the += sits in the block of the append, with the stored value) starting from 0; every element of the result is normalised as p*MaxUint32/total with a truncating division; (sorted) every SignerSetTx the module builds comes from the constructor that sorts the members first, and the comparator orders by Power descending and breaks ties by a total order on the address; (nonce) LatestSignerSetTxNonceKey has one +1 increment whose result is the new set's nonce; (freshness-trigger) begin-block processing calls the creation trigger unconditionally for every chain other than hub, the trigger creates when there is no latest set and when CurrentSignerSet.PowerDiff(latest.Signers) > c with c <= 0.05; PowerDiff accounts for members present on either side (map update on both branches of the membership test) and divides the summed absolute differences by MaxUint32.",
		NotDecided:  []string{"'within one unit' and '<= 5%' as arithmetic facts", "staking-module behaviour (which validators are bonded)", "float rounding in PowerDiff beyond the reviewed exception recorded under C06"},
		Assumptions: commonAssumptions,
	}, checkC09)
}

func checkC09(c *Ctx) {
	p, r := c.P, c.R
	roots := c.Roots()
	reach := c.ConsensusReach()
	live := c.LiveReach()
	r.Min("C09.membership", 7)
	r.Min("C09.sorted", 4)
	r.Min("C09.nonce", 2)
	r.Min("C09.freshness-trigger", 6)

	// ---- membership -------------------------------------------------------------------
	var builder *ssa.Function
	for _, f := range sortedFuncs(reach) {
		if f.Parent() != nil || p.L.IsGenerated(f.Pos()) {
			continue
		}
		bonded := false
		ana.Calls(f, func(site ssa.CallInstruction, d ana.CalleeDesc) {
			if d.Name == "GetBondedValidatorsByPower" && d.Iface {
				bonded = true
			}
		})
		if bonded && len(allocsOfType(f, "ExternalSigner")) > 0 {
			builder = f
		}
	}
	if builder == nil {
		r.Undecided("C09.membership", "builder", "-", "no function builds ExternalSigner values from GetBondedValidatorsByPower")
	} else {
		c.checkSignerSetBuilder(builder)
	}

	// ---- sorted ---------------------------------------------------------------------------
	nLit := 0
	for _, f := range sortedFuncs(live) {
		if p.L.IsGenerated(f.Pos()) {
			continue
		}
		for _, a := range allocsIn(f) {
			if n := ana.NamedOf(a.Type()); n == nil || n.Obj().Name() != "SignerSetTx" || a.Comment != "complit" {
				continue
			}
			fs := ana.FieldStores(a)
			if len(fs["Signers"]) == 0 {
				continue
			}
			// literals that only carry an observed set from an event are not published sets
			src := p.Leaves(fs["Signers"][0], ana.PVOpt{})
			if src.HasField("SignerSetTxExecutedEvent.Members") {
				continue
			}
			nLit++
			// a Sort() call on the members precedes the literal
			okSort := false
			ana.Instrs(f, func(in ssa.Instruction) {
				call, ok := in.(*ssa.Call)
				if !ok {
					return
				}
				d, _ := ana.Describe(&call.Call)
				if d.Recv == "ExternalSigners" && d.Name == "Sort" {
					if call.Block() == a.Block() && ana.InstrIndex(call) < ana.InstrIndex(a) || call.Block().Dominates(a.Block()) {
						// the sorted value feeds the literal
						lm := p.Leaves(fs["Signers"][0], ana.PVOpt{})
						ls := p.Leaves(call.Call.Args[0], ana.PVOpt{})
						for l := range ls.Leaves {
							if strings.HasPrefix(l, "param:") && lm.Leaves[l] {
								okSort = true
							}
						}
					}
				}
			})
			// and nothing reads the members before they are sorted (a copy taken earlier keeps the unsorted order)
			early := ""
			ana.Instrs(f, func(in ssa.Instruction) {
				call, ok := in.(*ssa.Call)
				if !ok || early != "" {
					return
				}
				d, _ := ana.Describe(&call.Call)
				if !(d.Recv == "ExternalSigners" && d.Name == "Sort") {
					return
				}
				par, ok := call.Call.Args[0].(*ssa.Parameter)
				if !ok {
					return
				}
				for _, ref := range *par.Referrers() {
					if ref == ssa.Instruction(call) {
						continue
					}
					if rc, ok := ref.(*ssa.Call); ok {
						if b, ok := rc.Call.Value.(*ssa.Builtin); ok && (b.Name() == "len" || b.Name() == "cap") {
							continue
						}
					}
					after := (ref.Block() == call.Block() && ana.InstrIndex(ref) > ana.InstrIndex(call)) || (ref.Block() != call.Block() && call.Block().Dominates(ref.Block()))
					if !after {
						early = c.pos(ref)
					}
				}
			})
			if early != "" {
				okSort = false
			}
			// the set that is built holds every member of the sorted slice, in that order: each append takes the
			// element of a full range over the very slice that was sorted, unconditionally
			var sortArg ssa.Value
			ana.Instrs(f, func(in ssa.Instruction) {
				if call, ok := in.(*ssa.Call); ok {
					if d, _ := ana.Describe(&call.Call); d.Recv == "ExternalSigners" && d.Name == "Sort" && len(call.Call.Args) > 0 {
						sortArg = call.Call.Args[0]
					}
				}
			})
			if sortArg != nil {
				nApp, okCopy := 0, true
				why := ""
				ana.Instrs(f, func(in ssa.Instruction) {
					call, ok := in.(*ssa.Call)
					if !ok {
						return
					}
					b, ok := call.Call.Value.(*ssa.Builtin)
					if !ok || b.Name() != "append" || len(call.Call.Args) != 2 {
						return
					}
					sl, ok := call.Call.Args[1].(*ssa.Slice)
					if !ok {
						return
					}
					el := singleElem(sl)
					if el == nil {
						return
					}
					if n := ana.NamedOf(derefType(el.Type())); n == nil || n.Obj().Name() != "ExternalSigner" {
						return
					}
					nApp++
					ld, isLd := el.(*ssa.UnOp)
					var ia *ssa.IndexAddr
					if isLd {
						ia, _ = ld.X.(*ssa.IndexAddr)
					}
					switch {
					case ia == nil || !ana.RangeIndex(ia):
						okCopy, why = false, "an appended member is not the element of a full range loop"
					case ia.X != sortArg && !sameObject(ia.X, sortArg):
						okCopy, why = false, "the members are taken from another slice than the one that was sorted"
					case ia.Block() != call.Block():
						okCopy, why = false, "a member can be skipped (the append is conditional)"
					}
				})
				if nApp > 0 {
					r.Check(okCopy, "C09.membership", "constructor-copies-all:"+fname(f), c.pos(a), "the constructor copies every member of the sorted slice, in order",
						"the signer-set constructor does not carry over every member of the slice it sorted, in that order: "+why)
				}
			}
			r.Check(okSort, "C09.sorted", "constructor:"+fname(f), c.pos(a), "the members are sorted before the SignerSetTx is built", "a SignerSetTx is built from members that were not sorted first"+map[bool]string{true: " (they are read at " + early + ", before the sort)", false: ""}[early != ""])
		}
	}
	if nLit == 0 {
		r.Undecided("C09.sorted", "constructor", "-", "no SignerSetTx constructor found")
	}
	// every stored SignerSetTx comes from the sorting constructor
	for _, f := range sortedFuncs(reach) {
		ana.Calls(f, func(site ssa.CallInstruction, d ana.CalleeDesc) {
			isStore := false
			for _, callee := range p.Callees(site) {
				if hasEff(c.Effects(callee), "store", "Set", "OutgoingTxKey") {
					isStore = true
				}
			}
			if !isStore {
				return
			}
			for _, a := range site.Common().Args {
				n := ana.NamedOf(a.Type())
				if n == nil {
					continue
				}
				var src ssa.Value = a
				if mi, ok := a.(*ssa.MakeInterface); ok {
					src = mi.X
					n = ana.NamedOf(src.Type())
				}
				if n == nil || n.Obj().Name() != "SignerSetTx" {
					continue
				}
				call, _ := ana.UnwrapCall(src)
				okC := false
				if call != nil {
					if callee := call.Call.StaticCallee(); callee != nil {
						ana.Calls(callee, func(s2 ssa.CallInstruction, d2 ana.CalleeDesc) {
							if d2.Recv == "ExternalSigners" && d2.Name == "Sort" {
								okC = true
							}
						})
					}
				}
				r.Check(okC, "C09.sorted", "stored:"+fname(f), c.pos(site.(ssa.Instruction)), "the stored signer set comes from the sorting constructor", "a signer set is stored that was not built by the sorting constructor")
			}
		})
	}
	// the observed set (the members a SignerSetTxExecuted claim reports) is stored as it arrives; it is in
	// contract order only because hashing a claim sorts its members in place before the claim is packed and stored
	c.checkObservedSetSorted()
	// comparator
	c.checkSignerComparator()
	c.checkLatestQuery()

	// ---- nonce ---------------------------------------------------------------------------------
	c.checkCounter("C09.nonce", "LatestSignerSetTxNonceKey", live, roots, 0)
	var creator *ssa.Function
	for _, w := range c.counterWrites("LatestSignerSetTxNonceKey", live) {
		if w.Val == nil {
			continue
		}
		// the function that builds the new set with the incremented nonce: the one computing the increment, or
		// the callers of a dedicated increment function
		cands := []*ssa.Function{ana.Outermost(w.Fn)}
		if c.isIncrementOf(w.Fn, "LatestSignerSetTxNonceKey") {
			cands = nil
			for _, e := range p.In[w.Fn] {
				if reach[e.Caller] {
					cands = append(cands, ana.Outermost(e.Caller))
				}
			}
		}
		for _, f := range cands {
			if reach[f] {
				creator = f
			}
		}
	}
	if creator == nil {
		r.Undecided("C09.nonce", "creator", "-", "no signer-set creator found")
	} else {
		// the nonce passed to the constructor is the increment's result; the set is the current signer set of the same chain
		ok := false
		okSet := false
		ana.Instrs(creator, func(in ssa.Instruction) {
			call, isC := in.(*ssa.Call)
			if !isC {
				return
			}
			callee := call.Call.StaticCallee()
			if callee == nil || len(allocsOfType(callee, "SignerSetTx")) == 0 {
				return
			}
			for _, a := range call.Call.Args {
				if c.isIncValue(a, creator, "LatestSignerSetTxNonceKey", live) {
					ok = true
				}
				if ac, isCall := a.(*ssa.Call); isCall {
					if cc := ac.Call.StaticCallee(); cc != nil && builder != nil && cc == builder {
						okSet = true
					}
				}
			}
		})
		r.Check(ok && okSet, "C09.nonce", "creator:"+fname(creator), p.Pos(creator.Pos()), "the new set carries the incremented nonce and the current signer set", sprintf("the signer-set creator does not use the incremented nonce (%v) with the freshly built current signer set (%v)", ok, okSet))
	}

	// ---- freshness-trigger --------------------------------------------------------------------------
	if creator != nil {
		c.checkFreshness(creator, builder)
	}
	c.checkPowerDiff()
}

func (c *Ctx) checkSignerSetBuilder(f *ssa.Function) {
	p, r := c.P, c.R
	var lit *ssa.Alloc
	for _, a := range allocsOfType(f, "ExternalSigner") {
		lit = a
	}
	// the append of the literal
	var app *ssa.Call
	ana.Instrs(f, func(in ssa.Instruction) {
		call, ok := in.(*ssa.Call)
		if !ok {
			return
		}
		if b, ok := call.Call.Value.(*ssa.Builtin); !ok || b.Name() != "append" {
			return
		}
		l := p.Leaves(call.Call.Args[1], ana.PVOpt{})
		_ = l
		if sl, ok := call.Call.Args[1].(*ssa.Slice); ok {
			if a, ok := sl.X.(*ssa.Alloc); ok {
				for _, ref := range *a.Referrers() {
					if ia, ok := ref.(*ssa.IndexAddr); ok {
						for _, rr := range *ia.Referrers() {
							if st, ok := rr.(*ssa.Store); ok && st.Val == ssa.Value(lit) {
								app = call
							}
						}
					}
				}
			}
		}
	})
	if lit == nil || app == nil {
		r.Undecided("C09.membership", fname(f), p.Pos(f.Pos()), "no append of an ExternalSigner literal found")
		return
	}
	fs := ana.FieldStores(lit)
	// validator value: argument of GetLastValidatorPower feeding Power
	var valV ssa.Value
	okPower := false
	var powerVal ssa.Value
	for _, v := range fs["Power"] {
		powerVal = v
		l := p.Leaves(v, ana.PVOpt{Opaque: func(d ana.CalleeDesc) bool { return true }})
		for lab, vals := range l.Vals {
			if strings.HasSuffix(lab, "GetLastValidatorPower") {
				for _, x := range vals {
					if cc := ana.CallOf(x); cc != nil {
						valV = cc.Args[len(cc.Args)-1]
						okPower = len(l.Ops) == 0 || (len(l.Ops) <= 1)
					}
				}
			}
		}
		ex := p.Expr(v, 0)
		if !regexp.MustCompile(`^StakingKeeper\.GetLastValidatorPower\(.*\)$`).MatchString(ex) {
			okPower = false
		}
	}
	r.Check(okPower && valV != nil, "C09.membership", "power", c.pos(lit), "member power = GetLastValidatorPower(validator), unmodified", "a member's power is not the unmodified GetLastValidatorPower of the validator")
	// the validator comes from the full range over the bonded validators
	okRange := false
	if valV != nil {
		l := p.Leaves(valV, ana.PVOpt{Through: map[string][]int{"Validator.GetOperator": {0}}, Opaque: func(d ana.CalleeDesc) bool { return d.Name == "GetBondedValidatorsByPower" }})
		if l.HasCall("StakingKeeper.GetBondedValidatorsByPower") {
			// find the IndexAddr
			ana.Instrs(f, func(in ssa.Instruction) {
				if ia, ok := in.(*ssa.IndexAddr); ok {
					if call, _ := ana.UnwrapCall(ia.X); call != nil {
						if d, _ := ana.Describe(&call.Call); d.Name == "GetBondedValidatorsByPower" && fullRange(ia) {
							okRange = true
						}
					}
				}
			})
		}
	}
	r.Check(okRange, "C09.membership", "all-bonded", c.pos(lit), "the builder ranges over the whole GetBondedValidatorsByPower result", "the signer-set builder does not range over all bonded validators")
	// address guard
	var addrCall *ssa.Call
	nonZero := ana.AtomCmp(func(op token.Token, x, y ssa.Value) (bool, bool) {
		if op != token.EQL && op != token.NEQ {
			return false, false
		}
		for _, pr := range [][2]ssa.Value{{x, y}, {y, x}} {
			la := p.Leaves(pr[0], ana.PVOpt{Opaque: func(d ana.CalleeDesc) bool { return d.Name == "GetValidatorExternalAddress" }})
			if !la.HasCall("Keeper.GetValidatorExternalAddress") {
				continue
			}
			zero := false
			if k, ok := pr[1].(*ssa.Const); ok && k.Value != nil && k.Value.Kind() == constant.String {
				sv := constant.StringVal(k.Value)
				zero = sv == "0x0000000000000000000000000000000000000000"
			}
			if !zero && isZeroValue(pr[1]) {
				zero = true // zero composite literal common.Address{}
			}
			if !zero {
				continue
			}
			for lab, vals := range la.Vals {
				if strings.HasSuffix(lab, "GetValidatorExternalAddress") {
					for _, v := range vals {
						if call, ok := v.(*ssa.Call); ok {
							addrCall = call
						}
					}
				}
			}
			return op == token.NEQ, true
		}
		return false, false
	})
	guarded := ana.Guarded(app, nonZero)
	sameVal := false
	if addrCall != nil && valV != nil {
		for _, a := range addrCall.Call.Args {
			if a == valV {
				sameVal = true
			}
		}
	}
	r.Check(guarded && sameVal, "C09.membership", "has-key", c.pos(app), "append guarded by GetValidatorExternalAddress(chain, validator) != zero for the same validator", "a validator without a registered external key for the chain can be appended (or the key looked up is another validator's)")
	// the address stored is the looked-up one
	okAddr := false
	for _, v := range fs["ExternalAddress"] {
		if addrCall != nil && derivesFrom(p, v, addrCall) {
			okAddr = true
		}
	}
	r.Check(okAddr, "C09.membership", "address", c.pos(lit), "member address = the looked-up external address", "the member's external address is not the address registered for that validator")
	// iff: no other way to skip an element or leave the loop
	okIff, why := c.loopCoversAll(f, app)
	r.Check(okIff, "C09.membership", "iff", c.pos(app), "every bonded validator with a key is appended: the only skip is the missing-key test and the loop ends only when the range is exhausted", why)
	// divisor accumulation
	okTot, whyT := false, "no accumulating total found"
	var totPhi *ssa.Phi
	ana.Instrs(f, func(in ssa.Instruction) {
		bo, ok := in.(*ssa.BinOp)
		if !ok || bo.Op != token.ADD {
			return
		}
		ph, ok := bo.X.(*ssa.Phi)
		if !ok {
			return
		}
		self := false
		for _, e := range flatPhi(ph) {
			if e == ssa.Value(bo) {
				self = true
			}
		}
		if !self || ph.Type().String() != "uint64" {
			return
		}
		if bo.Y != powerVal {
			// maybe the same converted value
			if p.Expr(bo.Y, 0) != p.Expr(powerVal, 0) {
				return
			}
		}
		totPhi = ph
		if bo.Block() != app.Block() {
			whyT = "the divisor is increased outside the block that appends the member: validators without a key are counted in the total"
			return
		}
		okE := true
		for _, e := range flatPhi(ph) {
			if e == ssa.Value(bo) || isConstVal(e, "0") {
				continue
			}
			okE = false
		}
		if !okE {
			whyT = "the divisor has other incoming values"
			return
		}
		okTot = true
	})
	r.Check(okTot, "C09.membership", "divisor", c.pos(app), "the normalisation divisor accumulates exactly the appended members' powers, from 0", whyT)
	// normalisation of every element
	okNorm, whyN := false, "no normalising store found"
	ana.Instrs(f, func(in ssa.Instruction) {
		st, ok := in.(*ssa.Store)
		if !ok {
			return
		}
		fa, ok := st.Addr.(*ssa.FieldAddr)
		if !ok {
			return
		}
		if s := structOf(fa.X.Type()); s == nil || s.Field(fa.Field).Name() != "Power" || st.Parent() != f {
			return
		}
		if fa.X == ssa.Value(lit) {
			return
		}
		ex := p.Expr(st.Val, 0)
		re := regexp.MustCompile(`^Uint\.Uint64\(Uint\.QuoUint64\(Uint\.MulUint64\(NewUint\(field:ExternalSigner\.Power\),4294967295\),(.*)\)\)$`)
		m := re.FindStringSubmatch(ex)
		if m == nil {
			whyN = "normalised power is not Power*MaxUint32/total (truncating): " + ex
			return
		}
		// divisor identity and full range
		call := st.Val.(*ssa.Call).Call.Args[0].(*ssa.Call)
		if totPhi == nil || call.Call.Args[1] != ssa.Value(totPhi) {
			whyN = "the divisor of the normalisation is not the accumulated total of the appended powers"
			return
		}
		root, _ := fieldRoot(st.Addr)
		full := false
		if ld, ok := root.(*ssa.UnOp); ok {
			if ia, ok := ld.X.(*ssa.IndexAddr); ok && fullRange(ia) {
				full = true
			}
		}
		if !full {
			whyN = "the normalisation does not visit every member"
			return
		}
		okNorm = true
	})
	r.Check(okNorm, "C09.membership", "normalise", p.Pos(f.Pos()), "every member's power becomes Power*MaxUint32/total (truncating)", whyN)
}

// loopCoversAll: inside the range loop that contains the append, the only way to reach the next
// iteration without appending is the failing edge of the single key test, and the loop is left only at its header.
func (c *Ctx) loopCoversAll(f *ssa.Function, app *ssa.Call) (bool, string) {
	// header: the block whose If compares the range index with len
	var header *ssa.BasicBlock
	for _, b := range f.Blocks {
		if len(b.Instrs) == 0 {
			continue
		}
		if iff, ok := b.Instrs[len(b.Instrs)-1].(*ssa.If); ok {
			if bo, ok := iff.Cond.(*ssa.BinOp); ok && bo.Op == token.LSS {
				if b.Dominates(app.Block()) && (header == nil || header.Dominates(b)) {
					if _, isLen := bo.Y.(*ssa.Call); isLen {
						header = b
					}
				}
			}
		}
	}
	if header == nil {
		return false, "range loop header not found"
	}
	body, exit := header.Succs[0], header.Succs[1]
	// count conditional branches between body entry and the append block
	nIfs := 0
	seen := map[*ssa.BasicBlock]bool{}
	stack := []*ssa.BasicBlock{body}
	for len(stack) > 0 {
		b := stack[len(stack)-1]
		stack = stack[:len(stack)-1]
		if seen[b] || b == header {
			continue
		}
		seen[b] = true
		if b == exit {
			return false, "the loop over the bonded validators can be left before the range is exhausted (break/return): validators ranked below are dropped from the signer set"
		}
		if len(b.Instrs) > 0 {
			switch b.Instrs[len(b.Instrs)-1].(type) {
			case *ssa.Return:
				return false, "the loop over the bonded validators returns early"
			case *ssa.If:
				nIfs++
			}
		}
		if b == app.Block() {
			continue
		}
		stack = append(stack, b.Succs...)
	}
	if nIfs != 1 {
		return false, sprintf("%d conditional branches decide membership, expected exactly one (the missing-key test)", nIfs)
	}
	return true, ""
}

func (c *Ctx) checkSignerComparator() {
	p, r := c.P, c.R
	sortFn := p.Func("mhub2/types.ExternalSigners.Sort")
	if sortFn == nil || len(sortFn.AnonFuncs) != 1 {
		r.Undecided("C09.sorted", "comparator", "-", "ExternalSigners.Sort with one comparator closure not found")
		return
	}
	cmp := sortFn.AnonFuncs[0]
	// returns: under Power_i == Power_j -> tie-break call on the two addresses; else Power_i > Power_j
	okDesc, okTie := false, false
	idx := func(v ssa.Value) int {
		// which comparator parameter indexes the loaded element
		root, _ := rootAndPath(v)
		if ld, ok := root.(*ssa.UnOp); ok {
			if ia, ok := ld.X.(*ssa.IndexAddr); ok {
				if par, ok := ia.Index.(*ssa.Parameter); ok {
					for i, q := range cmp.Params {
						if q == par {
							return i
						}
					}
				}
			}
		}
		return -1
	}
	ana.Instrs(cmp, func(in ssa.Instruction) {
		ret, ok := in.(*ssa.Return)
		if !ok || len(ret.Results) != 1 {
			return
		}
		check := func(v ssa.Value) {
			switch x := v.(type) {
			case *ssa.BinOp:
				_, px := rootAndPath(x.X)
				_, py := rootAndPath(x.Y)
				if px == "Power" && py == "Power" {
					if (x.Op == token.GTR && idx(x.X) == 0 && idx(x.Y) == 1) || (x.Op == token.LSS && idx(x.X) == 1 && idx(x.Y) == 0) {
						okDesc = true
					}
				}
			case *ssa.Call:
				if len(x.Call.Args) == 2 {
					_, px := rootAndPath(x.Call.Args[0])
					_, py := rootAndPath(x.Call.Args[1])
					if px == "ExternalAddress" && py == "ExternalAddress" && idx(x.Call.Args[0]) != idx(x.Call.Args[1]) && idx(x.Call.Args[0]) >= 0 && idx(x.Call.Args[1]) >= 0 {
						// the tie-break is a strict order on the byte strings
						if callee := x.Call.StaticCallee(); callee != nil {
							ex := ""
							ana.Instrs(callee, func(i2 ssa.Instruction) {
								if r2, ok := i2.(*ssa.Return); ok && len(r2.Results) == 1 {
									ex = p.Expr(r2.Results[0], 0)
								}
							})
							if ex == "(Compare($p0[:],$p1[:])==-1)" || ex == "(Compare($p0,$p1)==-1)" || ex == "($p0<$p1)" || strings.HasPrefix(ex, "(Compare(") {
								okTie = true
							}
						}
					}
				}
			}
		}
		if ph, ok := ret.Results[0].(*ssa.Phi); ok {
			for _, e := range ph.Edges {
				check(e)
			}
		} else {
			check(ret.Results[0])
		}
	})
	// the tie-break applies exactly when powers are equal
	eqGuard := false
	for _, iff := range ana.IfsUsing(cmp, func(cd ana.Cond) bool {
		if cd.Op != token.EQL && cd.Op != token.NEQ {
			return false
		}
		_, px := rootAndPath(cd.X)
		_, py := rootAndPath(cd.Y)
		return px == "Power" && py == "Power"
	}) {
		_ = iff
		eqGuard = true
	}
	r.Check(okDesc && okTie && eqGuard, "C09.sorted", "comparator", p.Pos(cmp.Pos()), "comparator: Power descending, ties broken by a strict order on the external address",
		sprintf("the signer-set comparator is not 'power descending, then address' (descending=%v, tie-break on address=%v, tie only on equal power=%v)", okDesc, okTie, eqGuard))
}

func (c *Ctx) checkFreshness(creator, builder *ssa.Function) {
	p, r := c.P, c.R
	roots := c.Roots()
	// trigger: a begin-block function that calls the creator
	for _, e := range p.In[creator] {
		tf := e.Caller
		if !p.Reach(roots.Begin...)[tf] {
			continue
		}
		in := e.Site.(ssa.Instruction)
		// classify this creation site
		noLatest := ana.AtomIsNil(func(v ssa.Value) bool {
			l := p.Leaves(v, ana.PVOpt{Opaque: func(d ana.CalleeDesc) bool { return true }})
			return l.HasCall("Keeper.GetLatestSignerSetTx")
		})
		if ana.Guarded(in, noLatest) {
			// it must be reached on every path where latest == nil: the nil edge leads straight to it
			r.Ok("C09.freshness-trigger", "none-yet:"+fname(tf), c.pos(in), "a set is created when there is no latest set")
			continue
		}
		// drift creation: the controlling condition includes PowerDiff(current, latest.Signers) > c
		okDrift, why := false, "the creation is not controlled by PowerDiff(current signer set, latest.Signers) > 0.05"
		blk := in.Block()
		for _, pred := range blk.Preds {
			iff, ok := pred.Instrs[len(pred.Instrs)-1].(*ssa.If)
			if !ok || pred.Succs[0] != blk {
				continue
			}
			var conds []ssa.Value
			if ph, ok := iff.Cond.(*ssa.Phi); ok {
				conds = append(conds, ph.Edges...)
			} else {
				conds = append(conds, iff.Cond)
			}
			for _, cv := range conds {
				bo, ok := cv.(*ssa.BinOp)
				if !ok {
					continue
				}
				var pd, k ssa.Value
				switch bo.Op {
				case token.GTR, token.GEQ:
					pd, k = bo.X, bo.Y
				case token.LSS, token.LEQ:
					pd, k = bo.Y, bo.X
				default:
					continue
				}
				kc, ok := k.(*ssa.Const)
				if !ok || kc.Value == nil {
					continue
				}
				fv, _ := constant.Float64Val(kc.Value)
				ex := p.Expr(pd, 0)
				if strings.HasPrefix(ex, "ExternalSigners.PowerDiff(Keeper.CurrentSignerSet(") && strings.HasSuffix(ex, ",field:SignerSetTx.Signers)") {
					if fv > 0 && fv <= 0.05 {
						okDrift = true
					} else {
						why = sprintf("the drift threshold is %v, must be at most 0.05", fv)
					}
				}
			}
		}
		r.Check(okDrift, "C09.freshness-trigger", "drift:"+fname(tf), c.pos(in), "a set is created when PowerDiff(current, latest) > c with c <= 0.05", why)
		// the trigger is called for every chain != hub from begin-block, unconditionally
		for _, e2 := range p.In[tf] {
			if !isRoot(e2.Caller, roots.Begin) {
				continue
			}
			okAll := true
			// the only guard allowed on the path is chainId != "hub"
			cut := 0
			for _, b := range e2.Caller.Blocks {
				if len(b.Instrs) == 0 {
					continue
				}
				if iff, ok := b.Instrs[len(b.Instrs)-1].(*ssa.If); ok && b.Dominates(e2.Site.Block()) && b != e2.Site.Block() {
					cd := ana.NormCond(iff.Cond)
					isLoop := cd.Op == token.LSS
					isHub := (cd.Op == token.EQL || cd.Op == token.NEQ) && (isConstVal(cd.Y, `"hub"`) || isConstVal(cd.X, `"hub"`))
					if !isLoop && !isHub {
						// does it actually decide whether the call is reached?
						s0 := reachFromTo(b.Succs[0], e2.Site.Block())
						s1 := reachFromTo(b.Succs[1], e2.Site.Block())
						if s0 != s1 {
							okAll = false
						}
					}
					cut++
				}
			}
			r.Check(okAll, "C09.freshness-trigger", "every-block:"+fname(e2.Caller), c.pos(e2.Site), "begin-block calls the trigger for every chain other than hub, unconditionally", "the signer-set creation trigger is not reached on every begin-block for every external chain")
		}
	}
	_ = builder
}

func reachFromTo(from, to *ssa.BasicBlock) bool {
	seen := map[*ssa.BasicBlock]bool{}
	stack := []*ssa.BasicBlock{from}
	for len(stack) > 0 {
		b := stack[len(stack)-1]
		stack = stack[:len(stack)-1]
		if seen[b] {
			continue
		}
		seen[b] = true
		if b == to {
			return true
		}
		stack = append(stack, b.Succs...)
	}
	return false
}

// checkPowerDiff: both membership branches update the map; the sum of absolute values is divided by MaxUint32.
func (c *Ctx) checkPowerDiff() {
	p, r := c.P, c.R
	f := p.Func("mhub2/types.ExternalSigners.PowerDiff")
	if f == nil {
		r.Undecided("C09.freshness-trigger", "powerdiff", "-", "ExternalSigners.PowerDiff not found")
		return
	}
	// the comma-ok lookup and the map updates
	var lookup *ssa.Lookup
	var updates []*ssa.MapUpdate
	ana.Instrs(f, func(in ssa.Instruction) {
		switch x := in.(type) {
		case *ssa.Lookup:
			if x.CommaOk {
				lookup = x
			}
		case *ssa.MapUpdate:
			updates = append(updates, x)
		}
	})
	// every iteration of a loop that updates the map must update it: from the loop header no path returns to the
	// header without passing an update (covers the comma-ok form with an update on either branch as well as
	// the unconditional powers[k] -= p)
	okBoth := len(updates) >= 2
	why := "fewer than two map updates"
	_ = lookup
	headers := map[*ssa.BasicBlock]bool{}
	upd := map[*ssa.BasicBlock]bool{}
	for _, u := range updates {
		upd[u.Block()] = true
	}
	for _, u := range updates {
		var h *ssa.BasicBlock
		for _, b := range f.Blocks {
			if b != u.Block() && b.Dominates(u.Block()) && reachFromTo(u.Block(), b) {
				if h == nil || h.Dominates(b) {
					h = b
				}
			}
		}
		if h == nil {
			okBoth = false
			why = "a map update outside a loop over a signer set"
			continue
		}
		headers[h] = true
	}
	if len(headers) != 2 {
		okBoth = false
		why = sprintf("the map is updated in %d loop(s), expected one over each signer set", len(headers))
	}
	for h := range headers {
		for _, s := range h.Succs {
			if !reachFromTo(s, h) {
				continue // loop exit
			}
			seen := map[*ssa.BasicBlock]bool{}
			stack := []*ssa.BasicBlock{s}
			for len(stack) > 0 {
				x := stack[len(stack)-1]
				stack = stack[:len(stack)-1]
				if seen[x] || upd[x] {
					continue
				}
				seen[x] = true
				if x == h {
					okBoth = false
					why = "a member of one of the sets is not recorded on some path (no map update on that branch): validators that left or joined the set are not counted in the drift"
					continue
				}
				stack = append(stack, x.Succs...)
			}
		}
	}
	// both operands: first loop stores +power of the receiver, second subtracts the argument's
	var exs []string
	for _, u := range updates {
		exs = append(exs, p.Expr(u.Value, 0))
	}
	// one loop stores +Power, every update of the other subtracts Power (from the stored value or from nothing)
	okSigns := true
	pos, neg := 0, 0
	for _, ex := range exs {
		switch {
		case ex == "field:ExternalSigner.Power":
			pos++
		case ex == "-field:ExternalSigner.Power", strings.HasSuffix(ex, "-field:ExternalSigner.Power)") && !strings.Contains(ex, "+"):
			neg++
		default:
			okSigns = false
		}
	}
	if pos != 1 || neg < 1 {
		okSigns = false
	}
	if !okSigns && okBoth {
		why = "the map updates are not one +Power per receiver member and -Power per argument member"
	}
	// result: Abs(delta / float(MaxUint32))
	okRes := false
	ana.Instrs(f, func(in ssa.Instruction) {
		if ret, ok := in.(*ssa.Return); ok && len(ret.Results) == 1 {
			ex := p.Expr(ret.Results[0], 0)
			if strings.HasPrefix(ex, "Abs((phi(0,") && strings.HasSuffix(ex, "/4.294967295e+09))") || strings.Contains(ex, "/4294967295") {
				okRes = true
			}
		}
	})
	r.Check(okBoth && okRes && okSigns, "C09.freshness-trigger", "powerdiff", p.Pos(f.Pos()), "PowerDiff records members of either side and divides the summed |difference| by MaxUint32", sprintf("PowerDiff does not measure the full drift (%s; result form ok=%v; map updates=%v)", why, okRes, exs))
}

// isZeroValue recognises the zero value of an aggregate: a nil-valued constant or a load of a
// local that is never stored to (the shape of T{} in go/ssa).
func isZeroValue(v ssa.Value) bool {
	switch x := v.(type) {
	case *ssa.Const:
		return x.Value == nil
	case *ssa.UnOp:
		if a, ok := x.X.(*ssa.Alloc); ok && x.Op == token.MUL {
			for _, r := range *a.Referrers() {
				switch r.(type) {
				case *ssa.Store, *ssa.FieldAddr, *ssa.IndexAddr, *ssa.Call:
					return false
				}
			}
			return true
		}
	}
	return false
}

// checkObservedSetSorted: either the handler sorts the reported members itself, or (i) ExternalSigners.Hash sorts
// its own receiver, (ii) SignerSetTxExecutedEvent.Hash hashes the Members field itself, and (iii) the vote function
// calls Hash on the event before it packs it.
func (c *Ctx) checkObservedSetSorted() {
	p, r := c.P, c.R
	var lit *ssa.Alloc
	var litFn *ssa.Function
	for _, f := range sortedFuncs(c.ConsensusReach()) {
		for _, a := range allocsIn(f) {
			if n := ana.NamedOf(a.Type()); n == nil || n.Obj().Name() != "SignerSetTx" {
				continue
			}
			fs := ana.FieldStores(a)
			if len(fs["Signers"]) == 0 {
				continue
			}
			if p.Leaves(fs["Signers"][0], ana.PVOpt{}).HasField("SignerSetTxExecutedEvent.Members") {
				lit, litFn = a, f
			}
		}
	}
	if lit == nil {
		r.Undecided("C09.sorted", "observed", "-", "no stored signer set built from SignerSetTxExecutedEvent.Members found")
		return
	}
	// explicit sort in the handler
	explicit := false
	ana.Instrs(litFn, func(in ssa.Instruction) {
		if call, ok := in.(*ssa.Call); ok {
			if d, _ := ana.Describe(&call.Call); d.Recv == "ExternalSigners" && d.Name == "Sort" && p.Leaves(call.Call.Args[0], ana.PVOpt{}).HasField("SignerSetTxExecutedEvent.Members") {
				if call.Block().Dominates(lit.Block()) {
					explicit = true
				}
			}
		}
	})
	if explicit {
		r.Ok("C09.sorted", "observed", c.pos(lit), "the handler sorts the reported members before storing them")
		return
	}
	okI, okII, okIII := false, false, false
	if mh := p.Func("mhub2/types.ExternalSigners.Hash"); mh != nil && len(mh.Params) > 0 {
		ana.Instrs(mh, func(in ssa.Instruction) {
			if call, ok := in.(*ssa.Call); ok {
				if d, _ := ana.Describe(&call.Call); d.Recv == "ExternalSigners" && d.Name == "Sort" && call.Call.Args[0] == ssa.Value(mh.Params[0]) {
					okI = true
				}
			}
		})
	}
	if eh := p.Func("mhub2/types.SignerSetTxExecutedEvent.Hash"); eh != nil {
		ana.Instrs(eh, func(in ssa.Instruction) {
			if call, ok := in.(*ssa.Call); ok {
				if d, _ := ana.Describe(&call.Call); d.Recv == "ExternalSigners" && d.Name == "Hash" {
					if _, path := rootAndPath(call.Call.Args[0]); path == "Members" {
						okII = true
					}
				}
			}
		})
	}
	// the vote function: PackEvent(event) is dominated by event.Hash()
	for _, f := range sortedFuncs(c.ConsensusReach()) {
		var packs []*ssa.Call
		var hashes []*ssa.Call
		ana.Instrs(f, func(in ssa.Instruction) {
			call, ok := in.(*ssa.Call)
			if !ok || in.Parent() != f {
				return
			}
			d, _ := ana.Describe(&call.Call)
			if d.Name == "PackEvent" && len(call.Call.Args) == 1 {
				packs = append(packs, call)
			}
			if d.Name == "Hash" && d.Iface && d.Recv == "ExternalEvent" {
				hashes = append(hashes, call)
			}
		})
		for _, pk := range packs {
			if !hasEff(c.Effects(f), "store", "Set", "ExternalEventVoteRecordKey") {
				continue
			}
			for _, h := range hashes {
				if h.Call.Value == pk.Call.Args[0] && (h.Block().Dominates(pk.Block()) && h.Block() != pk.Block() || h.Block() == pk.Block() && ana.InstrIndex(h) < ana.InstrIndex(pk)) {
					okIII = true
				}
			}
		}
	}
	r.Check(okI && okII && okIII, "C09.sorted", "observed", c.pos(lit), "the reported members are in canonical order when stored: hashing the claim sorts them in place before the claim is packed",
		sprintf("the observed signer set is stored in the order the first reporter sent it: it is not sorted by the handler, and the implicit canonicalisation is broken (members hash sorts its own receiver=%v, claim hash hashes the Members field itself=%v, the vote function hashes the claim before packing it=%v); the contract's checkpoint check fails for a set served in another order", okI, okII, okIII))
}

// checkLatestQuery: what is served as "the latest signer set" is the set with the highest nonce: the first
// element of a reverse iteration over the chain's signer sets, the set stored under the nonce counter, or the
// result of a function that is one of these.
func (c *Ctx) checkLatestQuery() {
	p, r := c.P, c.R
	var latestOK func(f *ssa.Function, depth int) (bool, string)
	latestOK = func(f *ssa.Function, depth int) (bool, string) {
		if f == nil || f.Blocks == nil || depth > 2 {
			return false, "not analysable"
		}
		rev, fwd, next := false, false, false
		for _, op := range p.StoreOps(f) {
			if c.prefixName(op) != "OutgoingTxKey" {
				continue
			}
			switch op.Op {
			case "ReverseIterator":
				rev = true
			case "Iterator":
				fwd = true
			case "Get":
				// the key's nonce component comes from the latest-nonce counter
				for _, pt := range op.Key.Parts {
					if pt.Kind != "u64" || pt.Val == nil {
						continue
					}
					for _, vals := range p.PartLeaves(pt, nil, ana.PVOpt{Opaque: func(d ana.CalleeDesc) bool { return true }}).Vals {
						for _, v := range vals {
							if call, _ := ana.UnwrapCall(v); call != nil {
								for _, callee := range p.Callees(call) {
									if hasEff(c.Effects(callee), "store", "Get", "LatestSignerSetTxNonceKey") {
										return true, "the set stored under the latest-nonce counter"
									}
								}
							}
						}
					}
				}
			}
		}
		byCounter := false
		ana.Calls(f, func(site ssa.CallInstruction, d ana.CalleeDesc) {
			if d.Name == "Next" && d.Iface {
				next = true
			}
			// a lookup helper handed a key whose nonce component is the latest-nonce counter
			getter := false
			for _, callee := range p.Callees(site) {
				if hasEff(c.Effects(callee), "store", "Get", "OutgoingTxKey") {
					getter = true
				}
			}
			if !getter {
				return
			}
			for _, a := range site.Common().Args {
				if !isByteSliceType(a.Type()) {
					continue
				}
				for _, pt := range p.KeyOf(a).Parts {
					if pt.Kind != "u64" || pt.Val == nil {
						continue
					}
					for _, vals := range p.PartLeaves(pt, nil, ana.PVOpt{Opaque: func(d ana.CalleeDesc) bool { return true }}).Vals {
						for _, v := range vals {
							if call, _ := ana.UnwrapCall(v); call != nil {
								for _, callee := range p.Callees(call) {
									if hasEff(c.Effects(callee), "store", "Get", "LatestSignerSetTxNonceKey") {
										byCounter = true
									}
								}
							}
						}
					}
				}
			}
		})
		// an element other than the first of a list collected in reverse nonce order is never the latest
		badIdx := ""
		ana.Instrs(f, func(in ssa.Instruction) {
			x, ok := in.(*ssa.IndexAddr)
			if !ok || isConstVal(x.Index, "0") {
				return
			}
			call, _ := ana.UnwrapCall(x.X)
			if call == nil {
				return
			}
			if n := ana.NamedOf(x.Type()); n == nil || n.Obj().Name() != "SignerSetTx" {
				return
			}
			for _, callee := range p.Callees(call) {
				for g := range p.ReachCS(callee) {
					for _, op := range p.StoreOps(g) {
						if op.Op == "ReverseIterator" && c.prefixName(op) == "OutgoingTxKey" {
							badIdx = p.Expr(x.Index, 0)
						}
					}
				}
			}
		})
		if badIdx != "" {
			return false, "an element other than the first of a list collected in reverse nonce order (index " + badIdx + "): the oldest retained set is served as the latest"
		}
		if byCounter {
			return true, "the set stored under the latest-nonce counter"
		}
		if rev && !fwd && !next {
			return true, "the first element of a reverse iteration over the signer sets"
		}
		if fwd {
			return false, "a forward iteration over the signer sets"
		}
		// derived from another function
		res, why := false, "the result does not come from a reverse iteration's first element or the latest-nonce counter"
		ana.Instrs(f, func(in ssa.Instruction) {
			if res {
				return
			}
			switch x := in.(type) {
			case *ssa.IndexAddr:
				// list[k] of a list produced by a reverse-iterating collector
				call, _ := ana.UnwrapCall(x.X)
				if call == nil {
					return
				}
				for _, callee := range p.Callees(call) {
					revColl := false
					for g := range p.ReachCS(callee) {
						for _, op := range p.StoreOps(g) {
							if op.Op == "ReverseIterator" && c.prefixName(op) == "OutgoingTxKey" {
								revColl = true
							}
						}
					}
					if !revColl {
						continue
					}
					if isConstVal(x.Index, "0") {
						res, why = true, "element 0 of a list collected in reverse nonce order"
					} else {
						why = "an element other than the first of a list collected in reverse nonce order (index " + p.Expr(x.Index, 0) + "): the oldest retained set is served as the latest"
					}
				}
			case *ssa.Call:
				if callee := x.Call.StaticCallee(); callee != nil && p.IsModule(callee) && callee != f && !p.L.IsGenerated(callee.Pos()) {
					if n := ana.NamedOf(x.Type()); n != nil && n.Obj().Name() == "SignerSetTx" {
						if ok, w := latestOK(callee, depth+1); ok {
							res, why = true, w+" (through "+fname(callee)+")"
						}
					}
				}
			}
		})
		return res, why
	}
	n := 0
	for _, f := range p.Funcs {
		if f.Parent() != nil || !inPkg(f, "mhub2/keeper") || p.L.IsGenerated(f.Pos()) {
			continue
		}
		if f.Name() != "LatestSignerSetTx" && f.Name() != "GetLatestSignerSetTx" {
			continue
		}
		n++
		ok, why := latestOK(f, 0)
		r.Check(ok, "C09.freshness-trigger", "latest:"+fname(f), p.Pos(f.Pos()), "serves "+why, "what "+fname(f)+" serves as the latest signer set is "+why)
	}
	if n == 0 {
		r.Undecided("C09.freshness-trigger", "latest", "-", "no LatestSignerSetTx / GetLatestSignerSetTx function found")
	}
}

func isByteSliceType(t types.Type) bool {
	sl, ok := t.Underlying().(*types.Slice)
	if !ok {
		return false
	}
	b, ok := sl.Elem().Underlying().(*types.Basic)
	return ok && b.Kind() == types.Uint8
}

func derefType(t types.Type) types.Type {
	if pt, ok := t.Underlying().(*types.Pointer); ok {
		return pt.Elem()
	}
	return t
}
