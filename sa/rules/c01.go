package rules

import (
	"strings"

	"golang.org/x/tools/go/ssa"

	"mhubsa/ana"
)

func init() {
	register("C01", Meta{
		Explanation: "Structural necessary conditions of bridge solvency (mint/burn discipline): (mint-sites) every BankKeeper.MintCoins site reachable from block/message/governance processing lies in a function playing one of the roles deposit, refund, execution payout or cold-storage proposal, and BurnCoins only in the pool-insert role; (deposit-amount) the deposit mint derives from SendToHubEvent.Amount only (plus the decimals lookup) and every SendToHubEvent built inside the module takes its Amount from TransferToChainEvent.Amount only – Fee is not allowed because the contract locks _amount only; (lock-equals-emit) in Hub2.sol the value locked by transferToChain / transferETHToChain is the value emitted as _amount, and submitBatch transfers exactly _amounts[i] to _destinations[i]; (connector-amount) the Minter connector fills event Amount from the transferred value and Fee from the command; (burn-then-record) the pool insert records the entry only after SendCoinsFromAccountToModule succeeded and the same coins were burnt, the burnt value is amount+fee+commission of the parameters and the recorded Token/Fee/ValCommission derive from those parameters respectively; (refund-amount) the refund mints exactly Token+Fee+ValCommission of the looked-up entry, converted, and deletes the entry afterwards; (payout-amount) the three execution mints derive from the batch's Fee/ValCommission amounts (and FeePaid/prices), the second is clamped to the total fee and the third is total minus the second; (event-atomic) handlers run in a CacheContext whose commit is guarded by err == nil; (quorum / lifecycle / identity) the clauses of C02, C03, C04, C12, C13 and C14 that are also necessary for solvency are re-checked here under C01.quorum, C01.lifecycle and C01.identity (an event applied without quorum or twice, a transfer in two places, a refund twice or to the wrong party, a still-executable batch returned to the pool, or votes pooled across different amounts each create unbacked vouchers).",
		NotDecided:  []string{"the inequality supply + in-flight <= custody itself over histories", "behaviour of the ERC-20 tokens and of the Minter multisig", "the Rust orchestrator's arithmetic (only its event signature strings are checked, under C08)", "units (external vs 18-decimals) are decided by rule C01.units only where both operands carry a known unit"},
		Assumptions: append(append([]string{}, commonAssumptions...), "Hub2.sol is read by a purpose-built tokenizer/bracket parser validated on every run by requiring the expected functions, events and abi.encode sites"),
	}, checkC01)
}

var amountOpt = ana.PVOpt{Through: map[string][]int{
	"Keeper.ConvertFromExternalValue": {4},
	"Keeper.ConvertToExternalValue":   {4},
}}

// amountFields returns the "field:" leaves that denote amounts (Int/Coin typed message fields).
func amountFields(l *ana.Prov) []string {
	var out []string
	for _, f := range l.Fields() {
		if strings.HasPrefix(f, "TokenInfo.") || strings.HasPrefix(f, "Keeper.") || strings.HasPrefix(f, "ExternalEventProcessor.") || strings.HasPrefix(f, "TokenInfos.") {
			continue
		}
		out = append(out, f)
	}
	return out
}

func subsetOf(have []string, allowed ...string) (bool, string) {
	al := map[string]bool{}
	for _, a := range allowed {
		al[a] = true
	}
	for _, h := range have {
		if !al[h] {
			return false, h
		}
	}
	return true, ""
}

func containsAll(have []string, req ...string) (bool, string) {
	hs := map[string]bool{}
	for _, h := range have {
		hs[h] = true
	}
	for _, q := range req {
		if !hs[q] {
			return false, q
		}
	}
	return true, ""
}

// mintRole classifies a function holding a MintCoins site.
func (c *Ctx) mintRole(f *ssa.Function, m Eff) string {
	effs := c.Effects(f)
	l := c.EL(m, m.Bank.Coins, amountOpt)
	af := amountFields(l)
	switch {
	case hasEff(effs, "store", "Delete", "SendToExternalKey"):
		return "refund"
	case hasEff(effs, "store", "Delete", "OutgoingTxKey"):
		return "payout"
	case len(af) > 0 && strings.HasPrefix(af[0], "SendToHubEvent."):
		return "deposit"
	case len(af) > 0 && strings.HasPrefix(af[0], "ColdStorageTransferProposal."):
		return "cold-storage"
	}
	return ""
}

func checkC01(c *Ctx) {
	p, r := c.P, c.R
	roots := c.Roots()
	reach := c.ConsensusReach()

	// ---- C01.mint-sites ---------------------------------------------------------
	r.Min("C01.mint-sites", 7)
	var mints []mintSite
	for _, f := range c.SemanticFuncs(reach) {
		for _, e := range c.Effects(f) {
			if e.Kind != "bank" {
				continue
			}
			switch e.Op {
			case "MintCoins":
				role := c.mintRole(f, e)
				mints = append(mints, mintSite{f, e, role})
				if role == "" && c.RegisterHelper(f) {
					// a private helper of one caller: its mint is classified with that caller on the next pass
					continue
				}
				if role == "" {
					r.Bad("C01.mint-sites", "mint:"+fname(f), c.pos(e.At), "MintCoins in a function that is neither deposit, refund, execution payout nor cold-storage proposal: "+strings.Join(c.EL(e, e.Bank.Coins, amountOpt).List(), ","))
				} else if role == "cold-storage" && !c.onlyFrom(f, roots.Gov) {
					r.Bad("C01.mint-sites", "mint:"+fname(f), c.pos(e.At), "the cold-storage mint is reachable from code other than the governance proposal handler")
				} else {
					r.Ok("C01.mint-sites", "mint:"+fname(f), c.pos(e.At), "role "+role)
				}
			case "BurnCoins":
				if hasEff(c.Effects(f), "store", "Set", "SendToExternalKey") {
					r.Ok("C01.mint-sites", "burn:"+fname(f), c.pos(e.At), "role pool-insert")
				} else {
					r.Bad("C01.mint-sites", "burn:"+fname(f), c.pos(e.At), "BurnCoins outside the pool-insert role")
				}
			}
		}
	}

	// ---- cold storage: what is minted is exactly the coin that is scheduled (and burnt) with it -----------
	for _, m := range mints {
		if m.role != "cold-storage" {
			continue
		}
		minted := outerValue(m.e.Bank.Coins, m.e.Chain)
		if call, isCall := minted.(*ssa.Call); isCall && len(call.Call.Args) == 1 {
			// sdk.NewCoins(coin)
			if d, _ := ana.Describe(&call.Call); d.Name == "NewCoins" {
				minted = outerValue(call.Call.Args[0], m.e.Chain)
			}
		}
		ok := false
		nIns := 0
		ana.Calls(m.f, func(site ssa.CallInstruction, d ana.CalleeDesc) {
			isInsert := false
			for _, callee := range p.Callees(site) {
				if hasEff(c.Effects(callee), "bank", "BurnCoins", "") {
					isInsert = true
				}
			}
			if !isInsert {
				return
			}
			nIns++
			for _, a := range site.Common().Args {
				if n := ana.NamedOf(a.Type()); n != nil && n.Obj().Name() == "Coin" {
					// the first coin argument is the transferred amount
					if a == minted || sameObject(a, minted) {
						ok = true
					}
					break
				}
			}
		})
		r.Check(ok && nIns == 1, "C01.mint-sites", "cold-storage-amount:"+fname(m.f), c.pos(m.e.At), "the cold-storage mint is the single coin that the same iteration schedules for the external chain",
			"the coins minted for a cold-storage transfer are not exactly the coin scheduled (and burnt) in the same step: each step mints something else than it burns, the difference stays in circulation without collateral")
	}

	// ---- C01.deposit-amount -----------------------------------------------------
	r.Min("C01.deposit-amount", 3)
	for _, m := range mints {
		if m.role != "deposit" {
			continue
		}
		l := c.EL(m.e, m.e.Bank.Coins, amountOpt)
		af := amountFields(l)
		ok, extra := subsetOf(af, "SendToHubEvent.Amount")
		has, _ := containsAll(af, "SendToHubEvent.Amount")
		conv := l.HasOp("Keeper.ConvertFromExternalValue")
		noArith := !l.HasOp("Int.Add") && !l.HasOp("Int.Mul") && !l.HasOp("Int.Sub") && !l.Ops["binop:+"] && !l.Ops["binop:*"]
		r.Check(ok && has && conv && noArith, "C01.deposit-amount", "mint:"+fname(m.f), c.pos(m.e.At), "deposit mint = ConvertFromExternalValue(SendToHubEvent.Amount), nothing added",
			sprintf("the deposit mint does not derive from SendToHubEvent.Amount alone (extra=%q, fields=%v, converted=%v, no arithmetic=%v)", extra, af, conv, noArith))
		// the same coins are what is sent to the receiver
		for _, e := range c.Effects(m.f) {
			if e.Kind == "bank" && e.Op == "SendCoinsFromModuleToAccount" && e.In == m.e.In {
				if sameCoins(e, e.Bank.Coins, m.e, m.e.Bank.Coins) {
					r.Ok("C01.deposit-amount", "credit:"+fname(m.f), c.pos(e.At), "the minted coins are the coins credited")
				} else {
					ls := c.EL(e, e.Bank.Coins, amountOpt)
					okc, ex := subsetOf(amountFields(ls), "SendToHubEvent.Amount")
					r.Check(okc, "C01.deposit-amount", "credit:"+fname(m.f), c.pos(e.At), "credited coins derive from SendToHubEvent.Amount", "credited coins derive from "+ex)
				}
			}
		}
	}
	// SendToHubEvent literals inside consensus code
	for _, f := range sortedFuncs(reach) {
		if p.L.IsGenerated(f.Pos()) {
			continue
		}
		for _, a := range allocsOfType(f, "SendToHubEvent") {
			if ana.Outermost(a.Parent()) != ana.Outermost(f) || a.Parent() != f {
				continue
			}
			for _, v := range ana.FieldStores(a)["Amount"] {
				l := p.Leaves(v, amountOpt)
				af := amountFields(l)
				ok, extra := subsetOf(af, "TransferToChainEvent.Amount", "SendToHubEvent.Amount")
				r.Check(ok && len(af) > 0, "C01.deposit-amount", "literal:"+fname(f), c.pos(a),
					"constructed deposit Amount derives from the observed event's Amount only",
					sprintf("a SendToHubEvent is built whose Amount includes %s: the contract (and the Minter connector) lock Amount only, so the hub mints vouchers nobody locked", extra))
			}
		}
	}

	// ---- C01.burn-then-record -----------------------------------------------------
	r.Min("C01.burn-then-record", 4)
	for _, f := range c.SemanticFuncs(reach) {
		effs := c.Effects(f)
		if !hasEff(effs, "bank", "BurnCoins", "") {
			continue
		}
		c.checkPoolInsert(f, effs)
	}

	// ---- C01.refund-amount -------------------------------------------------------
	r.Min("C01.refund-amount", 2)
	for _, m := range mints {
		if m.role == "refund" {
			c.checkRefundAmount("C01.refund-amount", m.f, m.e)
		}
	}

	// ---- C01.payout-amount -------------------------------------------------------
	r.Min("C01.payout-amount", 3)
	var pay []mintSite
	for _, m := range mints {
		if m.role == "payout" {
			pay = append(pay, m)
		}
	}
	c.checkPayouts(pay)

	// ---- C01.event-atomic -----------------------------------------------------------
	r.Min("C01.event-atomic", 2)
	c.checkRecoverAtomic("C01.event-atomic")
	for _, f := range sortedFuncs(reach) {
		if c.isProcessFn(f, "mhub2") || c.isProcessFn(f, "oracle") {
			c.checkEventAtomic("C01.event-atomic", f)
		}
	}

	// ---- C01.units ----------------------------------------------------------------------
	c.checkUnits("C01.units", reach, false)

	// ---- clauses of other properties that are necessary conditions of solvency -----------------
	// (an event applied without quorum or twice, a transfer in two places, a refund to the wrong party
	// or twice, a still-executable batch returned to the pool, or votes pooled across different amounts
	// each let vouchers exist that no collateral backs)
	r.Min("C01.quorum", 10)
	r.Min("C01.lifecycle", 30)
	c.include("quorum", "C02", rulesIn("C02.quorum-guard", "C02.signer-bonded", "C02.one-vote"))
	c.include("quorum", "C03", rulesIn("C03."))
	c.include("lifecycle", "C04", rulesIn("C04."))
	c.include("lifecycle", "C12", rulesIn("C12.authorised", "C12.once", "C12.recipient", "C12.expiry"))
	c.include("lifecycle", "C13", rulesIn("C13."))
	c.include("identity", "C14", rulesIn("C14.coverage", "C14.injective"))
	// the event cursors survive a restart for every chain: a chain that restarts at nonce 0 replays (and mints) its history
	c.includeKeys("lifecycle", "C15", rulesIn("C15.faithful-import", "C15.field-roundtrip", "C15.prefix-export", "C15.export-own-state"), func(rule, key string) bool {
		for _, k := range []string{"LastObservedEventNonce", "LastEventNonceByValidatorKey", "Nonces", "every-chain", "loopvar", "in-place"} {
			if strings.Contains(key, k) {
				return true
			}
		}
		return false
	})
	c.include("amounts", "C11", rulesIn("C11.convert-truncates", "C11.debit-identity", "C11.commission-form"))
	c.include("amounts", "C19", rulesIn("C19.clamp", "C19.remainder", "C19.prorata", "C19.units", "C19.record"))

	// ---- C01.lock-equals-emit / C01.connector-amount -----------------------------------------
	c.checkSolLock()
	c.checkConnectorAmount("C01.connector-amount")
}

type mintSite struct {
	f    *ssa.Function
	e    Eff
	role string
}

// onlyFrom: every root that reaches f is among the given roots.
func (c *Ctx) onlyFrom(f *ssa.Function, allowed []*ssa.Function) bool {
	rs := c.Roots()
	for _, set := range [][]*ssa.Function{rs.Block, rs.Msg, rs.Gov, rs.InitGen, rs.Hooks, rs.Query, rs.ExportGen} {
		for _, root := range set {
			if isRoot(root, allowed) {
				continue
			}
			if c.P.Reach(root)[f] {
				return false
			}
		}
	}
	return true
}

// checkPoolInsert: burn-then-record discipline of the pool insert.
func (c *Ctx) checkPoolInsert(f *ssa.Function, effs []Eff) {
	p, r := c.P, c.R
	var takeE, burnE, setE *Eff
	for i := range effs {
		e := &effs[i]
		if e.In != f {
			continue
		}
		switch {
		case e.Kind == "bank" && e.Op == "SendCoinsFromAccountToModule":
			takeE = e
		case e.Kind == "bank" && e.Op == "BurnCoins":
			burnE = e
		case e.Kind == "store" && e.Op == "Set" && e.Prefix == "SendToExternalKey":
			setE = e
		}
	}
	if takeE == nil || burnE == nil || setE == nil {
		r.Undecided("C01.burn-then-record", fname(f), p.Pos(f.Pos()), "pool insert without take/burn/record triple")
		return
	}
	takeOK := ana.AtomErrNil(func(call *ssa.Call, d ana.CalleeDesc) bool { return ssa.Instruction(call) == takeE.At })
	g1 := ana.Guarded(setE.At, takeOK)
	g2 := ana.Guarded(burnE.At, takeOK)
	// burn precedes the record on every path
	avoid := map[*ssa.BasicBlock]bool{burnE.At.Block(): true}
	g3 := (burnE.At.Block() == setE.At.Block() && ana.InstrIndex(burnE.At) < ana.InstrIndex(setE.At)) || !reachAvoiding(f, setE.At.Block(), avoid)
	r.Check(g1 && g2 && g3, "C01.burn-then-record", "order:"+fname(f), c.pos(setE.At), "entry recorded only after the sender's coins were taken (err==nil) and burnt",
		sprintf("pool entry recorded without take-success/burn ordering (record guarded=%v, burn guarded=%v, burn precedes=%v)", g1, g2, g3))
	// same value taken and burnt; its leaves are the three coin parameters
	same := sameCoins(*takeE, takeE.Bank.Coins, *burnE, burnE.Bank.Coins)
	lb := c.EL(*burnE, burnE.Bank.Coins, amountOpt)
	var coinParams []string
	for _, l := range lb.List() {
		if strings.HasPrefix(l, "param:") {
			coinParams = append(coinParams, l[strings.LastIndex(l, ":")+1:])
		}
	}
	var wantParams []string
	for _, par := range f.Params {
		if n := ana.NamedOf(par.Type()); n != nil && n.Obj().Name() == "Coin" {
			wantParams = append(wantParams, par.Name())
		}
	}
	okP, missing := containsAll(coinParams, wantParams...)
	okS, extra := subsetOf(coinParams, wantParams...)
	addOnly := lb.HasOp("Coin.Add") && !lb.HasOp("Coin.Sub") && !lb.HasOp("Int.Sub") && !lb.HasOp("Int.Mul") && !lb.HasOp("Int.Quo")
	r.Check(same && okP && okS && addOnly && len(wantParams) == 3, "C01.burn-then-record", "burnt-value:"+fname(f), c.pos(burnE.At),
		sprintf("taken == burnt == sum of the coin parameters %v", wantParams),
		sprintf("the burnt value is not exactly the sum of the three coin parameters (same value taken and burnt=%v, missing=%q, extra=%q, add-only=%v)", same, missing, extra, addOnly))
	// recorded fields
	for _, a := range allocsOfType(f, "SendToExternal") {
		fs := ana.FieldStores(a)
		for i, fld := range []string{"Token", "Fee", "ValCommission"} {
			if i >= len(wantParams) {
				break
			}
			for _, v := range fs[fld] {
				l := p.Leaves(v, amountOpt)
				var ps []string
				for _, x := range l.List() {
					if strings.HasPrefix(x, "param:") {
						nm := x[strings.LastIndex(x, ":")+1:]
						for _, w := range wantParams {
							if nm == w {
								ps = append(ps, nm)
							}
						}
					}
				}
				ok := len(ps) == 1 && ps[0] == wantParams[i] && l.HasOp("Keeper.ConvertToExternalValue") && !l.HasOp("Int.Add") && !l.HasOp("Int.Sub")
				r.Check(ok, "C01.burn-then-record", "recorded:"+fld, c.pos(a), sprintf("recorded %s = ConvertToExternalValue(%s)", fld, wantParams[i]),
					sprintf("recorded %s derives from coin parameter(s) %v (expected %s, converted to external units, no arithmetic)", fld, ps, wantParams[i]))
			}
		}
	}
	// no error exit after the burn
	all, succ := ana.Returns(f)
	sset := map[*ssa.Return]bool{}
	for _, s := range succ {
		sset[s] = true
	}
	bad := ""
	for _, ret := range all {
		if sset[ret] {
			continue
		}
		if ana.ReachesWithout(burnE.At, ret, nil) {
			bad = c.pos(ret)
		}
	}
	r.Check(bad == "", "C01.burn-then-record", "no-error-after-burn:"+fname(f), c.pos(burnE.At), "no error return is reachable after the burn", "an error return at "+bad+" is reachable after the coins were burnt")
}

// checkRefundAmount: the refund mints Token+Fee+ValCommission of the entry, converted.
func (c *Ctx) checkRefundAmount(rule string, f *ssa.Function, m Eff) {
	r := c.R
	l := c.EL(m, m.Bank.Coins, amountOpt)
	af := amountFields(l)
	var amt []string
	for _, x := range af {
		if strings.HasSuffix(x, ".Amount") {
			amt = append(amt, x)
		}
	}
	okA, missing := containsAll(amt, "SendToExternal.Token.Amount", "SendToExternal.Fee.Amount", "SendToExternal.ValCommission.Amount")
	okS, extra := subsetOf(amt, "SendToExternal.Token.Amount", "SendToExternal.Fee.Amount", "SendToExternal.ValCommission.Amount")
	conv := l.HasOp("Keeper.ConvertFromExternalValue")
	arith := l.HasOp("Int.Add") && !l.HasOp("Int.Sub") && !l.HasOp("Int.Mul") && !l.HasOp("Int.Quo") && !l.HasOp("Int.MulRaw") && !l.HasOp("Coin.Sub")
	r.Check(okA && okS && conv && arith, rule, "amount:"+fname(f), c.pos(m.At),
		"refund mint = ConvertFromExternalValue(Token+Fee+ValCommission) of the pool entry",
		sprintf("the refund does not mint exactly Token+Fee+ValCommission of the entry, converted (missing=%q, extra=%q, converted=%v, additions only=%v)", missing, extra, conv, arith))
	// every bank send after the mint moves the same coins
	for _, e := range c.Effects(f) {
		if e.Kind == "bank" && e.Op == "SendCoinsFromModuleToAccount" && e.In == f {
			ok := sameCoins(e, e.Bank.Coins, m, m.Bank.Coins)
			r.Check(ok, rule, "paid:"+fname(f), c.pos(e.At), "the coins paid out are the coins minted", "the coins paid out after the refund mint are not the minted coins")
		}
	}
}

// checkEventAtomic: handler called with the cached context; commit guarded by err == nil.
func (c *Ctx) checkEventAtomic(rule string, f *ssa.Function) {
	r := c.R
	var cacheCall *ssa.Call
	ana.Instrs(f, func(in ssa.Instruction) {
		call, ok := in.(*ssa.Call)
		if !ok {
			return
		}
		d, ok := ana.Describe(&call.Call)
		if !ok {
			return
		}
		if d.Name == "CacheContext" {
			cacheCall = call
		}
	})
	handleCall := c.invokesHandler(f, 1)
	if cacheCall == nil || handleCall == nil {
		r.Undecided(rule, fname(f), c.P.Pos(f.Pos()), "no CacheContext/Handle pair")
		return
	}
	// first argument of Handle is Extract #0 of CacheContext
	okCtx := false
	for _, a := range handleCall.Call.Args {
		if n := ana.NamedOf(a.Type()); n == nil || n.Obj().Name() != "Context" {
			continue
		}
		if ex, ok := a.(*ssa.Extract); ok && ex.Tuple == ssa.Value(cacheCall) && ex.Index == 0 {
			okCtx = true
		} else {
			okCtx = false
			break
		}
	}
	// a forwarding wrapper must hand its own context parameter to the handler
	if callee := handleCall.Call.StaticCallee(); callee != nil && okCtx {
		if inner := c.invokesHandler(callee, 0); inner != nil {
			fw := false
			for _, a := range inner.Call.Args {
				if par, ok := a.(*ssa.Parameter); ok {
					if n := ana.NamedOf(par.Type()); n != nil && n.Obj().Name() == "Context" {
						fw = true
					}
				}
			}
			okCtx = fw
		}
	}
	// commit() calls: dynamic calls of Extract #1
	okCommit := true
	nCommit := 0
	errNil := ana.AtomErrNil(func(call *ssa.Call, d ana.CalleeDesc) bool { return call == handleCall })
	ana.Instrs(f, func(in ssa.Instruction) {
		call, ok := in.(ssa.CallInstruction)
		if !ok {
			return
		}
		if ex, ok := call.Common().Value.(*ssa.Extract); ok && ex.Tuple == ssa.Value(cacheCall) && ex.Index == 1 {
			nCommit++
			if _, isDefer := in.(*ssa.Defer); isDefer || !ana.Guarded(in, errNil) {
				okCommit = false
			}
		}
	})
	r.Check(okCtx && okCommit && nCommit > 0, rule, fname(f), c.pos(handleCall), "handler runs on the cached context; commit() only under err == nil",
		sprintf("event application is not atomic: handler on cached ctx=%v, commit sites=%d, all guarded by err==nil=%v", okCtx, nCommit, okCommit))
}

// checkRecoverAtomic: a function of block processing that swallows panics (a deferred recover) must run what it
// protects on a cached context: each of its callers hands it the context half of a CacheContext() pair.
// Otherwise the writes made before the panic are committed with the block although the operation was
// abandoned half-way.
func (c *Ctx) checkRecoverAtomic(rule string) {
	p, r := c.P, c.R
	roots := c.Roots()
	blockReach := p.Reach(roots.Block...)
	n := 0
	for _, g := range sortedFuncs(blockReach) {
		if p.L.IsGenerated(g.Pos()) || !p.IsModule(g) || g.Parent() != nil || len(hasRecoverBoundary(g)) == 0 {
			continue
		}
		// does it write at all (directly or through callees)?
		writes := false
		for h := range p.ReachCS(g) {
			for _, op := range p.StoreOps(h) {
				if op.IsWrite() {
					writes = true
				}
			}
			if len(p.BankOps(h)) > 0 {
				writes = true
			}
		}
		if !writes {
			continue
		}
		for _, e := range p.In[g] {
			if !blockReach[e.Caller] || e.Caller == g {
				continue
			}
			n++
			ok := false
			for _, a := range e.Site.Common().Args {
				if nm := ana.NamedOf(a.Type()); nm == nil || nm.Obj().Name() != "Context" {
					continue
				}
				if ex, isEx := a.(*ssa.Extract); isEx && ex.Index == 0 {
					if call, isCall := ex.Tuple.(*ssa.Call); isCall {
						if d, _ := ana.Describe(&call.Call); d.Name == "CacheContext" {
							ok = true
						}
					}
				}
			}
			r.Check(ok, rule, "recover-atomic:"+fname(g)+"<-"+fname(e.Caller), c.pos(e.Site.(ssa.Instruction)), "the panic-swallowing function runs on a cached context",
				fname(g)+" recovers from panics but is run on the live block context by "+fname(e.Caller)+": what it wrote before a panic (entries taken from the pool, a consumed nonce) is committed although the operation was abandoned")
		}
	}
	r.Analysed["recover_boundaries_checked"] = n
}

// checkPayouts: the execution payouts.
func (c *Ctx) checkPayouts(pay []mintSite) {
	r := c.R
	if len(pay) == 0 {
		r.Undecided("C01.payout-amount", "role", "-", "no execution payout mint found")
		return
	}
	allowed := []string{"SendToExternal.Fee.Amount", "SendToExternal.ValCommission.Amount", "BatchTx.Transactions"}
	for _, s := range pay {
		l := c.EL(s.e, s.e.Bank.Coins, amountOpt)
		var amt []string
		for _, x := range amountFields(l) {
			if strings.HasSuffix(x, ".Amount") {
				amt = append(amt, x)
			}
		}
		ok, extra := subsetOf(amt, allowed...)
		nonEmpty := len(amt) > 0
		noToken := !l.HasField("SendToExternal.Token.Amount")
		r.Check(ok && nonEmpty && noToken, "C01.payout-amount", "source:"+c.pos(s.e.At), c.pos(s.e.At),
			sprintf("payout derives from the batch's collected %v", amt),
			sprintf("an execution payout mints from %q (allowed: the batch's Fee and ValCommission amounts only; the transferred Token amount left the hub)", extra))
	}
}
