package rules

import (
	"go/constant"
	"fmt"
	"go/token"
	"os"
	"regexp"
	"strings"

	"golang.org/x/tools/go/ssa"

	"mhubsa/ana"
	"mhubsa/sol"
)

// ---------------------------------------------------------------------------
// C01.lock-equals-emit (Hub2.sol)

func (c *Ctx) checkSolLock() {
	r := c.R
	r.Min("C01.lock-equals-emit", 4)
	sf, err := c.Sol()
	if err != nil {
		r.InfraErr = "Hub2.sol: " + err.Error()
		return
	}
	ev := sf.Events["TransferToChainEvent"]
	if ev == nil {
		r.Undecided("C01.lock-equals-emit", "event", "-", "TransferToChainEvent not declared")
		return
	}
	pos := map[string]int{}
	for i, p := range ev.Params {
		pos[p.Name] = i
	}
	emitted := func(fn *sol.Func) [][]sol.Tok {
		calls := fn.Calls("emit", "TransferToChainEvent")
		if len(calls) != 1 {
			return nil
		}
		return sol.SplitArgs(calls[0])
	}
	// ERC-20 path
	if fn := sf.Funcs["transferToChain"]; fn != nil {
		locks := fn.Calls("safeTransferFrom")
		em := emitted(fn)
		ok := false
		detail := "lock or emit site not found"
		if len(locks) == 1 && em != nil && len(em) == len(ev.Params) {
			la := sol.SplitArgs(locks[0])
			if len(la) == 3 {
				locked := sol.Text(la[2])
				ok = sol.Text(la[0]) == "msg.sender" && sol.Text(la[1]) == "address(this)" && locked == sol.Text(em[pos["_amount"]]) &&
					sol.Text(em[pos["_sender"]]) == "msg.sender" && sol.Text(em[pos["_tokenContract"]]) == "_tokenContract" && sol.Text(em[pos["_fee"]]) != locked
				detail = sprintf("locks %s from %s, emits _amount=%s _fee=%s _sender=%s", locked, sol.Text(la[0]), sol.Text(em[pos["_amount"]]), sol.Text(em[pos["_fee"]]), sol.Text(em[pos["_sender"]]))
				// the locked token is the emitted token
				if !strings.HasPrefix(strings.TrimSpace(sol.Text(fn.Body)), "IERC20(_tokenContract).safeTransferFrom") {
					ok = false
					detail += "; the transfer is not taken from _tokenContract"
				}
			}
		}
		r.Check(ok, "C01.lock-equals-emit", "transferToChain", sprintf("Hub2.sol:%d", fn.Line), "the amount pulled from msg.sender into the contract is the amount emitted as _amount", "transferToChain does not lock exactly what it reports: "+detail)
	} else {
		r.Undecided("C01.lock-equals-emit", "transferToChain", "-", "function not found")
	}
	// ETH path
	if fn := sf.Funcs["transferETHToChain"]; fn != nil {
		opts := fn.CallOptions("deposit")
		em := emitted(fn)
		ok := false
		detail := "deposit or emit site not found"
		if len(opts) == 1 && em != nil && len(em) == len(ev.Params) {
			v := strings.TrimPrefix(sol.Text(opts[0]), "value:")
			ok = v == "msg.value" && sol.Text(em[pos["_amount"]]) == v && sol.Text(em[pos["_tokenContract"]]) == "wethAddress" && sol.Text(em[pos["_sender"]]) == "msg.sender"
			detail = sprintf("wraps %s, emits _amount=%s token=%s", v, sol.Text(em[pos["_amount"]]), sol.Text(em[pos["_tokenContract"]]))
		}
		r.Check(ok, "C01.lock-equals-emit", "transferETHToChain", sprintf("Hub2.sol:%d", fn.Line), "the ETH wrapped is msg.value and is the amount emitted", "transferETHToChain does not lock exactly what it reports: "+detail)
	} else {
		r.Undecided("C01.lock-equals-emit", "transferETHToChain", "-", "function not found")
	}
	// payout path
	if fn := sf.Funcs["submitBatch"]; fn != nil {
		erc := fn.Calls("safeTransfer")
		eth := fn.Calls("safeTransferETH")
		wd := fn.Calls("withdraw")
		okE := len(erc) == 1 && sol.Text(erc[0]) == "_destinations[i],_amounts[i]"
		okW := len(eth) == 1 && sol.Text(eth[0]) == "_destinations[i],_amounts[i]" && len(wd) == 1 && sol.Text(wd[0]) == "_amounts[i]"
		r.Check(okE, "C01.lock-equals-emit", "submitBatch:erc20", sprintf("Hub2.sol:%d", fn.Line), "pays exactly _amounts[i] to _destinations[i]", "submitBatch does not pay exactly _amounts[i] to _destinations[i] on the ERC-20 branch")
		r.Check(okW, "C01.lock-equals-emit", "submitBatch:weth", sprintf("Hub2.sol:%d", fn.Line), "unwraps and pays exactly _amounts[i] to _destinations[i]", "submitBatch does not unwrap and pay exactly _amounts[i] to _destinations[i] on the WETH branch")
		// the loop visits every index
		txt := sol.Text(fn.Body)
		n := strings.Count(txt, "for(uint256 i=0;i<_amounts.length;i++)")
		r.Check(n == 2, "C01.lock-equals-emit", "submitBatch:all", sprintf("Hub2.sol:%d", fn.Line), "both payout loops run over every index of _amounts", "a payout loop of submitBatch does not run over every index of _amounts")
	} else {
		r.Undecided("C01.lock-equals-emit", "submitBatch", "-", "function not found")
	}
}

// ---------------------------------------------------------------------------
// C01.connector-amount

func (c *Ctx) checkConnectorAmount(rule string) {
	r := c.R
	if rule == "C01.connector-amount" {
		r.Min(rule, 3)
	}
	cp, err := c.Other("minter-connector", "./...")
	if err != nil {
		r.InfraErr = "minter-connector: " + err.Error()
		return
	}
	// claims built from deposits
	n := 0
	for _, f := range cp.Funcs {
		for _, a := range allocsIn(f) {
			tn := ana.NamedOf(a.Type())
			if tn == nil {
				continue
			}
			fs := ana.FieldStores(a)
			switch tn.Obj().Name() {
			case "TransferToChainEvent":
				n++
				okA, okF := false, false
				for _, v := range fs["Amount"] {
					l := cp.Leaves(v, ana.PVOpt{})
					okA = l.HasField("Deposit.Amount") && !l.HasField("Deposit.Fee")
				}
				for _, v := range fs["Fee"] {
					l := cp.Leaves(v, ana.PVOpt{})
					okF = l.HasField("Deposit.Fee") && !l.HasField("Deposit.Amount")
				}
				r.Check(okA && okF, rule, "claim:TransferToChainEvent", cp.Pos(a.Pos()), "Amount <- Deposit.Amount, Fee <- Deposit.Fee", "the Minter connector does not report the transferred value as Amount and the commanded fee as Fee")
			case "SendToHubEvent":
				n++
				okA := false
				for _, v := range fs["Amount"] {
					l := cp.Leaves(v, ana.PVOpt{})
					okA = l.HasField("Deposit.Amount") && !l.HasField("Deposit.Fee") && !l.HasOp("Int.Add") && !l.HasOp("Int.Sub")
				}
				r.Check(okA, rule, "claim:SendToHubEvent", cp.Pos(a.Pos()), "Amount <- Deposit.Amount", "the Minter connector does not report the transferred value as the deposit Amount")
			case "Deposit":
				if a.Comment != "complit" {
					continue
				}
				n++
				okA, okF := false, false
				for _, v := range fs["Amount"] {
					l := cp.Leaves(v, ana.PVOpt{})
					okA = l.HasField("SendData.Value")
				}
				for _, v := range fs["Fee"] {
					l := cp.Leaves(v, ana.PVOpt{})
					okF = l.HasField("Command.Fee")
				}
				r.Check(okA && okF, rule, "deposit", cp.Pos(a.Pos()), "Deposit.Amount <- SendData.Value (the value moved to the multisig), Deposit.Fee <- Command.Fee", "the connector's deposit record is not filled from the transferred value and the command's fee")
			}
		}
	}
	if n == 0 {
		r.Undecided(rule, "claims", "-", "no claim construction found in the connector")
	}
}

// ---------------------------------------------------------------------------
// C08.minter-threshold

func (c *Ctx) checkMinterThreshold() {
	r := c.R
	r.Min("C08.minter-threshold", 2)
	cp, err := c.Other("minter-connector", "./...")
	if err != nil {
		r.InfraErr = "minter-connector: " + err.Error()
		return
	}
	re := regexp.MustCompile(`^Uint\.Uint64\(Uint\.QuoUint64\(Uint\.MulUint64\(NewUint\(field:ExternalSigner\.Power\),1000\),phi\(0,\(@\+field:ExternalSigner\.Power\)\)\)\)$`)
	nThr, nW := 0, 0
	for _, f := range cp.Funcs {
		ana.Instrs(f, func(in ssa.Instruction) {
			st, ok := in.(*ssa.Store)
			if !ok {
				return
			}
			fa, ok := st.Addr.(*ssa.FieldAddr)
			if !ok {
				return
			}
			s := structOf(fa.X.Type())
			if s == nil || s.Field(fa.Field).Name() != "Threshold" {
				return
			}
			if n := ana.NamedOf(fa.X.Type()); n == nil || n.Obj().Name() != "EditMultisigData" {
				return
			}
			nThr++
			r.Check(isConstVal(st.Val, "667"), "C08.minter-threshold", "threshold:"+fname(f), cp.InstrPos(st), "multisig threshold 667 (of 1000)", "the Minter multisig threshold is not 667: "+cp.Expr(st.Val, 0))
		})
		// weights
		ana.Instrs(f, func(in ssa.Instruction) {
			call, ok := in.(*ssa.Call)
			if !ok {
				return
			}
			d, _ := ana.Describe(&call.Call)
			if d.Recv == "Uint" && d.Name == "Uint64" && f.Name() == "relayValsets" {
				ex := cp.Expr(call, 0)
				nW++
				r.Check(re.MatchString(ex), "C08.minter-threshold", "weight:"+cp.InstrPos(call), cp.InstrPos(call), "weight = power*1000/total(power) over the same signer set", "a Minter multisig weight is not power*1000/sum(power): "+ex)
			}
		})
	}
	if nThr < 2 || nW < 2 {
		r.Undecided("C08.minter-threshold", "sites", "-", sprintf("%d threshold and %d weight sites found, expected 2 each (confirmation signing and submission must build the same multisig)", nThr, nW))
	}
}

// ---------------------------------------------------------------------------
// C17.generator

func (c *Ctx) checkKeysGenerator() {
	r := c.R
	r.Min("C17.generator", 1)
	kp, err := c.Other("keys-generator", "./...")
	if err != nil {
		r.InfraErr = "keys-generator: " + err.Error()
		return
	}
	// hub prefix
	hubPrefix := ""
	if f := c.P.Func("mhub2/types.NewEthereumSignature"); f != nil {
		ana.Instrs(f, func(in ssa.Instruction) {
			if call, ok := in.(*ssa.Call); ok {
				if d, _ := ana.Describe(&call.Call); d.Name == "Keccak256Hash" {
					for lab := range c.P.Leaves(call.Call.Args[0], ana.PVOpt{}).Leaves {
						if strings.HasPrefix(lab, `const:"\x19`) {
							hubPrefix = lab
						}
					}
				}
			}
		})
	}
	ok := false
	detail := "no DelegateKeysSignMsg literal in keys-generator"
	for _, f := range kp.Funcs {
		for _, a := range allocsOfType(f, "DelegateKeysSignMsg") {
			fs := ana.FieldStores(a)
			okFields := len(fs["ValidatorAddress"]) == 1 && len(fs["Nonce"]) == 1
			// the signed digest: Keccak(prefix ‖ Keccak(Marshal(msg)))
			okDigest := false
			ana.Instrs(f, func(in ssa.Instruction) {
				call, isC := in.(*ssa.Call)
				if !isC {
					return
				}
				d, _ := ana.Describe(&call.Call)
				if d.Name != "Sign" {
					return
				}
				l := kp.Leaves(call.Call.Args[0], ana.PVOpt{Opaque: func(d ana.CalleeDesc) bool { return d.Name == "MustMarshal" }})
				hasPrefix := false
				for lab := range l.Leaves {
					if lab == hubPrefix && hubPrefix != "" {
						hasPrefix = true
					}
				}
				if hasPrefix && l.HasOp("Keccak256Hash") && (l.HasCall("Codec.MustMarshal") || l.HasCall("BinaryCodec.MustMarshal") || l.HasPrefix("call:")) {
					okDigest = true
				}
			})
			ok = okFields && okDigest
			detail = sprintf("fields ValidatorAddress+Nonce populated=%v, signs keccak(hub prefix ‖ keccak(marshal(msg)))=%v", okFields, okDigest)
		}
	}
	r.Check(ok, "C17.generator", "keys-generator", "keys-generator/cmd/mhub-keys-generator/main.go", "keys-generator signs DelegateKeysSignMsg{validator, nonce} under the hub's EIP-191 prefix", "keys-generator does not sign the message the hub verifies: "+detail)
}

// ---------------------------------------------------------------------------
// C20

func init() {
	register("C20", Meta{
		Explanation: "Structural necessary conditions for the Minter connector: (validate) Command.ValidateAndComplete returns nil only on paths that passed: a known type with that type's recipient check, a fee that parsed, fee >= 0, and fee < amount - amount/100; (counted-iff-valid) both block scanners (start-up resynchronisation and the relay loop) advance the event nonce / record a deposit for a send only under ValidateAndComplete == nil, recognise the same three event kinds with the same predicates (type and multisig address tests) and advance the same counters per kind; (cursor) in every scanner, at each persisted commit the cursor written is the block's height, or the height minus one only if no nonce counter advanced earlier in the same block iteration has been left un-restored; the resynchronisation scan derives its block windows from a start snapshot taken before the loop.",
		NotDecided:  []string{"equality of nonces across validators as such", "Minter node behaviour and API pagination", "the status-file fallback in LoadStatus", "claims lost between the hub transaction and the status commit"},
		Assumptions: commonAssumptions,
	}, checkC20)
}

func checkC20(c *Ctx) {
	r := c.R
	r.Min("C20.validate", 5)
	r.Min("C20.counted-iff-valid", 3)
	r.Min("C20.cursor", 4)
	cp, err := c.Other("minter-connector", "./...")
	if err != nil {
		r.InfraErr = "minter-connector: " + err.Error()
		return
	}
	// ---- validate ---------------------------------------------------------------------------
	var vf *ssa.Function
	for _, f := range cp.Funcs {
		if f.Name() == "ValidateAndComplete" {
			vf = f
		}
	}
	if vf == nil {
		r.Undecided("C20.validate", "function", "-", "ValidateAndComplete not found")
	} else {
		_, succ := ana.Returns(vf)
		amountPar := vf.Params[len(vf.Params)-1]
		isFee := func(v ssa.Value) bool {
			l := cp.Leaves(v, ana.PVOpt{})
			return l.HasField("Command.Fee") && !paramLeaf(l, vf, amountPar.Name())
		}
		recipient := []ana.Atom{
			ana.AtomCallBool(func(call *ssa.Call, d ana.CalleeDesc) bool {
				return d.Name == "IsHexAddress" && cp.Leaves(call.Call.Args[0], ana.PVOpt{}).HasField("Command.Recipient")
			}, true),
			ana.AtomErrNil(func(call *ssa.Call, d ana.CalleeDesc) bool {
				return d.Name == "AccAddressFromBech32" && cp.Leaves(call.Call.Args[0], ana.PVOpt{}).HasField("Command.Recipient")
			}),
		}
		parsed := func(cd ana.Cond) (bool, bool) {
			if cd.Op != token.ILLEGAL {
				return false, false
			}
			ex, ok := cd.X.(*ssa.Extract)
			if !ok || ex.Index != 1 {
				return false, false
			}
			call, ok := ex.Tuple.(*ssa.Call)
			if !ok {
				return false, false
			}
			d, _ := ana.Describe(&call.Call)
			if d.Name == "NewIntFromString" && cp.Leaves(call.Call.Args[0], ana.PVOpt{}).HasField("Command.Fee") {
				return true, true
			}
			return false, false
		}
		nonNeg := ana.AtomCallBool(func(call *ssa.Call, d ana.CalleeDesc) bool {
			return d.Recv == "Int" && d.Name == "IsNegative" && isFee(call.Call.Args[0])
		}, false)
		nonNeg2 := ana.AtomCallBool(func(call *ssa.Call, d ana.CalleeDesc) bool {
			if d.Recv != "Int" || len(call.Call.Args) != 2 {
				return false
			}
			zero := cp.Expr(call.Call.Args[1], 0)
			return (d.Name == "GTE" && isFee(call.Call.Args[0]) && (zero == "ZeroInt()" || zero == "NewInt(0)"))
		}, true)
		boundRe := regexp.MustCompile(`^Int\.Sub\(\$p1,Int\.QuoRaw\(\$p1,100\)\)$`)
		bound := func(want bool, name string, feeFirst bool) ana.Atom {
			return ana.AtomCallBool(func(call *ssa.Call, d ana.CalleeDesc) bool {
				if d.Recv != "Int" || d.Name != name || len(call.Call.Args) != 2 {
					return false
				}
				a, b := call.Call.Args[0], call.Call.Args[1]
				if feeFirst {
					return isFee(a) && boundRe.MatchString(cp.Expr(b, 0))
				}
				return boundRe.MatchString(cp.Expr(a, 0)) && isFee(b)
			}, want)
		}
		bounds := []ana.Atom{bound(false, "LTE", false), bound(true, "GT", false), bound(true, "LT", true), bound(false, "GTE", true)}
		okR, okP, okN, okB := len(succ) > 0, len(succ) > 0, len(succ) > 0, len(succ) > 0
		for _, s := range succ {
			if !ana.Guarded(s, recipient...) {
				okR = false
			}
			if !ana.Guarded(s, parsed) {
				okP = false
			}
			if !ana.Guarded(s, nonNeg, nonNeg2) {
				okN = false
			}
			if !ana.Guarded(s, bounds...) {
				okB = false
			}
		}
		// the recipient that is checked is the recipient that was received: no assignment to cmd.Recipient can
		// reach a recipient check (a value normalised first always passes)
		okRaw := true
		var recStores []*ssa.Store
		var recChecks []ssa.Instruction
		ana.Instrs(vf, func(in ssa.Instruction) {
			if st, ok := in.(*ssa.Store); ok {
				if fa, ok := st.Addr.(*ssa.FieldAddr); ok {
					if sty := structOf(fa.X.Type()); sty != nil && sty.Field(fa.Field).Name() == "Recipient" {
						recStores = append(recStores, st)
					}
				}
			}
			if call, ok := in.(*ssa.Call); ok {
				d, _ := ana.Describe(&call.Call)
				if (d.Name == "IsHexAddress" || d.Name == "AccAddressFromBech32") && len(call.Call.Args) > 0 && cp.Leaves(call.Call.Args[0], ana.PVOpt{}).HasField("Command.Recipient") {
					recChecks = append(recChecks, call)
				}
			}
		})
		for _, st := range recStores {
			for _, ck := range recChecks {
				if ana.ReachesWithout(st, ck, nil) {
					okRaw = false
				}
			}
		}
		where := cp.Pos(vf.Pos())
		r.Check(okRaw && len(recChecks) > 0, "C20.validate", "recipient-as-received", where, "the recipient is checked before it is rewritten", "the recipient is rewritten (normalised) before it is checked: the check then passes for every input, and a deposit with a malformed recipient becomes a claim")
		r.Check(okR, "C20.validate", "recipient", where, "success only after the recipient check of a known type", "a command can validate without the recipient check of a known type")
		r.Check(okP, "C20.validate", "fee-parsed", where, "success only after the fee parsed as an integer", "a command can validate although its fee did not parse as an integer")
		r.Check(okN, "C20.validate", "fee-non-negative", where, "success only for fee >= 0", "a command with a negative fee validates (\"-5\" parses, and amount-1% <= fee is false): the hub then builds a transfer with a negative fee")
		r.Check(okB, "C20.validate", "fee-bound", where, "success only for fee < amount - amount/100", "a command can validate without fee < amount - amount/100")
	}

	// ---- scanners ---------------------------------------------------------------------------------
	var scanners []*ssa.Function
	for _, f := range cp.Funcs {
		if f.Parent() != nil {
			continue
		}
		uses := false
		ana.Calls(f, func(site ssa.CallInstruction, d ana.CalleeDesc) {
			if d.Name == "ValidateAndComplete" {
				uses = true
			}
		})
		if uses {
			scanners = append(scanners, f)
		}
	}
	if len(scanners) != 2 {
		r.Undecided("C20.counted-iff-valid", "scanners", "-", sprintf("%d block scanners found, expected 2", len(scanners)))
	}
	var summaries []string
	for _, f := range scanners {
		sum := c.scannerSummary(cp, f)
		summaries = append(summaries, sum)
		// the send branch counts only under ValidateAndComplete == nil
		valid := []ana.Atom{
			ana.AtomErrNil(func(call *ssa.Call, d ana.CalleeDesc) bool { return d.Name == "ValidateAndComplete" }),
		}
		okV := false
		bad := ""
		ana.Calls(f, func(site ssa.CallInstruction, d ana.CalleeDesc) {
			if d.Name != "SetLastEventNonce" {
				return
			}
			in := site.(ssa.Instruction)
			// is this the send branch? it is guarded by tx.Type == TypeSend
			isSend := ana.Guarded(in, typeAtom(cp, "1"))
			if !isSend {
				return
			}
			if restoreCall(cp, site) {
				return
			}
			if ana.Guarded(in, valid...) {
				okV = true
			} else {
				bad = cp.InstrPos(in)
			}
		})
		r.Check(okV && bad == "", "C20.counted-iff-valid", "valid-only:"+fname(f), cp.Pos(f.Pos()), "a send is counted only under ValidateAndComplete == nil", "a send to the multisig is counted although its command did not validate (at "+bad+")")
		c.checkCursor(cp, f)
	}
	// a failed block request is retried for the same window: on the error path of the Blocks(...) call the window
	// counter is decremented unconditionally before the loop's increment
	for _, f := range scanners {
		ana.Instrs(f, func(in ssa.Instruction) {
			call, ok := in.(*ssa.Call)
			if !ok || in.Parent() != f {
				return
			}
			d, _ := ana.Describe(&call.Call)
			if d.Name != "Blocks" || !call.Call.IsInvoke() && d.Recv == "" {
				return
			}
			// the window counter: the phi the request's arguments derive from
			var ctr *ssa.Phi
			for _, a := range call.Call.Args {
				var find func(v ssa.Value, depth int)
				find = func(v ssa.Value, depth int) {
					if depth > 6 || ctr != nil {
						return
					}
					switch x := v.(type) {
					case *ssa.Phi:
						for _, e := range x.Edges {
							if k, ok := e.(*ssa.Const); ok && k.Value != nil && k.Value.ExactString() == "0" {
								ctr = x
							}
						}
						if ctr == nil {
							for _, e := range x.Edges {
								find(e, depth+1)
							}
						}
					case *ssa.BinOp:
						find(x.X, depth+1)
						find(x.Y, depth+1)
					case *ssa.Convert:
						find(x.X, depth+1)
					}
				}
				find(a, 0)
			}
			if ctr == nil {
				r.Undecided("C20.cursor", "retry:"+fname(f), cp.InstrPos(call), "window counter of the block request not found")
				return
			}
			// error branch of the request
			var errBlock *ssa.BasicBlock
			for _, ref := range *call.Referrers() {
				ex, ok := ref.(*ssa.Extract)
				if !ok || ex.Index != 1 {
					continue
				}
				for _, r2 := range *ex.Referrers() {
					if bo, ok := r2.(*ssa.BinOp); ok && bo.Op == token.NEQ && ana.IsNilConst(bo.Y) {
						for _, r3 := range *bo.Referrers() {
							if iff, ok := r3.(*ssa.If); ok {
								errBlock = iff.Block().Succs[0]
							}
						}
					}
				}
			}
			if errBlock == nil {
				r.Undecided("C20.cursor", "retry:"+fname(f), cp.InstrPos(call), "error branch of the block request not found")
				return
			}
			// decrements of the counter
			dec := map[*ssa.BasicBlock]bool{}
			ana.Instrs(f, func(i2 ssa.Instruction) {
				if bo, ok := i2.(*ssa.BinOp); ok && bo.Op == token.SUB && isConstVal(bo.Y, "1") {
					src := bo.X
					if src == ssa.Value(ctr) {
						dec[bo.Block()] = true
					}
				}
			})
			// every path from the error branch back to the loop header passes a decrement
			okRetry := len(dec) > 0
			seen := map[*ssa.BasicBlock]bool{}
			stack := []*ssa.BasicBlock{errBlock}
			for len(stack) > 0 {
				b := stack[len(stack)-1]
				stack = stack[:len(stack)-1]
				if seen[b] || dec[b] {
					continue
				}
				seen[b] = true
				if b == ctr.Block() {
					okRetry = false
					continue
				}
				stack = append(stack, b.Succs...)
			}
			r.Check(okRetry, "C20.cursor", "retry:"+fname(f), cp.InstrPos(call), "a failed block request is repeated for the same window", "after a failed block request the scan can move on to the next window (the window counter is not decremented on every error path): events in the skipped blocks are never counted, and every later event gets a nonce that is too low")
		})
	}
	if len(summaries) == 2 {
		r.Check(summaries[0] == summaries[1], "C20.counted-iff-valid", "same-kinds", "-", "both scanners recognise the same event kinds with the same predicates and counters: "+summaries[0],
			"the two block scanners disagree on which transactions are bridge events or which counters they advance: resync ["+summaries[0]+"] vs relay ["+summaries[1]+"]")
	}
	// every transaction's command is decoded into a fresh struct: encoding/json leaves the fields a payload does
	// not mention as they were, so a struct reused across transactions hands an incomplete command the fields of
	// an earlier one (which then validates and is counted)
	for _, f := range cp.Funcs {
		if f.Blocks == nil || cp.L.IsGenerated(f.Pos()) {
			continue
		}
		var sccs [][]*ssa.BasicBlock
		ana.Calls(f, func(site ssa.CallInstruction, d ana.CalleeDesc) {
			if d.Name != "Unmarshal" || len(site.Common().Args) < 2 {
				return
			}
			dst := site.Common().Args[len(site.Common().Args)-1]
			for i := 0; i < 4; i++ {
				switch x := dst.(type) {
				case *ssa.MakeInterface:
					dst = x.X
				case *ssa.ChangeType:
					dst = x.X
				}
			}
			// &cmd (a pointer variable holding the struct) or cmd itself
			var al *ssa.Alloc
			switch x := dst.(type) {
			case *ssa.Alloc:
				al = x
				// a pointer variable: what it points to
				for _, ref := range *x.Referrers() {
					if st, ok := ref.(*ssa.Store); ok && st.Addr == ssa.Value(x) {
						if a2, ok := st.Val.(*ssa.Alloc); ok {
							al = a2
						}
					}
				}
			}
			if al == nil {
				return
			}
			if n := ana.NamedOf(derefType(al.Type())); n == nil || n.Obj().Name() != "Command" {
				return
			}
			if sccs == nil {
				sccs = blockSCCs(f)
			}
			in := site.(ssa.Instruction)
			fresh := true
			for _, scc := range sccs {
				inCall, inAlloc := false, false
				for _, b := range scc {
					if b == in.Block() {
						inCall = true
					}
					if b == al.Block() {
						inAlloc = true
					}
				}
				if inCall && !inAlloc {
					fresh = false
				}
			}
			r.Check(fresh, "C20.counted-iff-valid", "fresh-command:"+fname(f), cp.InstrPos(in), "each transaction's payload is decoded into a command struct created for it",
				fname(f)+" decodes transaction payloads into one command struct that is created outside the transaction loop: fields a payload does not mention keep the values of an earlier transaction, so an incomplete command validates and is counted as a bridge event")
		})
	}
	// the scanners rewind their counters with the context setters: a setter stores what it is given
	for _, f := range cp.Funcs {
		if f.Blocks == nil || f.Signature.Recv() == nil || !strings.HasPrefix(f.Name(), "SetLast") {
			continue
		}
		if n := ana.NamedOf(derefType(f.Signature.Recv().Type())); n == nil || n.Obj().Name() != "Context" {
			continue
		}
		cond := false
		for _, b := range f.Blocks {
			if len(b.Succs) == 2 {
				cond = true
			}
		}
		r.Check(!cond, "C20.cursor", "setter:"+fname(f), cp.Pos(f.Pos()), "the setter stores the value it is given",
			fname(f)+" stores its argument only under a condition: the start-up scan's rewind to the values at the start of a block is ignored, so the relay loop numbers every later event too high")
	}
	// the cursor travels by value: a function that is handed the connector context as a value and moves its
	// counters works on a copy, so it has to hand the context back (every scanner does: it returns it)
	for _, f := range cp.Funcs {
		if f.Blocks == nil || cp.L.IsGenerated(f.Pos()) {
			continue
		}
		for _, a := range allocsIn(f) {
			n := ana.NamedOf(a.Type())
			if n == nil || n.Obj().Name() != "Context" || structOf(a.Type()) == nil {
				continue
			}
			var muts []ssa.Instruction
			var loads []*ssa.UnOp
			for _, ref := range *a.Referrers() {
				switch x := ref.(type) {
				case *ssa.UnOp:
					if x.Op == token.MUL {
						loads = append(loads, x)
					}
				case ssa.CallInstruction:
					cc := x.Common()
					if callee := cc.StaticCallee(); callee != nil && len(cc.Args) > 0 && cc.Args[0] == ssa.Value(a) && strings.HasPrefix(callee.Name(), "SetLast") {
						muts = append(muts, x.(ssa.Instruction))
					}
				}
			}
			if len(muts) == 0 {
				continue
			}
			// every move of the counters is followed by a use of the context as a whole (it is returned, assigned
			// or passed on): otherwise the move only ever reaches the copy
			returned := true
			mut := muts[0]
			for _, m := range muts {
				seen := false
				for _, l := range loads {
					if len(*l.Referrers()) == 0 {
						continue
					}
					if (l.Block() == m.Block() && ana.InstrIndex(m) < ana.InstrIndex(l)) || (l.Block() != m.Block() && ana.ReachesWithout(m, l, nil)) {
						seen = true
					}
				}
				if !seen {
					returned, mut = false, m
				}
			}
			r.Check(returned, "C20.cursor", "by-value:"+fname(f), cp.InstrPos(mut), "the context whose counters are moved is handed on (returned / assigned) afterwards",
				fname(f)+" moves the cursor / nonce counters of a copy of the connector context (contexts are passed by value) that is never handed back: the caller goes on with the counters as they were (a rewind is persisted but the relay loop continues from the un-rewound values)")
		}
	}
}

// typeAtom: tx.Type == uint64(<const>)
func typeAtom(cp *ana.Prog, val string) ana.Atom {
	return ana.AtomCmp(func(op token.Token, x, y ssa.Value) (bool, bool) {
		if op != token.EQL && op != token.NEQ {
			return false, false
		}
		for _, pr := range [][2]ssa.Value{{x, y}, {y, x}} {
			if cp.Leaves(pr[0], ana.PVOpt{}).HasField("TransactionResponse.Type") {
				kv := pr[1]
				for i := 0; i < 3; i++ {
					switch z := kv.(type) {
					case *ssa.Convert:
						kv = z.X
					case *ssa.ChangeType:
						kv = z.X
					}
				}
				if k, ok := kv.(*ssa.Const); ok && k.Value != nil && (val == "" || k.Value.ExactString() == val) {
					return op == token.EQL, true
				}
			}
		}
		return false, false
	})
}

// restoreCall: SetLastXNonce(v) where v is a plain earlier reading of the same counter (a snapshot),
// not a new value.
func restoreCall(cp *ana.Prog, site ssa.CallInstruction) bool {
	args := site.Common().Args
	if len(args) == 0 {
		return false
	}
	d, ok := ana.Describe(site.Common())
	if !ok {
		return false
	}
	ex := cp.Expr(args[len(args)-1], 0)
	m := regexp.MustCompile(`^Context\.(Last\w+Nonce)\(\)$`).FindStringSubmatch(ex)
	return m != nil && "Set"+m[1] == d.Name
}

// scannerSummary renders, per event kind, the predicates and the counters advanced.
func (c *Ctx) scannerSummary(cp *ana.Prog, f *ssa.Function) string {
	var parts []string
	norm := func(s string) string {
		s = regexp.MustCompile(`(field|local|global):[A-Za-z_\.]*MultisigAddr`).ReplaceAllString(s, "MULTISIG")
		return s
	}
	for _, ty := range []string{"1", "13", "18"} {
		ta := typeAtom(cp, ty)
		var conds, ctrs []string
		seen := map[string]bool{}
		ana.Calls(f, func(site ssa.CallInstruction, d ana.CalleeDesc) {
			if !strings.HasPrefix(d.Name, "SetLast") || !strings.HasSuffix(d.Name, "Nonce") {
				return
			}
			in := site.(ssa.Instruction)
			if os.Getenv("MHUBSA_DEBUGC20") != "" {
				fmt.Fprintln(os.Stderr, "C20dbg", fname(f), "type", ty, d.Name, cp.InstrPos(in), "guarded:", ana.Guarded(in, ta), "restore:", restoreCall(cp, site))
			}
			if !ana.Guarded(in, ta) || restoreCall(cp, site) {
				return
			}
			// which decoding successes the advance depends on (a payload that does not decode is not an event)
			tag := d.Name
			for _, dec := range []struct{ name, label string }{{"Atoi", "payload-number"}, {"ValidateAndComplete", "command-valid"}, {"Unmarshal", "payload-json"}} {
				dn := dec.name
				if ana.Guarded(in, ana.AtomErrNil(func(call *ssa.Call, dd ana.CalleeDesc) bool { return dd.Name == dn })) {
					tag += "[" + dec.label + "]"
				}
			}
			if !seen[tag] {
				seen[tag] = true
				ctrs = append(ctrs, tag)
			}
		})
		// address predicates evaluated under the type test (as a branch condition or as the operand of a
		// materialised && in a switch case)
		ana.Instrs(f, func(in ssa.Instruction) {
			bo, ok := in.(*ssa.BinOp)
			if !ok || (bo.Op != token.EQL && bo.Op != token.NEQ) {
				return
			}
			ex := norm(cp.Expr(bo.X, 0) + "|" + cp.Expr(bo.Y, 0))
			if !strings.Contains(ex, "MULTISIG") {
				return
			}
			guarded := ana.Guarded(bo, ta)
			if !guarded {
				for _, ref := range *bo.Referrers() {
					if iff, ok := ref.(*ssa.If); ok && blockGuardedBy(iff, ta) {
						guarded = true
					}
				}
			}
			if !guarded {
				return
			}
			e := norm(cp.Expr(bo.X, 0)) + "==" + norm(cp.Expr(bo.Y, 0))
			if !seen["c:"+e] {
				seen["c:"+e] = true
				conds = append(conds, e)
			}
		})
		sortStrings(conds)
		sortStrings(ctrs)
		parts = append(parts, "type "+ty+": if "+strings.Join(conds, " & ")+" -> "+strings.Join(ctrs, ","))
	}
	return strings.Join(parts, "; ")
}

// blockGuardedBy: the If sits in the block that starts with the type test itself (short-circuit &&).
func blockGuardedBy(iff *ssa.If, atom ana.Atom) bool {
	for _, pred := range iff.Block().Preds {
		if pi, ok := pred.Instrs[len(pred.Instrs)-1].(*ssa.If); ok {
			if _, m := atom(ana.NormCond(pi.Cond)); m {
				return true
			}
		}
	}
	return false
}

func sortStrings(s []string) {
	for i := 1; i < len(s); i++ {
		for j := i; j > 0 && s[j] < s[j-1]; j-- {
			s[j], s[j-1] = s[j-1], s[j]
		}
	}
}

// checkCursor: the cursor rule of C20.
func (c *Ctx) checkCursor(cp *ana.Prog, f *ssa.Function) {
	r := c.R
	// the loop over the blocks of a response: IndexAddr over BlocksResponse.Blocks
	var blockIA *ssa.IndexAddr
	ana.Instrs(f, func(in ssa.Instruction) {
		if ia, ok := in.(*ssa.IndexAddr); ok {
			if _, path := rootAndPath(ia.X); path == "Blocks" && fullRange(ia) {
				blockIA = ia
			}
		}
	})
	if blockIA == nil {
		r.Undecided("C20.cursor", fname(f), cp.Pos(f.Pos()), "loop over the blocks of a response not found")
		return
	}
	bodyEntry := blockIA.Block()
	isBack := func(from, to *ssa.BasicBlock) bool { return to.Dominates(from) }
	reachDAG := func(from, to *ssa.BasicBlock) bool {
		seen := map[*ssa.BasicBlock]bool{}
		stack := []*ssa.BasicBlock{from}
		for len(stack) > 0 {
			b := stack[len(stack)-1]
			stack = stack[:len(stack)-1]
			if seen[b] {
				continue
			}
			seen[b] = true
			if b == to {
				return true
			}
			for _, s := range b.Succs {
				if !isBack(b, s) {
					stack = append(stack, s)
				}
			}
		}
		return false
	}
	type callAt struct {
		site ssa.CallInstruction
		in   ssa.Instruction
		name string
	}
	var commits, cursors, advances, restores []callAt
	ana.Calls(f, func(site ssa.CallInstruction, d ana.CalleeDesc) {
		in := site.(ssa.Instruction)
		if !bodyEntry.Dominates(in.Block()) {
			return
		}
		switch {
		case d.Name == "Commit" && d.Recv == "Context":
			commits = append(commits, callAt{site, in, d.Name})
		case d.Name == "SetLastCheckedMinterBlock":
			cursors = append(cursors, callAt{site, in, d.Name})
		case strings.HasPrefix(d.Name, "SetLast") && strings.HasSuffix(d.Name, "Nonce"):
			if restoreCall(cp, site) && snapshotArg(cp, site, bodyEntry) {
				restores = append(restores, callAt{site, in, d.Name})
			} else {
				advances = append(advances, callAt{site, in, d.Name})
			}
		}
	})
	if len(commits) == 0 {
		r.Undecided("C20.cursor", fname(f), cp.Pos(f.Pos()), "no status commit inside the block loop")
		return
	}
	okAll := true
	for _, cm := range commits {
		// nearest cursor write reaching the commit
		var cur *callAt
		for i := range cursors {
			cu := &cursors[i]
			before := (cu.in.Block() == cm.in.Block() && ana.InstrIndex(cu.in) < ana.InstrIndex(cm.in)) || (cu.in.Block() != cm.in.Block() && reachDAG(cu.in.Block(), cm.in.Block()))
			if !before {
				continue
			}
			if cur == nil || reachDAG(cur.in.Block(), cu.in.Block()) || (cur.in.Block() == cu.in.Block() && ana.InstrIndex(cur.in) < ana.InstrIndex(cu.in)) {
				cur = cu
			}
		}
		if cur == nil {
			r.Bad("C20.cursor", "commit:"+cp.InstrPos(cm.in), cp.InstrPos(cm.in), "the status is committed inside the block loop without the cursor having been set in that iteration")
			okAll = false
			continue
		}
		ex := cp.Expr(cur.site.Common().Args[len(cur.site.Common().Args)-1], 0)
		switch ex {
		case "field:BlockResponse.Height":
			// whole block processed: no event of this block may still be counted after the commit (a commit with
			// cursor = height ahead of the block's events persists a cursor whose nonce lags the block)
			for _, ad := range advances {
				after := (ad.in.Block() == cm.in.Block() && ana.InstrIndex(ad.in) > ana.InstrIndex(cm.in)) || (ad.in.Block() != cm.in.Block() && reachDAG(cm.in.Block(), ad.in.Block()))
				if after {
					okAll = false
					r.Bad("C20.cursor", "commit-before-count:"+fname(f)+":"+ad.name, cp.InstrPos(cm.in), "the status is committed with cursor = block height before "+ad.name+" is advanced for the events of that block (at "+cp.InstrPos(ad.in)+"): a crash in between persists a cursor whose nonce is below start + events at or below the last-checked block")
				}
			}
		case "(field:BlockResponse.Height-1)":
			// early exit before the end of the block: every counter advanced earlier in this iteration must have been restored
			for _, ad := range advances {
				reaches := (ad.in.Block() == cm.in.Block() && ana.InstrIndex(ad.in) < ana.InstrIndex(cm.in)) || (ad.in.Block() != cm.in.Block() && reachDAG(ad.in.Block(), cm.in.Block()))
				if !reaches {
					continue
				}
				restored := false
				for _, rs := range restores {
					if rs.name != ad.name {
						continue
					}
					if rs.in.Block() == cm.in.Block() && ana.InstrIndex(rs.in) < ana.InstrIndex(cm.in) {
						restored = true
					}
				}
				if !restored {
					okAll = false
					r.Bad("C20.cursor", "early-commit:"+fname(f)+":"+ad.name, cp.InstrPos(cm.in), "the scan commits cursor = height-1 (the block will be scanned again) after "+ad.name+" was already advanced for an earlier event of the same block at "+cp.InstrPos(ad.in)+" and not restored: after a restart following a partially acknowledged block those events are numbered twice and every later nonce is shifted")
				}
			}
		default:
			okAll = false
			r.Bad("C20.cursor", "cursor-value:"+cp.InstrPos(cur.in), cp.InstrPos(cur.in), "the persisted cursor is neither the block height nor height-1: "+ex)
		}
	}
	if okAll {
		r.Ok("C20.cursor", fname(f), cp.Pos(f.Pos()), sprintf("%d commit(s) in the block loop: cursor = height, or height-1 with every advanced counter restored", len(commits)))
	}
	// windows from a start snapshot (resync only: the function that takes the acknowledged nonce)
	if len(f.Params) == 2 {
		okSnap := true
		ana.Instrs(f, func(in ssa.Instruction) {
			call, ok := in.(*ssa.Call)
			if !ok {
				return
			}
			d, _ := ana.Describe(&call.Call)
			if d.Name != "Blocks" || d.Recv == "" {
				return
			}
			for _, a := range call.Call.Args[1:] {
				ex := cp.Expr(a, 0)
				if strings.Contains(ex, "LastCheckedMinterBlock(") {
					// the live cursor is read inside the window loop
					if bl := call.Block(); bl != f.Blocks[0] {
						for _, x := range callsIn(cp, a) {
							if x.Block() != f.Blocks[0] {
								okSnap = false
							}
						}
					}
				}
			}
		})
		r.Check(okSnap, "C20.cursor", "windows:"+fname(f), cp.Pos(f.Pos()), "block windows are derived from a start snapshot taken before the loop", "the resynchronisation scan derives its block windows from the moving cursor: whole windows of blocks are skipped without being scanned")
	} else {
		// the relay loop: its windows are computed from the moving cursor, which is only sound while a pass
		// never spans more than one window (cap on the distance to the head <= window size)
		moving := false
		var window, capv int64 = -1, -1
		ana.Instrs(f, func(in ssa.Instruction) {
			switch x := in.(type) {
			case *ssa.Call:
				d, _ := ana.Describe(&x.Call)
				if d.Name != "Blocks" || d.Recv == "" {
					return
				}
				for _, a := range x.Call.Args[1:] {
					if !strings.Contains(cp.Expr(a, 0), "LastCheckedMinterBlock(") || x.Block() == f.Blocks[0] {
						continue
					}
					for _, y := range callsIn(cp, a) {
						if y.Block() != f.Blocks[0] {
							moving = true
						}
					}
					// the window size: the constant the window index is multiplied with
					seen := map[ssa.Value]bool{}
					var walk func(v ssa.Value, d int)
					walk = func(v ssa.Value, d int) {
						if v == nil || seen[v] || d > 10 {
							return
						}
						seen[v] = true
						switch z := v.(type) {
						case *ssa.BinOp:
							if z.Op == token.MUL {
								for _, o := range []ssa.Value{z.X, z.Y} {
									if k, ok := o.(*ssa.Const); ok && k.Value != nil {
										if n, ok := constant.Int64Val(constant.ToInt(k.Value)); ok && n > window {
											window = n
										}
									}
								}
							}
							walk(z.X, d+1)
							walk(z.Y, d+1)
						case *ssa.Phi:
							for _, e := range z.Edges {
								walk(e, d+1)
							}
						case *ssa.Convert:
							walk(z.X, d+1)
						}
					}
					walk(a, 0)
				}
			case *ssa.If:
				bo, ok := x.Cond.(*ssa.BinOp)
				if !ok || (bo.Op != token.GTR && bo.Op != token.GEQ) {
					return
				}
				k, ok := bo.Y.(*ssa.Const)
				if !ok || k.Value == nil || !strings.Contains(cp.Expr(bo.X, 0), "LastCheckedMinterBlock(") || !strings.Contains(cp.Expr(bo.X, 0), "-") {
					return
				}
				if n, ok := constant.Int64Val(constant.ToInt(k.Value)); ok {
					capv = n
				}
			}
		})
		switch {
		case !moving:
			r.Ok("C20.cursor", "windows:"+fname(f), cp.Pos(f.Pos()), "block windows do not depend on the moving cursor")
		case window > 0 && capv > 0 && capv <= window:
			r.Ok("C20.cursor", "windows:"+fname(f), cp.Pos(f.Pos()), sprintf("a pass advances at most %d blocks and a window holds %d: one window per pass, so windows computed from the moving cursor skip nothing", capv, window))
		default:
			r.Bad("C20.cursor", "windows:"+fname(f), cp.Pos(f.Pos()), sprintf("the relay loop computes its block windows from the moving cursor while a pass may span more than one window (cap %d, window %d): the second window starts beyond blocks that were never scanned, their events are never counted and every later nonce is too low", capv, window))
		}
	}
}

// snapshotArg: the value restored was read before any counter advance of the iteration (in the block-loop entry block).
func snapshotArg(cp *ana.Prog, site ssa.CallInstruction, bodyEntry *ssa.BasicBlock) bool {
	args := site.Common().Args
	v := args[len(args)-1]
	if call, ok := v.(*ssa.Call); ok {
		return call.Block() == bodyEntry
	}
	if _, ok := v.(*ssa.Phi); ok {
		return true
	}
	return false
}

// callsIn lists the call instructions in the expression tree of v.
func callsIn(cp *ana.Prog, v ssa.Value) []*ssa.Call {
	var out []*ssa.Call
	seen := map[ssa.Value]bool{}
	var walk func(x ssa.Value, d int)
	walk = func(x ssa.Value, d int) {
		if x == nil || seen[x] || d > 12 {
			return
		}
		seen[x] = true
		switch y := x.(type) {
		case *ssa.Call:
			out = append(out, y)
			for _, a := range y.Call.Args {
				walk(a, d+1)
			}
		case *ssa.BinOp:
			walk(y.X, d+1)
			walk(y.Y, d+1)
		case *ssa.Phi:
			for _, e := range y.Edges {
				walk(e, d+1)
			}
		case *ssa.Convert:
			walk(y.X, d+1)
		}
	}
	walk(v, 0)
	return out
}
