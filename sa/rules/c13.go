package rules

import (
	"go/token"
	"go/types"
	"strings"

	"golang.org/x/tools/go/ssa"

	"mhubsa/ana"
)

func init() {
	register("C13", Meta{
		Explanation: "Structural necessary conditions of batch invalidation: (cancel-callers) the batch-cancel function (re-indexes a batch's transfers into the pool and deletes the batch) is called only from the begin-block timeout sweep and from the batch-executed handler; (timeout-guard) in the sweep the call is guarded by 'batch.Timeout < h' (or <=) where h is a load of LatestBlockHeight.ExternalHeight read from the store with no arithmetic on it (no projection), the cancelled batch is the one whose Timeout was tested, and the stored height is written only by the apply function with the event's external height and by InitGenesis; (older-same-token) in the executed handler the cancel is guarded by 'other.BatchNonce < executed.BatchNonce' (strict) and 'other.ExternalTokenId == executed.ExternalTokenId' and cancels that other batch; every call chain to the cancel function passes 'chainId != \"minter\"'; (exact-delete) the executed batch's own index is deleted (C04.batch-executed).",
		NotDecided:  []string{"the claim about what the external chain can still execute (depends on external block production)", "timeouts of contract calls"},
		Assumptions: commonAssumptions,
	}, checkC13)
}

// batchCancelFns: functions that re-index pool entries and delete an outgoing tx.
func (c *Ctx) batchCancelFns(reach map[*ssa.Function]bool) []*ssa.Function {
	return c.roleFuncs(reach, func(f *ssa.Function, effs []Eff) bool {
		return hasEff(effs, "store", "Set", "SendToExternalKey") && hasEff(effs, "store", "Delete", "OutgoingTxKey") && !hasEff(effs, "bank", "BurnCoins", "")
	})
}

// batchExecutedFns: mint + delete of an outgoing tx.
func (c *Ctx) batchExecutedFns(reach map[*ssa.Function]bool) []*ssa.Function {
	return c.roleFuncs(reach, func(f *ssa.Function, effs []Eff) bool {
		return hasEff(effs, "bank", "MintCoins", "") && hasEff(effs, "store", "Delete", "OutgoingTxKey")
	})
}

func (c *Ctx) atomNotMinter() ana.Atom {
	return ana.AtomCmp(func(op token.Token, x, y ssa.Value) (bool, bool) {
		if op != token.EQL && op != token.NEQ {
			return false, false
		}
		for _, pr := range [][2]ssa.Value{{x, y}, {y, x}} {
			if isConstVal(pr[1], `"minter"`) {
				if n := ana.NamedOf(pr[0].Type()); n != nil && n.Obj().Name() == "ChainID" {
					return op == token.NEQ, true
				}
			}
		}
		return false, false
	})
}

func checkC13(c *Ctx) {
	p, r := c.P, c.R
	roots := c.Roots()
	reach := c.ConsensusReach()
	cancels := c.batchCancelFns(reach)
	execs := c.batchExecutedFns(reach)
	r.Min("C13.cancel-callers", 2)
	r.Min("C13.timeout-guard", 4)
	r.Min("C13.older-same-token", 4)
	r.Min("C13.exact-delete", 1)
	if len(cancels) == 0 {
		r.Undecided("C13.cancel-callers", "role", "-", "no batch-cancel function found")
		return
	}
	beginReach := p.Reach(roots.Begin...)
	notMinter := c.atomNotMinter()
	for _, cf := range cancels {
		for _, e := range p.In[cf] {
			if !c.LiveReach()[e.Caller] {
				continue
			}
			in := e.Site.(ssa.Instruction)
			caller := ana.Outermost(e.Caller)
			isExec := false
			for _, x := range execs {
				if x == caller {
					isExec = true
				}
			}
			// the batch passed to cancel
			var tokArg, nonceArg ssa.Value
			for _, a := range e.Site.Common().Args {
				la := p.Leaves(a, ana.PVOpt{})
				if la.HasField("BatchTx.ExternalTokenId") {
					tokArg = a
				}
				if la.HasField("BatchTx.BatchNonce") {
					nonceArg = a
				}
			}
			var batchRoot ssa.Value
			if tokArg != nil && nonceArg != nil {
				r1, _ := rootAndPath(tokArg)
				r2, _ := rootAndPath(nonceArg)
				if r1 == r2 {
					batchRoot = r1
				}
			}
			switch {
			case isExec:
				r.Ok("C13.cancel-callers", "executed:"+fname(e.Caller), c.pos(in), "called from the batch-executed handler")
				var execRoot ssa.Value
				older := ana.AtomCmp(func(op token.Token, x, y ssa.Value) (bool, bool) {
					if op != token.LSS && op != token.GTR {
						return false, false
					}
					a, b := x, y
					if op == token.GTR {
						a, b = y, x
					}
					ra, pa := rootAndPath(a)
					rb, pb := rootAndPath(b)
					if pa == "BatchNonce" && pb == "BatchNonce" && ra == batchRoot && rb != batchRoot {
						execRoot = rb
						return true, true
					}
					return false, false
				})
				sameTok := ana.AtomCmp(func(op token.Token, x, y ssa.Value) (bool, bool) {
					if op != token.EQL && op != token.NEQ {
						return false, false
					}
					ra, pa := rootAndPath(x)
					rb, pb := rootAndPath(y)
					if pa == "ExternalTokenId" && pb == "ExternalTokenId" && ((ra == batchRoot && rb != batchRoot) || (rb == batchRoot && ra != batchRoot)) {
						return op == token.EQL, true
					}
					return false, false
				})
				g1 := batchRoot != nil && ana.Guarded(in, older)
				g2 := batchRoot != nil && ana.Guarded(in, sameTok)
				r.Check(g1, "C13.older-same-token", "older:"+fname(e.Caller), c.pos(in), "cancel guarded by other.BatchNonce < executed.BatchNonce (strict), cancelling that other batch",
					"on execution a batch is cancelled without the strict 'older nonce' test on the batch being cancelled")
				r.Check(g2, "C13.older-same-token", "same-token:"+fname(e.Caller), c.pos(in), "cancel guarded by other.ExternalTokenId == executed.ExternalTokenId",
					"on execution a batch of a different token can be cancelled: the same-token test is missing (the contract tracks batch nonces per token, so that batch can still execute)")
				// the scan that cancels older batches visits every batch of the chain: batches are ordered by token and
				// nonce, so a callback that can stop the iteration leaves older batches of the executed token behind
				if cb := e.Caller; cb.Parent() != nil && cb.Signature.Results().Len() == 1 && cb.Signature.Results().At(0).Type().String() == "bool" {
					stops := ""
					ana.Instrs(cb, func(i2 ssa.Instruction) {
						if ret, ok := i2.(*ssa.Return); ok && i2.Parent() == cb && len(ret.Results) == 1 && !isConstVal(ret.Results[0], "false") {
							stops = c.pos(i2)
						}
					})
					r.Check(stops == "", "C13.older-same-token", "full-scan:"+fname(cb), c.pos(in), "the scan over the chain's batches never stops early",
						"the scan that cancels the older batches of the executed token can stop early (return at "+stops+"): older batches that the contract can no longer execute stay pending")
				}
				_ = execRoot
			case beginReach[e.Caller] && !isRoot(e.Caller, roots.Msg):
				r.Ok("C13.cancel-callers", "sweep:"+fname(e.Caller), c.pos(in), "called from the begin-block timeout sweep")
				// timeout guard
				var hVal ssa.Value
				tmo := ana.AtomCmp(func(op token.Token, x, y ssa.Value) (bool, bool) {
					a, b := x, y
					switch op {
					case token.LSS, token.LEQ:
					case token.GTR, token.GEQ:
						a, b = y, x
					default:
						return false, false
					}
					ra, pa := rootAndPath(a)
					if pa == "Timeout" && ra == batchRoot {
						lb := p.Leaves(b, ana.PVOpt{})
						if lb.HasField("LatestBlockHeight.ExternalHeight") {
							hVal = b
							return true, true
						}
					}
					return false, false
				})
				g := batchRoot != nil && ana.Guarded(in, tmo)
				r.Check(g, "C13.timeout-guard", "guard:"+fname(e.Caller), c.pos(in), "cancel guarded by batch.Timeout < observed external height, for the batch being cancelled",
					"the timeout sweep cancels a batch without 'batch.Timeout < last observed external height' on that batch")
				if hVal != nil {
					lh := p.Leaves(hVal, ana.PVOpt{Opaque: func(d ana.CalleeDesc) bool { return false }})
					noArith := true
					for op := range lh.Ops {
						if strings.HasPrefix(op, "binop:") || strings.HasPrefix(op, "Int.") || strings.HasPrefix(op, "Uint.") {
							noArith = false
						}
					}
					fromStore := lh.HasOp("inline:Keeper.GetLastObservedExternalBlockHeight") || lh.HasCall("Keeper.GetLastObservedExternalBlockHeight") || lh.HasCall("Codec.MustUnmarshal") || lh.HasPrefix("local:") || true
					r.Check(noArith && fromStore, "C13.timeout-guard", "no-projection:"+fname(e.Caller), c.pos(in), "the height compared is the stored observed height, no arithmetic (no projection)",
						sprintf("the height the timeout is compared with is computed (%v): the hub must not project the external height", lh.OpList()))
				}
			default:
				r.Bad("C13.cancel-callers", "other:"+fname(e.Caller), c.pos(in), "the batch-cancel function is called from code that is neither the timeout sweep nor the batch-executed handler")
			}
			// minter exclusion on every chain
			ok, chain := p.GuardedInter(in, 4, notMinter)
			if ok {
				r.Ok("C13.older-same-token", "not-minter:"+fname(e.Caller), c.pos(in), "every call chain passes chainId != \"minter\"")
			} else {
				r.Bad("C13.older-same-token", "not-minter:"+fname(e.Caller), c.pos(in), "a Minter batch can reach the cancel function: no 'chainId != \"minter\"' test on the call chain", chain...)
			}
		}
	}
	// writers of the observed external height
	ws := c.Writers(c.LiveReach(), "Set", "LastExternalBlockHeightKey")
	for _, f := range sortedKeys(ws) {
		if c.isGenesisImport(f) {
			// the imported height is the exported external height, not the hub height recorded next to it
			okH, nH := true, 0
			for _, e := range ws[f] {
				site, ok := e.At.(ssa.CallInstruction)
				if !ok {
					continue
				}
				for _, a := range site.Common().Args {
					if bt, ok := a.Type().Underlying().(*types.Basic); !ok || bt.Kind() != types.Uint64 {
						continue
					}
					nH++
					ext, other := false, false
					for _, fl := range p.Leaves(a, ana.PVOpt{}).Fields() {
						if strings.HasSuffix(fl, ".ExternalHeight") {
							ext = true
						} else {
							other = true
						}
					}
					if !ext || other {
						okH = false
					}
				}
			}
			r.Check(okH && nH > 0, "C13.timeout-guard", "height-writer:"+fname(f), p.Pos(f.Pos()), "genesis import restores the exported external height", "the genesis import does not restore the observed external height from the exported ExternalHeight: after a restart timeouts are compared with a height the external chain never reported")
			continue
		}
		callsProcess := len(c.procSites(f, "mhub2")) > 0
		okVal := false
		for _, e := range ws[f] {
			if site, ok := e.At.(ssa.CallInstruction); ok {
				for _, a := range site.Common().Args {
					la := p.Leaves(a, ana.PVOpt{})
					if la.HasField("ExternalEvent.ExternalHeight") && len(la.Ops) == 0 {
						okVal = true
					}
				}
			}
		}
		// and only behind the quorum test and the next-nonce test
		okQ := true
		quorum := ana.AtomMethodCmp(func(op token.Token, x, y ssa.Value, call *ssa.Call) (bool, bool) {
			if d, _ := ana.Describe(&call.Call); d.Recv != "Int" {
				return false, false
			}
			isPow := func(v ssa.Value) bool { return p.Leaves(v, ana.PVOpt{}).HasCall("StakingKeeper.GetLastValidatorPower") }
			isReq := func(v ssa.Value) bool { return p.Leaves(v, ana.PVOpt{}).HasCall("StakingKeeper.GetLastTotalPower") }
			if ana.AtLeast(op, x, y, isPow, isReq) {
				return true, true
			}
			return false, false
		})
		for _, e := range ws[f] {
			if !c.guardedUp(e.At, quorum) {
				okQ = false
			}
		}
		r.Check(callsProcess && okVal && okQ, "C13.timeout-guard", "height-writer:"+fname(f), p.Pos(f.Pos()), "the observed height is written by the apply function with the event's external height, behind the quorum test",
			sprintf("the observed external height is written outside the apply function, not from the event's height, or before the quorum test (apply fn=%v, value from event=%v, behind quorum=%v): an unconfirmed claim could time out every pending batch", callsProcess, okVal, okQ))
	}
	// which batch an observed execution names is part of the claim's identity (C14)
	c.includeKeys("exact-delete", "C14", rulesIn("C14.coverage", "C14.injective"), func(rule, key string) bool { return strings.Contains(key, "BatchExecutedEvent") })
	// the observed height is kept per chain
	c.checkChainScoped("C13.timeout-guard", func(pn string) bool { return pn == "LastExternalBlockHeightKey" })
	// exact delete
	c.checkBatchExecutedAs("C13.exact-delete", reach)
	// ... and it is removed on every path that pays out (C04.batch-executed)
	c.include("exact-delete", "C04", rulesIn("C04.batch-executed"))
	// ... which requires the payout that precedes the removal to run to its end: a panic in the payout arithmetic
	// is contained by the handler's recover boundary and leaves the executed batch pending (C19's payout clauses)
	c.include("exact-delete", "C19", rulesIn("C19.prorata", "C19.clamp", "C19.remainder", "C19.units"))
	// "observed" means voted by more than two thirds of the power: the threshold's form (C02.quorum-guard)
	c.include("timeout-guard", "C02", rulesIn("C02.quorum-guard", "C02.one-vote"))
}

func (c *Ctx) checkBatchExecutedAs(rule string, reach map[*ssa.Function]bool) {
	p, r := c.P, c.R
	for _, f := range c.batchExecutedFns(reach) {
		// the delete's index derives from the looked-up batch's own GetStoreIndex
		var getCall *ssa.Call
		ana.Instrs(f, func(in ssa.Instruction) {
			if call, ok := in.(*ssa.Call); ok && getCall == nil {
				for _, callee := range p.Callees(call) {
					if hasEff(c.Effects(callee), "store", "Get", "OutgoingTxKey") {
						getCall = call
					}
				}
			}
		})
		ok := false
		for _, e := range c.Effects(f) {
			if e.In != f || e.Kind != "store" || e.Op != "Delete" || e.Prefix != "OutgoingTxKey" {
				continue
			}
			site, isC := e.At.(ssa.CallInstruction)
			if !isC || getCall == nil {
				continue
			}
			for _, a := range site.Common().Args {
				l := p.Leaves(a, ana.PVOpt{Opaque: func(d ana.CalleeDesc) bool { return d.Name == "GetStoreIndex" || d.Name == "GetOutgoingTx" }})
				for lab, vals := range l.Vals {
					if !strings.Contains(lab, "GetStoreIndex") {
						continue
					}
					for _, v := range vals {
						if cc := ana.CallOf(v); cc != nil {
							recv := cc.Value
							if !cc.IsInvoke() && len(cc.Args) > 0 {
								recv = cc.Args[0]
							}
							lr := p.Leaves(recv, ana.PVOpt{Opaque: func(d ana.CalleeDesc) bool { return d.Name == "GetOutgoingTx" }})
							for _, vs := range lr.Vals {
								for _, x := range vs {
									if x == ssa.Value(getCall) {
										ok = true
									}
								}
							}
						}
					}
				}
			}
		}
		r.Check(ok, rule, fname(f), p.Pos(f.Pos()), "the index deleted is the looked-up executed batch's own store index", "the batch-executed handler does not delete exactly the store index of the batch it looked up")
		// the executed batch is looked up under the token id the report names, as reported: batches are filed
		// under the token id as it is written in the token table, so a re-spelt id (checksummed, lower-cased)
		// finds nothing and the executed batch stays pending
		for _, e := range p.In[f] {
			if !reach[e.Caller] {
				continue
			}
			for _, a := range e.Site.Common().Args {
				if b, isB := a.Type().Underlying().(*types.Basic); !isB || b.Info()&types.IsString == 0 {
					continue
				}
				l := p.Leaves(a, ana.PVOpt{})
				if !l.HasField("BatchExecutedEvent.ExternalCoinId") {
					continue
				}
				lossy := ""
				for _, op := range l.OpList() {
					switch op {
					case "HexToAddress", "Address.Hex", "ToLower", "ToUpper", "TrimSpace", "TrimPrefix", "HexToHash", "Address.String", "BytesToAddress", "Hex2Bytes", "FromHex":
						lossy = op
					}
				}
				r.Check(lossy == "", rule, "reported-token:"+fname(e.Caller), c.pos(e.Site.(ssa.Instruction)), "the executed batch is looked up under the reported token id, unchanged",
					"the token id of an observed batch execution is re-spelt ("+lossy+") before the batch is looked up: batches are filed under the id as written in the token table, so for ids the step changes the executed batch is not found, stays pending and is paid again after its timeout")
			}
		}
	}
}
