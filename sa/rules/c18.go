package rules

import (
	"go/token"
	"go/types"
	"regexp"
	"strings"

	"golang.org/x/tools/go/ssa"

	"mhubsa/ana"
)

func init() {
	register("C18", Meta{
		Explanation: "Structural necessary conditions of the oracle quorum: (distinct) the append to Attestation.Votes is guarded by a 'not yet present' membership test whose provenance contains both that record's Votes and the appended operator, so a validator that reports twice in an epoch is counted once; (quorum) the attestation handler is invoked only under power.GTE(A*total/B) with A/B >= 66/100 (powers from GetLastValidatorPower per vote, total from GetLastTotalPower) and under currentEpoch > claim epoch; the epoch processor is called only from the end blocker under height % 5 == 0; both message handlers reach the claim recorder only for an existing validator and under currentEpoch == msg epoch; (latest) the claim recorder's write does not depend on a read of the claim store, so a later report of the epoch replaces the earlier one; (writers) the price and holder stores are written only by the handler and InitGenesis, the epoch only by the epoch processor (+1) and InitGenesis; (holders-threshold) a holder list is adopted only under tally > MaxUint16*2/3, with the tally keyed by the content hash of the reported list and increased by the reporting validator's normalised power; (median-shape) each stored price is taken from the middle of the power-weighted, sorted value list (mean of the two middle elements for an even count).",
		NotDecided:  []string{"that the stored price is the weighted median as a numeric fact", "normalisation rounding of powers to MaxUint16", "claims of validators that unbond inside an epoch"},
		Assumptions: commonAssumptions,
	}, checkC18)
}

func checkC18(c *Ctx) {
	c.checkKeyMakers("C18", 3)
	p, r := c.P, c.R
	roots := c.Roots()
	reach := c.ConsensusReach()
	live := c.LiveReach()
	r.Min("C18.distinct", 1)
	r.Min("C18.quorum", 6)
	r.Min("C18.writers", 3)
	r.Min("C18.holders-threshold", 2)
	r.Min("C18.median-shape", 1)

	// ---- distinct -------------------------------------------------------------------------
	apps := votesAppends(c, reach, "Attestation")
	if len(apps) != 1 {
		r.Bad("C18.distinct", "append-count", "-", sprintf("%d appends to Attestation.Votes, expected exactly one", len(apps)))
	}
	for _, st := range apps {
		ok := c.voteAppendDistinct(st)
		r.Check(ok, "C18.distinct", fname(st.Parent()), c.pos(st), "vote append guarded by 'operator not yet in the attestation's votes'",
			"a validator's vote is appended to the attestation without testing that it is not already there: a validator that reports twice in an epoch is counted twice in the quorum, in the median weights and in the holders tally")
	}

	// ---- quorum ------------------------------------------------------------------------------------
	c.checkQuorumGuard("C18.quorum", reach, "oracle", "Votes", 66, 100)
	// epoch condition on the apply call
	for _, f := range sortedFuncs(reach) {
		if !inPkg(f, "oracle/keeper") {
			continue
		}
		ana.Calls(f, func(site ssa.CallInstruction, d ana.CalleeDesc) {
			isP := false
			for _, callee := range p.Callees(site) {
				if c.isProcessFn(callee, "oracle") {
					isP = true
				}
			}
			if !isP {
				return
			}
			in := site.(ssa.Instruction)
			epochGT := ana.AtomCmp(func(op token.Token, x, y ssa.Value) (bool, bool) {
				a, b := x, y
				switch op {
				case token.GTR:
				case token.LSS:
					a, b = y, x
				default:
					return false, false
				}
				la := p.Leaves(a, ana.PVOpt{Opaque: func(d ana.CalleeDesc) bool { return true }})
				lb := p.Leaves(b, ana.PVOpt{})
				if la.HasCall("Keeper.GetCurrentEpoch") && (lb.HasField("Claim.Epoch") || lb.HasCall("Claim.GetEpoch")) {
					return true, true
				}
				return false, false
			})
			notObserved := func(cd ana.Cond) (bool, bool) {
				if cd.Op != token.ILLEGAL {
					return false, false
				}
				_, path := rootAndPath(cd.X)
				if path == "Observed" {
					return false, true
				}
				return false, false
			}
			r.Check(ana.Guarded(in, epochGT), "C18.quorum", "epoch-closed:"+fname(f), c.pos(in), "applied only when the current epoch is greater than the claim's epoch", "an attestation can be applied before its epoch has closed (currentEpoch > claim.Epoch is not tested)")
			r.Check(ana.Guarded(in, notObserved), "C18.quorum", "not-observed:"+fname(f), c.pos(in), "applied only while not yet observed", "an attestation that was already observed can be applied again")
		})
	}
	// the epoch processor: called only from end-block under height % 5 == 0
	var epochFns []*ssa.Function
	for f := range c.Writers(live, "Set", "CurrentEpochKey") {
		if !c.isGenesisImport(f) {
			epochFns = append(epochFns, f)
		}
	}
	for _, ef := range epochFns {
		okCallers := true
		n := 0
		for _, e := range p.In[ef] {
			if !live[e.Caller] {
				continue
			}
			n++
			if !isRoot(e.Caller, roots.End) {
				okCallers = false
			}
			every5 := ana.AtomCmp(func(op token.Token, x, y ssa.Value) (bool, bool) {
				if op != token.EQL && op != token.NEQ {
					return false, false
				}
				for _, pr := range [][2]ssa.Value{{x, y}, {y, x}} {
					if !isConstVal(pr[1], "0") {
						continue
					}
					ex := p.Expr(pr[0], 0)
					if regexp.MustCompile(`^\(Context\.BlockHeight\(\)%(\d+)\)$`).MatchString(ex) {
						return op == token.EQL, true
					}
				}
				return false, false
			})
			r.Check(ana.Guarded(e.Site.(ssa.Instruction), every5), "C18.quorum", "epoch-period:"+fname(e.Caller), c.pos(e.Site), "epoch processing runs under height % n == 0", "the epoch processor is not tied to the block-height period")
		}
		r.Check(okCallers && n == 1, "C18.quorum", "epoch-caller:"+fname(ef), p.Pos(ef.Pos()), "the epoch processor is called only from the end blocker", "the epoch processor is called from code other than the end blocker")
		// the epoch advances by exactly one
		okInc := false
		for _, e := range c.Effects(ef) {
			if e.Kind == "store" && e.Op == "Set" && e.Prefix == "CurrentEpochKey" {
				if site, ok := e.At.(ssa.CallInstruction); ok {
					for _, a := range site.Common().Args {
						if regexp.MustCompile(`^\(Keeper\.GetCurrentEpoch\(\)\+1\)$`).MatchString(p.Expr(a, 0)) {
							okInc = true
						}
					}
				}
			}
		}
		r.Check(okInc, "C18.quorum", "epoch-step:"+fname(ef), p.Pos(ef.Pos()), "the epoch advances by exactly one", "the epoch processor does not store currentEpoch + 1")
	}
	if len(epochFns) == 0 {
		r.Undecided("C18.quorum", "epoch-processor", "-", "no function advances the epoch")
	}
	// message handlers
	for _, m := range roots.Msg {
		if !inPkg(m, "oracle/keeper") {
			continue
		}
		ana.Calls(m, func(site ssa.CallInstruction, d ana.CalleeDesc) {
			isAdd := false
			for _, callee := range p.Callees(site) {
				if hasEff(c.Effects(callee), "store", "Set", "OracleAttestationKey") || hasEff(c.Effects(callee), "store", "Set", "OracleClaimKey") {
					isAdd = true
				}
				for g := range p.Reach(callee) {
					if hasEff(c.Effects(ana.Outermost(g)), "store", "Set", "OracleClaimKey") {
						isAdd = true
					}
				}
			}
			if !isAdd {
				return
			}
			in := site.(ssa.Instruction)
			sameEpoch := ana.AtomCmp(func(op token.Token, x, y ssa.Value) (bool, bool) {
				if op != token.EQL && op != token.NEQ {
					return false, false
				}
				for _, pr := range [][2]ssa.Value{{x, y}, {y, x}} {
					la := p.Leaves(pr[0], ana.PVOpt{Opaque: func(d ana.CalleeDesc) bool { return true }})
					lb := p.Leaves(pr[1], ana.PVOpt{})
					if la.HasCall("Keeper.GetCurrentEpoch") && !la.Ops["binop:+"] && !la.Ops["binop:-"] {
						for _, fl := range lb.Fields() {
							if strings.HasSuffix(fl, ".Epoch") {
								return op == token.EQL, true
							}
						}
					}
				}
				return false, false
			})
			valExists := ana.AtomNotNil(func(v ssa.Value) bool {
				call, _ := ana.UnwrapCall(v)
				if call == nil {
					return false
				}
				d, _ := ana.Describe(&call.Call)
				if !(d.Name == "Validator" && d.Iface) {
					return false
				}
				for _, a := range call.Call.Args {
					l := p.Leaves(a, ana.PVOpt{})
					for _, fl := range l.Fields() {
						if strings.HasSuffix(fl, ".Orchestrator") {
							return true
						}
					}
				}
				return false
			})
			r.Check(ana.Guarded(in, sameEpoch), "C18.quorum", "current-epoch:"+fname(m), c.pos(in), "claim recorded only under currentEpoch == msg.Epoch", "a claim for a stale or future epoch can be recorded (currentEpoch == msg.Epoch is not tested): reports of a closed epoch could overwrite prices or holders mid-epoch")
			r.Check(ana.Guarded(in, valExists), "C18.quorum", "validator-exists:"+fname(m), c.pos(in), "claim recorded only for an existing validator", "a claim can be recorded for a sender that is not a validator")
		})
	}

	// ---- complete reports -------------------------------------------------------------------------
	// a price report counts towards the quorum only if it lists every required price: the per-name "found" test
	// must start afresh for every required name (a flag carried over from the previous name accepts reports that
	// list only the first one), and the normalised powers the median and the holders tally are weighted with
	// are truncated shares (rounding up lets less than two thirds pass the MaxUint16*2/3 threshold)
	r.Min("C18.complete-report", 2)
	for _, m := range roots.Msg {
		if !inPkg(m, "oracle/keeper") || m.Name() != "PriceClaim" {
			continue
		}
		sticky := ""
		for _, b := range m.Blocks {
			for _, in := range b.Instrs {
				ph, ok := in.(*ssa.Phi)
				if !ok {
					continue
				}
				if bt, ok := ph.Type().Underlying().(*types.Basic); !ok || bt.Kind() != types.Bool {
					continue
				}
				// a loop header phi: one incoming edge comes from a block the header dominates
				carried := false
				for i, pred := range b.Preds {
					if b.Dominates(pred) && i < len(ph.Edges) {
						if k, ok := ph.Edges[i].(*ssa.Const); ok && k.Value != nil && k.Value.ExactString() == "false" {
							continue
						}
						carried = true
					}
				}
				if !carried {
					continue
				}
				// is the flag (or a merge of it) tested inside that loop?
				var uses func(v ssa.Value, depth int) bool
				uses = func(v ssa.Value, depth int) bool {
					if depth > 3 {
						return false
					}
					for _, ref := range *v.Referrers() {
						switch x := ref.(type) {
						case *ssa.If:
							if b.Dominates(x.Block()) && reachFromTo(x.Block(), b) {
								return true
							}
						case *ssa.Phi:
							if x != ph && uses(x, depth+1) {
								return true
							}
						case *ssa.UnOp:
							if uses(x, depth+1) {
								return true
							}
						}
					}
					return false
				}
				if uses(ph, 0) {
					sticky = c.pos(ph)
					if sticky == "-" {
						sticky = p.Pos(m.Pos())
					}
				}
			}
		}
		r.Check(sticky == "", "C18.complete-report", "per-name:"+fname(m), p.Pos(m.Pos()), "no found-flag is carried from one required price to the next",
			"the required-price test of the price report carries its found-flag from one required name to the next ("+sticky+"): a report that lists only the first required price is accepted and counts towards the quorum")
	}
	if nf := p.Func("oracle/keeper.Keeper.GetNormalizedValPowers"); nf != nil {
		okTrunc, nUpd := true, 0
		detail := ""
		ana.Instrs(nf, func(in ssa.Instruction) {
			mu, ok := in.(*ssa.MapUpdate)
			if !ok {
				return
			}
			ex := p.Expr(mu.Value, 0)
			if !strings.Contains(ex, "QuoUint64") {
				return // the raw power of the first pass
			}
			nUpd++
			// Uint64(QuoUint64(MulUint64(NewUint(power), 65535), total)), nothing in between
			chain := []string{"Uint64", "QuoUint64", "MulUint64", "NewUint"}
			v := mu.Value
			okChain := true
			for i, want := range chain {
				call, _ := ana.UnwrapCall(v)
				if call == nil {
					okChain = false
					break
				}
				d, _ := ana.Describe(&call.Call)
				if d.Name != want || len(call.Call.Args) == 0 {
					okChain = false
					break
				}
				if want == "MulUint64" && (len(call.Call.Args) != 2 || !isConstVal(call.Call.Args[1], "65535")) {
					okChain = false
					break
				}
				if i < len(chain)-1 {
					v = call.Call.Args[0]
				}
			}
			if !okChain {
				okTrunc = false
				detail = ex
			}
		})
		r.Check(okTrunc && nUpd > 0, "C18.complete-report", "normalised-powers", p.Pos(nf.Pos()), "normalised power = power*MaxUint16/total, truncated",
			"the normalised validator powers are not the truncated shares power*MaxUint16/total ("+detail+"): with shares rounded up, reporters holding two thirds or less can pass the 'more than two thirds' threshold and the median weights shift")
	} else {
		r.Undecided("C18.complete-report", "normalised-powers", "-", "GetNormalizedValPowers not found")
	}

	// ---- latest report --------------------------------------------------------------------------
	// a validator's report of an epoch is stored under a key that does not contain the reported values, and the
	// handler reads that slot at the boundary: the latest report counts only if the recorder overwrites, i.e. the
	// write does not depend on whether a claim is already stored
	r.Min("C18.latest", 1)
	c.checkOverwrites("C18.latest", "OracleClaimKey", live, "the claim recorder stores every accepted report (an earlier report of the epoch is overwritten)",
		"the claim recorder stores a report only depending on whether one is already stored (test at %s): a validator's first report of the epoch sticks and its corrected report is dropped")

	// ---- writers ------------------------------------------------------------------------------
	var handler *ssa.Function
	for _, f := range p.Funcs {
		if f.Name() == "Handle" && f.Signature.Recv() != nil && inPkg(f, "oracle/keeper") {
			handler = f
		}
	}
	for _, pre := range []string{"CurrentPricesKey", "CurrentHoldersKey"} {
		for f := range c.Writers(live, "Set", pre) {
			ok := f == handler || c.isGenesisImport(f)
			r.Check(ok, "C18.writers", pre+":"+fname(f), p.Pos(f.Pos()), "written by the attestation handler / InitGenesis", pre+" is written by code that is neither the attestation handler nor InitGenesis")
		}
	}
	for f := range c.Writers(live, "Set", "CurrentEpochKey") {
		ok := c.isGenesisImport(f)
		for _, ef := range epochFns {
			if f == ef {
				ok = true
			}
		}
		r.Check(ok, "C18.writers", "CurrentEpochKey:"+fname(f), p.Pos(f.Pos()), "written by the epoch processor / InitGenesis", "the epoch is written by unexpected code")
	}
	// the handler is reached only through the process function
	if handler != nil {
		okH := true
		for _, e := range p.In[handler] {
			if c.isProcessFn(e.Caller, "oracle") {
				continue
			}
			// a forwarding wrapper (recover boundary) whose only callers are process functions
			fw := len(p.In[e.Caller]) > 0
			for _, e2 := range p.In[e.Caller] {
				if !c.isProcessFn(e2.Caller, "oracle") {
					fw = false
				}
			}
			if !fw {
				okH = false
			}
		}
		r.Check(okH && len(p.In[handler]) > 0, "C18.writers", "handler-callers", p.Pos(handler.Pos()), "the attestation handler is invoked only by the process function", "the attestation handler is invoked outside the cached process function")
	}

	// ---- holders-threshold / median-shape ---------------------------------------------------------
	if handler == nil {
		r.Undecided("C18.holders-threshold", "handler", "-", "attestation handler not found")
		return
	}
	c.checkHolders(handler)
	c.checkMedian(handler)
}

func (c *Ctx) checkHolders(h *ssa.Function) {
	p, r := c.P, c.R
	// the store of holders is guarded by tally > MaxUint16*2/3
	for _, e := range c.Effects(h) {
		if e.Kind != "store" || e.Op != "Set" || e.Prefix != "CurrentHoldersKey" || e.In != h {
			continue
		}
		var tally ssa.Value
		thr := ana.AtomCmp(func(op token.Token, x, y ssa.Value) (bool, bool) {
			a, b := x, y
			switch op {
			case token.GTR:
			case token.LSS:
				a, b = y, x
			default:
				return false, false
			}
			k, ok := b.(*ssa.Const)
			if !ok || k.Value == nil || k.Value.ExactString() != "43690" {
				return false, false
			}
			tally = a
			return true, true
		})
		ok := ana.Guarded(e.At, thr)
		r.Check(ok, "C18.holders-threshold", "threshold", c.pos(e.At), "holders adopted only under tally > MaxUint16*2/3 (= 43690)", "a holder list can be adopted without more than two-thirds of the normalised stake behind it")
		if tally == nil {
			continue
		}
		// the fingerprint the lists are tallied under is injective on the list: what is hashed is a structured
		// encoding (the JSON of the sorted "address:value" strings), not the bare concatenation of variable-length
		// fields (lists that are shifted across a field boundary would be tallied together)
		if sh := p.Func("oracle/types.MsgHoldersClaim.StabilizedClaimHash"); sh != nil {
			structured := false
			ana.Calls(sh, func(site ssa.CallInstruction, d ana.CalleeDesc) {
				if (d.Pkg == "encoding/json" && strings.HasPrefix(d.Name, "Marshal")) || d.Name == "MustMarshalJSON" || d.Name == "MustSortJSON" {
					structured = true
				}
			})
			r.Check(structured, "C18.holders-threshold", "fingerprint", p.Pos(sh.Pos()), "the holder-list fingerprint hashes a structured encoding of the sorted entries",
				"the holder-list fingerprint hashes the entries without a structured encoding (no delimiters between addresses and values): different lists can share a fingerprint, their stake is added up and the list voted last is adopted")
		}
		// the tally map: key = hex of StabilizedClaimHash, value += powers[valaddr]
		okKey, okVal := false, false
		detail := ""
		ana.Instrs(h, func(in ssa.Instruction) {
			mu, isMU := in.(*ssa.MapUpdate)
			if !isMU || mu.Value.Type().String() != "uint64" {
				return
			}
			lk := p.Leaves(mu.Key, ana.PVOpt{Opaque: func(d ana.CalleeDesc) bool { return strings.Contains(d.Name, "ClaimHash") }})
			if lk.HasCall("MsgHoldersClaim.StabilizedClaimHash") {
				okKey = true
			} else {
				detail = "tally key derives from " + strings.Join(lk.List(), ",")
			}
			ex := p.Expr(mu.Value, 0)
			if regexp.MustCompile(`^\(.*\[.*\]\+.*\[.*\]\)$`).MatchString(ex) {
				lv := p.Leaves(mu.Value, ana.PVOpt{Opaque: func(d ana.CalleeDesc) bool { return d.Name == "GetNormalizedValPowers" }})
				if lv.HasCall("Keeper.GetNormalizedValPowers") && lv.Ops["binop:+"] {
					okVal = true
				}
			}
		})
		r.Check(okKey && okVal, "C18.holders-threshold", "tally", c.pos(e.At), "tally keyed by the content hash of the reported list, increased by the reporter's normalised power", "the holders tally is not keyed by the content hash of each reported list (conflicting lists would be pooled): "+detail)
	}
}

func (c *Ctx) checkMedian(h *ssa.Function) {
	p, r := c.P, c.R
	// the Price literal's Value
	for _, a := range allocsOfType(h, "Price") {
		for _, v := range ana.FieldStores(a)["Value"] {
			ex := p.Expr(v, 0)
			fn := h
			var anchors []*ssa.BasicBlock
			okForm := false
			if call, ok := v.(*ssa.Call); ok && call.Call.StaticCallee() != nil && call.Call.StaticCallee().Blocks != nil && !p.L.IsGenerated(call.Call.StaticCallee().Pos()) && inPkg(call.Call.StaticCallee(), "oracle/keeper") {
				// the median is computed by a helper: its returns are the two arms
				fn = call.Call.StaticCallee()
				var mean, mid []string
				bad := false
				ana.Instrs(fn, func(in ssa.Instruction) {
					ret, ok := in.(*ssa.Return)
					if !ok || in.Parent() != fn || len(ret.Results) != 1 {
						return
					}
					anchors = append(anchors, ret.Block())
					e := p.Expr(ret.Results[0], 0)
					if m := regexp.MustCompile(`^Dec\.QuoInt64\(Dec\.Add\((.+)\[\],(.+)\[\]\),2\)$`).FindStringSubmatch(e); m != nil && m[1] == m[2] {
						mean = append(mean, m[1])
					} else if m := regexp.MustCompile(`^([^()]+)\[\]$`).FindStringSubmatch(e); m != nil {
						mid = append(mid, m[1])
					} else if m := regexp.MustCompile(`^phi\(Dec\.QuoInt64\(Dec\.Add\((.+)\[\],(.+)\[\]\),2\),(.+)\[\]\)$`).FindStringSubmatch(e); m != nil && m[1] == m[2] && m[2] == m[3] {
						mean = append(mean, m[1])
						mid = append(mid, m[3])
					} else {
						bad = true
					}
					ex += " | " + e
				})
				okForm = !bad && len(mean) == 1 && len(mid) == 1 && mean[0] == mid[0]
			} else {
				re := regexp.MustCompile(`^phi\(Dec\.QuoInt64\(Dec\.Add\((.+)\[\],(.+)\[\]\),2\),(.+)\[\]\)$`)
				m := re.FindStringSubmatch(ex)
				okForm = m != nil && m[1] == m[2] && m[2] == m[3]
				anchors = []*ssa.BasicBlock{a.Block()}
			}
			// a sort.Slice over the same slice precedes, with an LT comparator
			okSort := false
			ana.Instrs(fn, func(in ssa.Instruction) {
				call, ok := in.(*ssa.Call)
				if !ok || in.Parent() != fn {
					return
				}
				d, _ := ana.Describe(&call.Call)
				if d.Pkg == "sort" && d.Name == "Slice" && len(call.Call.Args) == 2 {
					if mc, ok := call.Call.Args[1].(*ssa.MakeClosure); ok {
						cmp := mc.Fn.(*ssa.Function)
						ana.Instrs(cmp, func(i2 ssa.Instruction) {
							if ret, ok := i2.(*ssa.Return); ok && len(ret.Results) == 1 {
								if cc, _ := ana.UnwrapCall(ret.Results[0]); cc != nil {
									if dd, _ := ana.Describe(&cc.Call); dd.Recv == "Dec" && (dd.Name == "LT" || dd.Name == "LTE" || dd.Name == "GT" || dd.Name == "GTE") {
										all := len(anchors) > 0
										for _, ab := range anchors {
											if !(call.Block().Dominates(ab) || call.Block() == ab) {
												all = false
											}
										}
										if all {
											okSort = true
										}
									}
								}
							}
						})
					}
				}
			})
			// indexes: len/2 and len/2-1
			okIdx := true
			ana.Instrs(fn, func(in ssa.Instruction) {
				ia, ok := in.(*ssa.IndexAddr)
				if !ok || ia.Parent() != fn {
					return
				}
				if _, isLit := ia.X.(*ssa.Alloc); isLit {
					return
				}
				if n := ana.NamedOf(ia.Type()); n == nil || n.Obj().Name() != "Dec" {
					return
				}
				ix := p.Expr(ia.Index, 0)
				if !regexp.MustCompile(`^\(len\(.*\)/2\)$|^\(\(len\(.*\)/2\)-1\)$`).MatchString(ix) {
					okIdx = false
				}
			})
			r.Check(okForm && okSort && okIdx, "C18.median-shape", "price", c.pos(a), "stored price = middle element of the sorted weighted list (mean of the two middle ones for even length)",
				sprintf("the stored price is not taken from the middle of the sorted, power-weighted value list (form=%v sorted=%v middle indexes=%v): %s", okForm, okSort, okIdx, ex))
		}
	}
}

// voteAppendDistinct: the append of a vote is guarded by a membership test on the record's votes.
func (c *Ctx) voteAppendDistinct(st *ssa.Store) bool {
	p := c.P
	// votes are appended in arrival order: a binary search over them (sort.Search…) is not a membership test
	binSearch := false
	ana.Instrs(st.Parent(), func(in ssa.Instruction) {
		if cc, ok := in.(ssa.CallInstruction); ok {
			if d, ok := ana.Describe(cc.Common()); ok && d.Pkg == "sort" && strings.HasPrefix(d.Name, "Search") {
				for _, a := range cc.Common().Args {
					if p.Leaves(a, ana.PVOpt{}).HasField("Attestation.Votes") {
						binSearch = true
					}
				}
			}
		}
	})
	if binSearch {
		return false
	}
	call := st.Val.(*ssa.Call)
	var appended ssa.Value
	if len(call.Call.Args) == 2 {
		appended = call.Call.Args[1]
	}
	la := p.Leaves(appended, ana.PVOpt{Opaque: func(d ana.CalleeDesc) bool { return d.Name == "GetOperator" || d.Name == "Validator" }})
	// the membership atom: a condition (comparison or helper call) whose provenance has the record's Votes and the operator
	member := func(cd ana.Cond) (bool, bool) {
		var vals []ssa.Value
		if cd.Op == token.ILLEGAL {
			call, _ := ana.UnwrapCall(cd.X)
			if call == nil {
				// a boolean flag computed by a loop: phi
				vals = append(vals, cd.X)
			} else {
				vals = append(vals, ana.CallOf(call).Args...)
			}
		} else {
			vals = append(vals, cd.X, cd.Y)
		}
		hasVotes, hasOp := false, false
		for _, v := range vals {
			l := p.Leaves(v, ana.PVOpt{Opaque: func(d ana.CalleeDesc) bool { return d.Name == "GetOperator" || d.Name == "Validator" }})
			if l.HasField("Attestation.Votes") {
				hasVotes = true
			}
			for lab := range l.Leaves {
				if la.Leaves[lab] && strings.HasPrefix(lab, "call:") {
					hasOp = true
				}
			}
		}
		if !(hasVotes && hasOp) {
			return false, false
		}
		// polarity: "present" forms vs "absent" forms
		switch cd.Op {
		case token.EQL:
			return false, true // vote == operator -> present; atom (absent) holds on false
		case token.NEQ:
			return true, true
		}
		// helper call / flag: named contains/has/found => true means present
		return false, true
	}
	// loop-and-compare idiom: leaving the range over the votes without a match also means "absent"
	exhausted := ana.AtomCmp(func(op token.Token, x, y ssa.Value) (bool, bool) {
		if op != token.LSS {
			return false, false
		}
		lc, ok := y.(*ssa.Call)
		if !ok {
			return false, false
		}
		if b, ok := lc.Call.Value.(*ssa.Builtin); !ok || b.Name() != "len" {
			return false, false
		}
		if !p.Leaves(lc.Call.Args[0], ana.PVOpt{}).HasField("Attestation.Votes") {
			return false, false
		}
		return false, true
	})
	return ana.Guarded(st, member, exhausted) && len(ana.IfsUsing(st.Parent(), func(cd ana.Cond) bool { _, m := member(cd); return m })) > 0
}

// checkOverwrites: in every function (other than the genesis import) that Sets the prefix, whether the Set is
// reached does not depend on a Get / Has of the same prefix: a later write replaces an earlier one.
func (c *Ctx) checkOverwrites(rule, prefix string, live map[*ssa.Function]bool, okText, badFmt string) {
	p, r := c.P, c.R
	ws := c.Writers(live, "Set", prefix)
	for _, f := range sortedKeys(ws) {
		effs := ws[f]
		if c.isGenesisImport(f) {
			continue
		}
		var reads []Eff
		for _, e := range c.Effects(f) {
			if e.Kind == "store" && e.Prefix == prefix && (e.Op == "Get" || e.Op == "Has") {
				reads = append(reads, e)
			}
		}
		bad := ""
		for _, w := range effs {
			if w.At.Parent() != f {
				continue
			}
			for _, rd := range reads {
				var rvs []ssa.Value
				if rv, ok := rd.At.(ssa.Value); ok {
					rvs = append(rvs, rv)
				}
				if rv, ok := rd.Prim.(ssa.Value); ok {
					rvs = append(rvs, rv)
				}
				for _, b := range f.Blocks {
					if len(b.Instrs) == 0 || len(b.Succs) != 2 {
						continue
					}
					iff, ok := b.Instrs[len(b.Instrs)-1].(*ssa.If)
					if !ok {
						continue
					}
					dep := false
					for _, vals := range p.Leaves(iff.Cond, ana.PVOpt{Opaque: func(d ana.CalleeDesc) bool { return true }}).Vals {
						for _, v := range vals {
							for _, rv := range rvs {
								if v == rv {
									dep = true
								}
							}
						}
					}
					if !dep {
						continue
					}
					r0 := reachFromTo(b.Succs[0], w.At.Block())
					r1 := reachFromTo(b.Succs[1], w.At.Block())
					if r0 != r1 {
						bad = c.pos(iff)
					}
				}
			}
		}
		r.Check(bad == "", rule, fname(f), p.Pos(f.Pos()), okText, sprintf(badFmt, bad))
	}
}
