package rules

import (
	"go/token"
	"go/types"
	"sort"
	"strings"

	"golang.org/x/tools/go/ssa"

	"mhubsa/ana"
)

// Names renders function names.
func Names(fns []*ssa.Function) string { return names(fns) }

// Eff is one primitive effect attributed to a semantic function: the effect
// happens in the function itself, in one of its anonymous functions, or in a
// thin wrapper it calls.
type Eff struct {
	Kind   string // "store" | "bank"
	Op     string // Set/Delete/Get/Has/Iterator/ReverseIterator | MintCoins/...
	Prefix string // constant name of the first key byte (store effects)
	Store  ana.StoreOp
	Bank   ana.BankOp
	In     *ssa.Function         // function containing At
	At     ssa.Instruction       // instruction inside the semantic function (the op itself or the call to the wrapper)
	Prim   ssa.Instruction       // the primitive instruction
	Via    []string              // wrapper chain
	Chain  []ssa.CallInstruction // call sites from the semantic function down to the function containing Prim
}

// EL is Leaves of a value that belongs to the frame of the effect's primitive, with the parameters of
// folded wrappers / helpers bound to the actuals of the call chain the effect was folded through.
func (c *Ctx) EL(e Eff, v ssa.Value, opt ana.PVOpt) *ana.Prov {
	if len(e.Chain) == 0 || v == nil || e.Prim == nil || v.Parent() != e.Prim.Parent() {
		return c.P.Leaves(v, opt)
	}
	return c.P.LeavesChain(v, e.Chain, opt)
}

// helperCaller returns the single outermost caller of g when g is a private helper candidate: a named,
// unexported, non-generated module function with a body, which is not an entry point and all of whose
// call sites lie in one other outermost function.
func (c *Ctx) helperCaller(g *ssa.Function) *ssa.Function {
	if g == nil || g.Parent() != nil || g.Blocks == nil || g.Object() == nil || g.Object().Exported() || c.P.L.IsGenerated(g.Pos()) {
		return nil
	}
	rt := c.Roots()
	for _, set := range [][]*ssa.Function{rt.Block, rt.Msg, rt.Gov, rt.InitGen, rt.Hooks, rt.ExportGen, rt.Query} {
		if isRoot(g, set) {
			return nil
		}
	}
	var caller *ssa.Function
	for _, e := range c.P.In[g] {
		o := ana.Outermost(e.Caller)
		if o == g || e.Kind != "static" {
			return nil
		}
		if caller != nil && caller != o {
			return nil
		}
		caller = o
	}
	return caller
}

// RegisterHelper marks g as an implementation detail of its single caller: from the next pass on its
// effects are attributed to that caller (at the call site) and g is no longer a semantic function.
func (c *Ctx) RegisterHelper(g *ssa.Function) bool {
	if c.helperCaller(g) == nil {
		return false
	}
	if c.Fold == nil {
		c.Fold = &FoldSet{M: map[*ssa.Function]bool{}}
	}
	if !c.Fold.M[g] {
		c.Fold.M[g] = true
		c.Fold.Changed = true
	}
	return true
}

func (c *Ctx) isHelper(g *ssa.Function) bool { return c.Fold != nil && c.Fold.M[g] }

// FoldSet is the set of registered helpers (shared between a check and the checks it includes).
type FoldSet struct {
	M       map[*ssa.Function]bool
	Changed bool
}

// roleFuncs returns the semantic functions whose effects satisfy pred.  When none does, the search is
// repeated with every private single-caller helper folded into its caller; the innermost function that
// then satisfies pred plays the role, and the helpers it needed are registered (the check is re-run).
func (c *Ctx) roleFuncs(reach map[*ssa.Function]bool, pred func(f *ssa.Function, effs []Eff) bool) []*ssa.Function {
	var out []*ssa.Function
	sem := c.SemanticFuncs(reach)
	for _, f := range sem {
		if pred(f, c.Effects(f)) {
			out = append(out, f)
		}
	}
	if len(out) > 0 {
		return out
	}
	var cands []*ssa.Function
	used := map[*ssa.Function][]*ssa.Function{}
	for _, f := range sem {
		var hs []*ssa.Function
		effs := c.effectsFoldAll(f, 0, &hs)
		if len(hs) > 0 && pred(f, effs) {
			cands = append(cands, f)
			used[f] = hs
		}
	}
	for _, f := range cands {
		inner := true
		for _, g := range cands {
			if g != f && c.P.Reach(f)[g] && !c.P.Reach(g)[f] {
				inner = false
			}
		}
		if inner {
			for _, h := range used[f] {
				c.RegisterHelper(h)
			}
		}
	}
	return nil
}

func (c *Ctx) effectsFoldAll(f *ssa.Function, depth int, hs *[]*ssa.Function) []Eff {
	out := c.Effects(f)
	if depth > 2 {
		return out
	}
	seen := map[*ssa.Function]bool{}
	var visit func(g *ssa.Function)
	visit = func(g *ssa.Function) {
		for _, e := range c.P.Out[g] {
			h := e.Callee
			if seen[h] || c.isThin(h) || c.isHelper(h) || c.helperCaller(h) != ana.Outermost(f) {
				continue
			}
			seen[h] = true
			sub := c.effectsFoldAll(h, depth+1, hs)
			if len(sub) > 0 {
				*hs = append(*hs, h)
				for _, we := range sub {
					we.In = f
					we.At = e.Site.(ssa.Instruction)
					we.Chain = append([]ssa.CallInstruction{e.Site}, we.Chain...)
					out = append(out, we)
				}
			}
		}
		for _, an := range g.AnonFuncs {
			visit(an)
		}
	}
	visit(f)
	return out
}

// isThin reports a wrapper: straight-line code (one block besides the recover
// block) whose only effects are store/bank primitives.
func (c *Ctx) isThin(fn *ssa.Function) bool {
	if fn == nil || fn.Parent() != nil || fn.Blocks == nil {
		return false
	}
	n := 0
	for _, b := range fn.Blocks {
		if b == fn.Recover {
			continue
		}
		n++
	}
	if n != 1 {
		return false
	}
	if len(c.P.StoreOps(fn))+len(c.P.BankOps(fn)) == 0 {
		// a wrapper around a wrapper
		callees := 0
		for _, e := range c.P.Out[fn] {
			if c.isThinShallow(e.Callee) {
				callees++
			}
		}
		return callees > 0 && len(c.P.Out[fn]) == callees
	}
	return true
}

func (c *Ctx) isThinShallow(fn *ssa.Function) bool {
	if fn == nil || fn.Parent() != nil || fn.Blocks == nil {
		return false
	}
	n := 0
	for _, b := range fn.Blocks {
		if b == fn.Recover {
			continue
		}
		n++
	}
	return n == 1 && len(c.P.StoreOps(fn))+len(c.P.BankOps(fn)) > 0
}

// Effects returns the effects attributed to fn (see Eff).  Anonymous
// functions are folded into the function that creates them.
func (c *Ctx) Effects(fn *ssa.Function) []Eff {
	var out []Eff
	var visit func(f *ssa.Function)
	visit = func(f *ssa.Function) {
		for _, op := range c.P.StoreOps(f) {
			in := op.Site.(ssa.Instruction)
			out = append(out, Eff{Kind: "store", Op: op.Op, Prefix: c.prefixName(op), Store: op, In: f, At: in, Prim: in})
		}
		for _, op := range c.P.BankOps(f) {
			in := op.Site.(ssa.Instruction)
			out = append(out, Eff{Kind: "bank", Op: op.Op, Bank: op, In: f, At: in, Prim: in})
		}
		for _, e := range c.P.Out[f] {
			if c.isThin(e.Callee) || c.isHelper(e.Callee) {
				for _, we := range c.wrapperEffects(e.Callee, 0) {
					we.In = f
					we.At = e.Site.(ssa.Instruction)
					we.Via = append([]string{fname(e.Callee)}, we.Via...)
					we.Chain = append([]ssa.CallInstruction{e.Site}, we.Chain...)
					out = append(out, we)
				}
			}
		}
		for _, an := range f.AnonFuncs {
			visit(an)
		}
	}
	visit(fn)
	return out
}

func (c *Ctx) wrapperEffects(w *ssa.Function, depth int) []Eff {
	var out []Eff
	if depth > 4 {
		return out
	}
	for _, op := range c.P.StoreOps(w) {
		in := op.Site.(ssa.Instruction)
		out = append(out, Eff{Kind: "store", Op: op.Op, Prefix: c.prefixName(op), Store: op, Prim: in})
	}
	for _, op := range c.P.BankOps(w) {
		in := op.Site.(ssa.Instruction)
		out = append(out, Eff{Kind: "bank", Op: op.Op, Bank: op, Prim: in})
	}
	for _, e := range c.P.Out[w] {
		if c.isThin(e.Callee) || c.isHelper(e.Callee) {
			for _, we := range c.wrapperEffects(e.Callee, depth+1) {
				we.Via = append([]string{fname(e.Callee)}, we.Via...)
				we.Chain = append([]ssa.CallInstruction{e.Site}, we.Chain...)
				out = append(out, we)
			}
		}
	}
	if c.isHelper(w) {
		for _, an := range w.AnonFuncs {
			out = append(out, c.wrapperEffects(an, depth+1)...)
		}
	}
	return out
}

// SemanticFuncs lists the non-thin, named functions of the reachable set.
func (c *Ctx) SemanticFuncs(reach map[*ssa.Function]bool) []*ssa.Function {
	seen := map[*ssa.Function]bool{}
	var out []*ssa.Function
	for _, f := range sortedFuncs(reach) {
		o := ana.Outermost(f)
		if seen[o] || c.isThin(o) || c.isHelper(o) || c.P.L.IsGenerated(o.Pos()) {
			continue
		}
		seen[o] = true
		out = append(out, o)
	}
	return out
}

// hasEff reports whether effs contains the effect.
func hasEff(effs []Eff, kind, op, prefix string) bool {
	for _, e := range effs {
		if e.Kind == kind && e.Op == op && (prefix == "" || e.Prefix == prefix) {
			return true
		}
	}
	return false
}

func effsOf(effs []Eff, kind, op, prefix string) []Eff {
	var out []Eff
	for _, e := range effs {
		if e.Kind == kind && (op == "" || e.Op == op) && (prefix == "" || e.Prefix == prefix) {
			out = append(out, e)
		}
	}
	return out
}

// Writers returns the semantic functions (in reach) that Set/Delete the prefix.
func (c *Ctx) Writers(reach map[*ssa.Function]bool, op, prefix string) map[*ssa.Function][]Eff {
	out := map[*ssa.Function][]Eff{}
	for _, f := range c.SemanticFuncs(reach) {
		if es := effsOf(c.Effects(f), "store", op, prefix); len(es) > 0 {
			out[f] = es
		}
	}
	return out
}

func sortedKeys(m map[*ssa.Function][]Eff) []*ssa.Function {
	var out []*ssa.Function
	for f := range m {
		out = append(out, f)
	}
	sort.Slice(out, func(i, j int) bool { return out[i].Pos() < out[j].Pos() })
	return out
}

// isRoot reports membership in a root list (by outermost function).
func isRoot(fn *ssa.Function, roots []*ssa.Function) bool {
	for _, r := range roots {
		if ana.Outermost(r) == ana.Outermost(fn) {
			return true
		}
	}
	return false
}

// reachableFromOnly reports whether fn is reachable from roots "only" and not
// from "others".
func (c *Ctx) reachedBy(fn *ssa.Function, roots []*ssa.Function) bool {
	return c.P.Reach(roots...)[fn]
}

func viaStr(e Eff) string {
	if len(e.Via) == 0 {
		return ""
	}
	return " via " + strings.Join(e.Via, " -> ")
}

// outerValue resolves a value that belongs to the frame of a folded effect to the frame of the semantic
// function: conversions and one-element slice literals are stripped and a parameter of a folded wrapper /
// helper is replaced by the actual of the call the effect was folded through.
func outerValue(v ssa.Value, chain []ssa.CallInstruction) ssa.Value {
	for i := 0; i < 12 && v != nil; i++ {
		switch x := v.(type) {
		case *ssa.ChangeType:
			v = x.X
		case *ssa.MakeInterface:
			v = x.X
		case *ssa.Slice:
			el := singleElem(x)
			if el == nil {
				return v
			}
			v = el
		case *ssa.Parameter:
			n := len(chain)
			if n == 0 {
				return v
			}
			site := chain[n-1]
			var callee *ssa.Function
			if cc := site.Common(); cc != nil {
				callee = cc.StaticCallee()
			}
			if callee == nil || callee != x.Parent() {
				return v
			}
			idx := -1
			for j, par := range callee.Params {
				if par == x {
					idx = j
				}
			}
			args := site.Common().Args
			if idx < 0 || idx >= len(args) {
				return v
			}
			v = args[idx]
			chain = chain[:n-1]
		default:
			return v
		}
	}
	return v
}

// singleElem returns the only element of a one-element array literal that is sliced (sdk.Coins{c}).
func singleElem(x *ssa.Slice) ssa.Value {
	a, ok := x.X.(*ssa.Alloc)
	if !ok {
		return nil
	}
	var el ssa.Value
	n := 0
	for _, ref := range *a.Referrers() {
		if ia, ok := ref.(*ssa.IndexAddr); ok {
			for _, rr := range *ia.Referrers() {
				if st, ok := rr.(*ssa.Store); ok && st.Addr == ssa.Value(ia) {
					el = st.Val
					n++
				}
			}
		}
	}
	if n != 1 {
		return nil
	}
	return el
}

// sameCoins reports that two effect operands denote the same coins value of the semantic function.
func sameCoins(a Eff, av ssa.Value, b Eff, bv ssa.Value) bool {
	if av == nil || bv == nil {
		return false
	}
	if av == bv && sameChain(a.Chain, b.Chain) {
		return true
	}
	x, y := outerValue(av, a.Chain), outerValue(bv, b.Chain)
	if xp, ok := x.(*ssa.Parameter); ok {
		// still a parameter: only equal within the same call chain
		if yp, ok := y.(*ssa.Parameter); ok {
			return xp == yp && sameChain(a.Chain, b.Chain)
		}
		return false
	}
	return x == y || sameObject(x, y)
}

func sameChain(a, b []ssa.CallInstruction) bool {
	if len(a) != len(b) {
		return false
	}
	for i := range a {
		if a[i] != b[i] {
			return false
		}
	}
	return true
}

// guardedUp: the instruction is guarded by the atoms in its own function or, failing that, at every place
// its function is entered from (up to three frames up) – a guard stays a guard when the guarded statements
// are moved into a helper.
func (c *Ctx) guardedUp(in ssa.Instruction, atoms ...ana.Atom) bool {
	if ana.Guarded(in, atoms...) {
		return true
	}
	ok, _ := c.P.GuardedInter(in, 3, atoms...)
	return ok
}

// isGenesisImport: InitGenesis itself or a function that is reachable from InitGenesis and from no
// other entry point (a part of the import that was given its own name).
func (c *Ctx) isGenesisImport(f *ssa.Function) bool {
	rt := c.Roots()
	if isRoot(f, rt.InitGen) {
		return true
	}
	return c.P.Reach(rt.InitGen...)[f] && c.onlyFrom(f, rt.InitGen)
}

// keyMakerOwner assigns the key constructors of key.go to the property whose index they address.
var keyMakerOwner = map[string]string{
	"MakeOrchestratorValidatorAddressKey": "C17", "MakeValidatorExternalAddressKey": "C17", "MakeExternalOrchestratorAddressKey": "C17",
	"MakeExternalSignatureKey":       "C16",
	"MakeExternalEventVoteRecordKey": "C02", "MakeLastEventNonceByValidatorKey": "C02",
	"MakeOutgoingTxKey": "C04", "MakeSendToExternalKey": "C04", "MakeBatchTxKey": "C04", "MakeSignerSetTxKey": "C04", "MakeContractCallTxKey": "C04",
	"GetTxStatusKey": "C04", "GetTxFeeRecordKey": "C19",
	"GetClaimKey": "C18", "GetAttestationKey": "C18", "GetAttestationKeyWithHash": "C18",
}

// checkKeyMakers: a store key can only keep apart what enters it.  Every parameter of a key constructor of
// key.go owned by the property (chain id, validator, nonce, ...) must reach the returned bytes, and the
// constant prefix byte must come first.  Constructors key.go gains later fall to C04.
func (c *Ctx) checkKeyMakers(prop string, min int) {
	p, r := c.P, c.R
	rule := prop + ".key-shape"
	r.Min(rule, min)
	for _, f := range p.Funcs {
		if f.Parent() != nil || f.Signature.Recv() != nil || f.Blocks == nil || p.L.IsGenerated(f.Pos()) {
			continue
		}
		if !(inPkg(f, "mhub2/types") || inPkg(f, "oracle/types")) {
			continue
		}
		n := f.Name()
		if !(strings.HasPrefix(n, "Make") || strings.HasPrefix(n, "Get")) || !strings.HasSuffix(strings.TrimSuffix(n, "WithHash"), "Key") || len(f.Params) == 0 {
			continue
		}
		res := f.Signature.Results()
		if res.Len() != 1 || res.At(0).Type().String() != "[]byte" {
			continue
		}
		owner, ok := keyMakerOwner[n]
		if !ok {
			owner = "C04"
		}
		if owner != prop {
			continue
		}
		nret := 0
		missing := map[int]bool{}
		ana.Instrs(f, func(in ssa.Instruction) {
			ret, ok := in.(*ssa.Return)
			if !ok || in.Parent() != f || len(ret.Results) != 1 {
				return
			}
			nret++
			l := p.Leaves(ret.Results[0], ana.PVOpt{})
			used := map[int]bool{}
			for i, par := range f.Params {
				if l.Has(sprintf("param:%s#%d:%s", fname(f), i, par.Name())) {
					used[i] = true
				}
			}
			// results of (interface) method calls on a parameter count as that parameter
			for _, vals := range l.Vals {
				for _, v := range vals {
					call, _ := ana.UnwrapCall(v)
					if call == nil {
						continue
					}
					args := call.Call.Args
					if call.Call.IsInvoke() {
						args = append([]ssa.Value{call.Call.Value}, args...)
					}
					for _, a := range args {
						for i, par := range f.Params {
							if a == ssa.Value(par) {
								used[i] = true
							}
						}
					}
				}
			}
			// one return that ignores a parameter is enough to merge keys
			for i := range f.Params {
				if !used[i] {
					missing[i] = true
				}
			}
		})
		var miss []string
		for i, par := range f.Params {
			if missing[i] {
				miss = append(miss, par.Name())
			}
		}
		// ... and reaches them unchanged: a decoding / folding step between a parameter and the key bytes maps
		// different parameter values to one key
		lossy := ""
		ana.Instrs(f, func(in ssa.Instruction) {
			ret, ok := in.(*ssa.Return)
			if !ok || in.Parent() != f || len(ret.Results) != 1 || lossy != "" {
				return
			}
			lv := p.Leaves(ret.Results[0], ana.PVOpt{})
			for _, op := range append(lv.OpList(), lv.List()...) {
				for _, bad := range []string{"HexToHash", "HexToAddress", "Hex2Bytes", "FromHex", "BytesToAddress", "BytesToHash", "ToLower", "ToUpper", "TrimSpace", "TrimPrefix", "TrimLeft"} {
					if strings.HasSuffix(op, bad) {
						lossy = op
					}
				}
			}
		})
		if lossy != "" && len(miss) == 0 && nret > 0 {
			r.Bad(rule, n, p.Pos(f.Pos()), sprintf("the key built by %s passes a parameter through %s: parameter values that %s maps to one result (other spellings, non-hex text) share one store slot", n, lossy, lossy))
			continue
		}
		r.Check(nret > 0 && len(miss) == 0, rule, n, p.Pos(f.Pos()), sprintf("all %d parameter(s) reach the key bytes", len(f.Params)),
			sprintf("the key built by %s does not depend on its parameter(s) %s: entries that differ only there share one store slot and overwrite each other", n, strings.Join(miss, ", ")))
	}
}

// HelperCandidates lists the private single-caller helpers with effects that are not folded yet.
func (c *Ctx) HelperCandidates() []*ssa.Function {
	var out []*ssa.Function
	for _, f := range c.P.Funcs {
		if f.Parent() != nil || c.isThin(f) || c.isHelper(f) || c.helperCaller(f) == nil {
			continue
		}
		if !(inPkg(f, "x/mhub2") || inPkg(f, "mhub2/keeper") || inPkg(f, "mhub2/types") || inPkg(f, "x/oracle") || inPkg(f, "oracle/keeper") || inPkg(f, "oracle/types")) {
			continue
		}
		if len(c.Effects(f)) == 0 {
			continue
		}
		out = append(out, f)
	}
	return out
}

// checkValueSemantics reports two slips of Go's value semantics on the module's own struct types:
// (lost-update) a method with a value receiver assigns to a field of its receiver and never reads the
// receiver again – the assignment lands in a copy and is lost; (stale-copy) a struct variable is copied
// by value into another struct and a field of the variable is assigned afterwards while the variable is
// still used – the copy keeps the old field value.
func (c *Ctx) checkValueSemantics(rule string) {
	p, r := c.P, c.R
	n := 0
	for _, f := range p.Funcs {
		if p.L.IsGenerated(f.Pos()) || f.Blocks == nil {
			continue
		}
		if !(inPkg(f, "mhub2/keeper") || inPkg(f, "mhub2/types") || inPkg(f, "x/mhub2") || inPkg(f, "oracle/keeper") || inPkg(f, "oracle/types")) {
			continue
		}
		for _, a := range allocsIn(f) {
			st := structOf(a.Type())
			if st == nil || ana.NamedOf(a.Type()) == nil {
				continue
			}
			var fieldStores []*ssa.Store
			var wholeLoads []*ssa.UnOp
			otherUse := false
			isRecv := false
			for _, ref := range *a.Referrers() {
				switch x := ref.(type) {
				case *ssa.Store:
					if x.Addr == ssa.Value(a) {
						// initialisation from the receiver / a parameter
						if par, ok := x.Val.(*ssa.Parameter); ok && f.Signature.Recv() != nil && len(f.Params) > 0 && par == f.Params[0] {
							isRecv = true
						}
					} else {
						otherUse = true
					}
				case *ssa.FieldAddr:
					for _, rr := range *x.Referrers() {
						if s, ok := rr.(*ssa.Store); ok && s.Addr == ssa.Value(x) {
							fieldStores = append(fieldStores, s)
						} else {
							otherUse = true
						}
					}
				case *ssa.UnOp:
					if x.Op == token.MUL {
						wholeLoads = append(wholeLoads, x)
					}
				default:
					otherUse = true
				}
			}
			if len(fieldStores) == 0 {
				continue
			}
			n++
			// lost-update: value receiver, fields assigned, receiver never read again
			if isRecv && len(wholeLoads) == 0 && !otherUse {
				if _, ptr := f.Signature.Recv().Type().(*types.Pointer); !ptr {
					s := fieldStores[0]
					fld := st.Field(s.Addr.(*ssa.FieldAddr).Field).Name()
					r.Bad(rule, "lost-update:"+fname(f), c.pos(s), "method "+fname(f)+" has a value receiver and assigns its field "+fld+": the assignment changes a copy and is lost (a pointer receiver is needed)")
					continue
				}
			}
			// stale-copy: a whole-struct load that is stored into another composite, followed by a field store
			for _, l := range wholeLoads {
				copied := false
				var holder ssa.Value // the composite the copy was put into
				for _, rr := range *l.Referrers() {
					if s, ok := rr.(*ssa.Store); ok && s.Val == ssa.Value(l) {
						if fa, ok := s.Addr.(*ssa.FieldAddr); ok {
							if root, _ := fieldRoot(fa); root != ssa.Value(a) {
								copied = true
								holder = root
							}
						}
					}
				}
				if !copied {
					continue
				}
				for _, s := range fieldStores {
					// assigning the composite that holds the copy to a field of the original is how the two get
					// linked; that the copy lacks this very field is inherent (a value cannot contain itself)
					sv := s.Val
					for i := 0; i < 3; i++ {
						switch x := sv.(type) {
						case *ssa.MakeInterface:
							sv = x.X
						case *ssa.ChangeType:
							sv = x.X
						}
					}
					if ld, ok := sv.(*ssa.UnOp); ok && ld.Op == token.MUL && holder != nil && ld.X == holder {
						continue
					}
					if holder != nil && sv == holder {
						continue // a pointer to the holder
					}
					after := (l.Block() == s.Block() && ana.InstrIndex(l) < ana.InstrIndex(s)) || (l.Block() != s.Block() && ana.ReachesWithout(l, s, nil))
					if after {
						fld := st.Field(s.Addr.(*ssa.FieldAddr).Field).Name()
						r.Bad(rule, "stale-copy:"+fname(f), c.pos(s), "in "+fname(f)+" the struct is copied by value (at "+c.pos(l)+") before its field "+fld+" is assigned: the copy keeps the old value of "+fld)
					}
				}
			}
		}
	}
	r.Ok(rule, "scan", "-", sprintf("%d struct variable(s) with field assignments inspected for lost updates and stale copies", n))
}

// checkChainScoped: a function that is handed a chain id and reads or writes the store under a key built in
// place uses that chain id in the key (per-chain state must not be shared between chains).  keep selects the
// prefixes the calling property owns.
func (c *Ctx) checkChainScoped(rule string, keep func(prefix string) bool) {
	p, r := c.P, c.R
	n := 0
	for _, f := range sortedFuncs(c.LiveReach()) {
		if p.L.IsGenerated(f.Pos()) || !p.IsModule(f) {
			continue
		}
		hasChain := false
		for _, par := range ana.Outermost(f).Params {
			if nm := ana.NamedOf(par.Type()); nm != nil && nm.Obj().Name() == "ChainID" {
				hasChain = true
			}
		}
		if !hasChain {
			continue
		}
		for _, op := range p.StoreOps(f) {
			pn := c.prefixName(op)
			if pn == "" || !keep(pn) {
				continue
			}
			scoped := false
			for _, pt := range op.Key.Parts {
				if pt.Kind == "chain" || pt.Kind == "param" || pt.Kind == "unknown" {
					scoped = true
				}
			}
			n++
			r.Check(scoped, rule, "chain-scoped:"+pn+":"+fname(f), c.pos(op.Site), pn+" key carries the chain id the function was given",
				fname(f)+" is given a chain id but accesses "+pn+" under a key without it: the value is shared by all chains")
		}
	}
	if n == 0 {
		r.Undecided(rule, "chain-scoped", "-", "no per-chain store access found")
	}
	c.checkIteratorBounds(rule, keep)
}

// checkIteratorBounds: an iterator with an explicit end bound stays inside the chain its start key names: the
// end is the PrefixEndBytes of a key that carries the same leading parts up to and including the chain id.
func (c *Ctx) checkIteratorBounds(rule string, keep func(prefix string) bool) {
	p, r := c.P, c.R
	for _, f := range sortedFuncs(c.LiveReach()) {
		if p.L.IsGenerated(f.Pos()) || !p.IsModule(f) {
			continue
		}
		for _, op := range p.StoreOps(f) {
			if !op.IsIter() || (op.End == nil && !op.EndOpen) {
				continue
			}
			pn := c.prefixName(op)
			if pn == "" || !keep(pn) {
				continue
			}
			chainAt := -1
			for i, pt := range op.Key.Parts {
				if pt.Kind == "chain" {
					chainAt = i
					break
				}
			}
			if chainAt < 0 {
				continue
			}
			ok := false
			if op.End != nil && len(op.End.Parts) > chainAt {
				ok = true
				for i := 0; i <= chainAt; i++ {
					a, b := op.Key.Parts[i], op.End.Parts[i]
					if a.Kind != b.Kind || (a.Kind == "const" && string(a.Const) != string(b.Const)) {
						ok = false
					}
					if a.Kind == "chain" && !sameObject(a.Val, b.Val) && a.Val != b.Val {
						ok = false
					}
				}
			}
			r.Check(ok, rule, "iterator-bound:"+pn+":"+fname(f), c.pos(op.Site), "the range scan over "+pn+" ends inside the chain it starts in",
				fname(f)+" scans "+pn+" from a key of one chain to an end bound that is not the end of that chain's keys: the scan runs on into the records of the chains that sort after it")
		}
	}
}
