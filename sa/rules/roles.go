package rules

import (
	"sort"
	"strings"

	"golang.org/x/tools/go/ssa"

	"mhubsa/ana"
)

// Names renders function names.
func Names(fns []*ssa.Function) string { return names(fns) }

// Eff is one primitive effect attributed to a semantic function: the effect
// happens in the function itself, in one of its anonymous functions, or in a
// thin wrapper it calls.
type Eff struct {
	Kind   string // "store" | "bank"
	Op     string // Set/Delete/Get/Has/Iterator/ReverseIterator | MintCoins/...
	Prefix string // constant name of the first key byte (store effects)
	Store  ana.StoreOp
	Bank   ana.BankOp
	In     *ssa.Function   // function containing At
	At     ssa.Instruction // instruction inside the semantic function (the op itself or the call to the wrapper)
	Prim   ssa.Instruction // the primitive instruction
	Via    []string        // wrapper chain
}

// isThin reports a wrapper: straight-line code (one block besides the recover
// block) whose only effects are store/bank primitives.
func (c *Ctx) isThin(fn *ssa.Function) bool {
	if fn == nil || fn.Parent() != nil || fn.Blocks == nil {
		return false
	}
	n := 0
	for _, b := range fn.Blocks {
		if b == fn.Recover {
			continue
		}
		n++
	}
	if n != 1 {
		return false
	}
	if len(c.P.StoreOps(fn))+len(c.P.BankOps(fn)) == 0 {
		// a wrapper around a wrapper
		callees := 0
		for _, e := range c.P.Out[fn] {
			if c.isThinShallow(e.Callee) {
				callees++
			}
		}
		return callees > 0 && len(c.P.Out[fn]) == callees
	}
	return true
}

func (c *Ctx) isThinShallow(fn *ssa.Function) bool {
	if fn == nil || fn.Parent() != nil || fn.Blocks == nil {
		return false
	}
	n := 0
	for _, b := range fn.Blocks {
		if b == fn.Recover {
			continue
		}
		n++
	}
	return n == 1 && len(c.P.StoreOps(fn))+len(c.P.BankOps(fn)) > 0
}

// Effects returns the effects attributed to fn (see Eff).  Anonymous
// functions are folded into the function that creates them.
func (c *Ctx) Effects(fn *ssa.Function) []Eff {
	var out []Eff
	var visit func(f *ssa.Function)
	visit = func(f *ssa.Function) {
		for _, op := range c.P.StoreOps(f) {
			in := op.Site.(ssa.Instruction)
			out = append(out, Eff{Kind: "store", Op: op.Op, Prefix: c.prefixName(op), Store: op, In: f, At: in, Prim: in})
		}
		for _, op := range c.P.BankOps(f) {
			in := op.Site.(ssa.Instruction)
			out = append(out, Eff{Kind: "bank", Op: op.Op, Bank: op, In: f, At: in, Prim: in})
		}
		for _, e := range c.P.Out[f] {
			if c.isThin(e.Callee) {
				for _, we := range c.wrapperEffects(e.Callee, 0) {
					we.In = f
					we.At = e.Site.(ssa.Instruction)
					we.Via = append([]string{fname(e.Callee)}, we.Via...)
					out = append(out, we)
				}
			}
		}
		for _, an := range f.AnonFuncs {
			visit(an)
		}
	}
	visit(fn)
	return out
}

func (c *Ctx) wrapperEffects(w *ssa.Function, depth int) []Eff {
	var out []Eff
	if depth > 4 {
		return out
	}
	for _, op := range c.P.StoreOps(w) {
		in := op.Site.(ssa.Instruction)
		out = append(out, Eff{Kind: "store", Op: op.Op, Prefix: c.prefixName(op), Store: op, Prim: in})
	}
	for _, op := range c.P.BankOps(w) {
		in := op.Site.(ssa.Instruction)
		out = append(out, Eff{Kind: "bank", Op: op.Op, Bank: op, Prim: in})
	}
	for _, e := range c.P.Out[w] {
		if c.isThin(e.Callee) {
			for _, we := range c.wrapperEffects(e.Callee, depth+1) {
				we.Via = append([]string{fname(e.Callee)}, we.Via...)
				out = append(out, we)
			}
		}
	}
	return out
}

// SemanticFuncs lists the non-thin, named functions of the reachable set.
func (c *Ctx) SemanticFuncs(reach map[*ssa.Function]bool) []*ssa.Function {
	seen := map[*ssa.Function]bool{}
	var out []*ssa.Function
	for _, f := range sortedFuncs(reach) {
		o := ana.Outermost(f)
		if seen[o] || c.isThin(o) || c.P.L.IsGenerated(o.Pos()) {
			continue
		}
		seen[o] = true
		out = append(out, o)
	}
	return out
}

// hasEff reports whether effs contains the effect.
func hasEff(effs []Eff, kind, op, prefix string) bool {
	for _, e := range effs {
		if e.Kind == kind && e.Op == op && (prefix == "" || e.Prefix == prefix) {
			return true
		}
	}
	return false
}

func effsOf(effs []Eff, kind, op, prefix string) []Eff {
	var out []Eff
	for _, e := range effs {
		if e.Kind == kind && (op == "" || e.Op == op) && (prefix == "" || e.Prefix == prefix) {
			out = append(out, e)
		}
	}
	return out
}

// Writers returns the semantic functions (in reach) that Set/Delete the prefix.
func (c *Ctx) Writers(reach map[*ssa.Function]bool, op, prefix string) map[*ssa.Function][]Eff {
	out := map[*ssa.Function][]Eff{}
	for _, f := range c.SemanticFuncs(reach) {
		if es := effsOf(c.Effects(f), "store", op, prefix); len(es) > 0 {
			out[f] = es
		}
	}
	return out
}

func sortedKeys(m map[*ssa.Function][]Eff) []*ssa.Function {
	var out []*ssa.Function
	for f := range m {
		out = append(out, f)
	}
	sort.Slice(out, func(i, j int) bool { return out[i].Pos() < out[j].Pos() })
	return out
}

// isRoot reports membership in a root list (by outermost function).
func isRoot(fn *ssa.Function, roots []*ssa.Function) bool {
	for _, r := range roots {
		if ana.Outermost(r) == ana.Outermost(fn) {
			return true
		}
	}
	return false
}

// reachableFromOnly reports whether fn is reachable from roots "only" and not
// from "others".
func (c *Ctx) reachedBy(fn *ssa.Function, roots []*ssa.Function) bool {
	return c.P.Reach(roots...)[fn]
}

func viaStr(e Eff) string {
	if len(e.Via) == 0 {
		return ""
	}
	return " via " + strings.Join(e.Via, " -> ")
}
