package rules

import (
	"go/token"
	"go/types"
	"sort"
	"strings"

	"golang.org/x/tools/go/ssa"

	"mhubsa/ana"
)

func init() {
	register("C15", Meta{
		Explanation: "Coverage clauses of the genesis round trip (necessary conditions only): (prefix-export) every store prefix that block / message / governance processing writes and that holds state the property names (pool, outgoing txs, confirmations, vote records, every nonce, counter and height, delegate keys, token list; oracle: prices, holders, epoch, claims and attestations in progress) is read in the call closure of ExportGenesis and written in the call closure of InitGenesis; TxStatusKey / TxFeeRecordKey (query-only history, not named by the property) are reported as advisory; (field-roundtrip) every field of GenesisState / ExternalState of both modules is populated by ExportGenesis and consumed by InitGenesis; (faithful-import) an imported outgoing tx keeps its exported Sequence (it is not re-stamped), a confirmation is stored under its validator, and the imported LatestBlockHeight keeps the exported CosmosHeight.",
		NotDecided:  []string{"continuation equivalence ('reacts exactly as the original would')", "values, ordering and completeness inside each exported collection"},
		Assumptions: commonAssumptions,
	}, checkC15)
}

func checkC15(c *Ctx) {
	p, r := c.P, c.R
	roots := c.Roots()
	r.Min("C15.prefix-export", 20)
	r.Min("C15.field-roundtrip", 18)
	r.Min("C15.faithful-import", 3)

	var cons []*ssa.Function
	cons = append(cons, roots.Block...)
	cons = append(cons, roots.Msg...)
	cons = append(cons, roots.Gov...)
	consReach := p.Reach(cons...)
	expReach := p.Reach(roots.ExportGen...)
	impReach := p.Reach(roots.InitGen...)

	type use struct{ live, exported, imported bool }
	uses := map[string]*use{}
	get := func(n string) *use {
		if uses[n] == nil {
			uses[n] = &use{}
		}
		return uses[n]
	}
	mark := func(reach map[*ssa.Function]bool, f func(op ana.StoreOp, name string)) {
		for _, fn := range sortedFuncs(reach) {
			if p.L.IsGenerated(fn.Pos()) {
				continue
			}
			for _, op := range p.StoreOps(fn) {
				name := c.prefixName(op)
				if name == "" {
					continue
				}
				mod := "mhub2"
				if strings.HasPrefix(op.Store, "oracle/") {
					mod = "oracle"
				}
				f(op, mod+":"+name)
			}
		}
	}
	mark(consReach, func(op ana.StoreOp, n string) {
		if op.IsWrite() {
			get(n).live = true
		}
	})
	mark(expReach, func(op ana.StoreOp, n string) {
		if !op.IsWrite() {
			get(n).exported = true
		}
	})
	mark(impReach, func(op ana.StoreOp, n string) {
		if op.Op == "Set" {
			get(n).imported = true
		}
	})
	advisory := map[string]bool{"mhub2:TxStatusKey": true, "mhub2:TxFeeRecordKey": true}
	var names []string
	for n := range uses {
		names = append(names, n)
	}
	sort.Strings(names)
	nLive := 0
	for _, n := range names {
		u := uses[n]
		if !u.live {
			continue
		}
		nLive++
		if advisory[n] {
			r.Note("C15.prefix-export", "advisory:"+n, "-", sprintf("query-only history prefix, not named by the property (exported=%v imported=%v)", u.exported, u.imported))
			continue
		}
		if n == "mhub2:OrchestratorValidatorAddressKey" && !u.exported {
			// derived index: the three delegate-key indexes are always written with one triple (C17.triple),
			// so exporting the other two determines this one
			a, b := uses["mhub2:ValidatorExternalAddressKey"], uses["mhub2:ExternalOrchestratorAddressKey"]
			if a != nil && b != nil && a.exported && b.exported {
				r.Ok("C15.prefix-export", "export:"+n, "-", "derived index: determined by the two delegate-key indexes that are exported (C17.triple)")
				r.Check(u.imported, "C15.prefix-export", "import:"+n, "-", "written in the closure of InitGenesis", "state under "+n+" is never written by InitGenesis")
				continue
			}
		}
		r.Check(u.exported, "C15.prefix-export", "export:"+n, "-", "read in the closure of ExportGenesis", "state under "+n+" is written during block/message processing but never read by ExportGenesis: an export drops it")
		r.Check(u.imported, "C15.prefix-export", "import:"+n, "-", "written in the closure of InitGenesis", "state under "+n+" is never written by InitGenesis: a restarted chain starts without it")
	}
	r.Analysed["live_prefixes"] = nLive

	// ---- field-roundtrip --------------------------------------------------------------------
	for _, mod := range []string{"mhub2", "oracle"} {
		var exp, imp *ssa.Function
		for _, f := range roots.ExportGen {
			if inPkg(f, mod+"/keeper") {
				exp = f
			}
		}
		for _, f := range roots.InitGen {
			if inPkg(f, mod+"/keeper") {
				imp = f
			}
		}
		if exp == nil || imp == nil {
			r.Undecided("C15.field-roundtrip", mod, "-", "ExportGenesis / InitGenesis not found")
			continue
		}
		types := []string{"GenesisState"}
		if mod == "mhub2" {
			types = append(types, "ExternalState")
		}
		for _, tn := range types {
			named := p.LookupType(mod+"/types", tn)
			if named == nil {
				continue
			}
			// populated: field stores into literals of that type in the export closure
			populated := map[string]bool{}
			for f := range p.Reach(exp) {
				for _, a := range allocsOfType(f, tn) {
					for fld, vs := range ana.FieldStores(a) {
						if len(vs) > 0 {
							populated[fld] = true
						}
					}
				}
			}
			// consumed: field loads in the import closure
			consumed := map[string]bool{}
			for f := range p.Reach(imp) {
				if p.L.IsGenerated(f.Pos()) {
					continue
				}
				ana.Instrs(f, func(in ssa.Instruction) {
					var fa ssa.Value
					switch x := in.(type) {
					case *ssa.FieldAddr:
						fa = x
						if n := ana.NamedOf(x.X.Type()); n != nil && n.Obj().Name() == tn {
							if s := structOf(x.X.Type()); s != nil {
								consumed[s.Field(x.Field).Name()] = true
							}
						}
					case *ssa.Field:
						if n := ana.NamedOf(x.X.Type()); n != nil && n.Obj().Name() == tn {
							if s := structOf(x.X.Type()); s != nil {
								consumed[s.Field(x.Field).Name()] = true
							}
						}
					}
					_ = fa
				})
			}
			for _, fld := range eventFields(named) {
				key := mod + ":" + tn + "." + fld
				r.Check(populated[fld], "C15.field-roundtrip", "export:"+key, p.Pos(exp.Pos()), "populated by ExportGenesis", key+" is never populated by ExportGenesis")
				r.Check(consumed[fld], "C15.field-roundtrip", "import:"+key, p.Pos(imp.Pos()), "consumed by InitGenesis", key+" is never read by InitGenesis")
			}
		}
	}

	// ---- export-own-state ------------------------------------------------------------------------
	// what is exported is the module's own store: an export that consults staking or bank state (is the validator
	// still bonded? does the account still exist?) leaves out entries the running chain still holds
	r.Min("C15.export-own-state", 4)
	nForeign := 0
	for _, fn := range sortedFuncs(expReach) {
		if p.L.IsGenerated(fn.Pos()) || !p.IsModule(fn) {
			continue
		}
		ana.Calls(fn, func(site ssa.CallInstruction, d ana.CalleeDesc) {
			if d.Iface && (d.Recv == "StakingKeeper" || d.Recv == "BankKeeper" || d.Recv == "AccountKeeper") {
				nForeign++
				r.Bad("C15.export-own-state", fname(fn)+":"+d.Recv+"."+d.Name, c.pos(site.(ssa.Instruction)), "code reached by ExportGenesis calls "+d.Recv+"."+d.Name+": the exported state then depends on another module's state at export time, and entries filtered by it are missing after the restart")
			}
		})
	}
	if nForeign == 0 {
		r.Ok("C15.export-own-state", "all", "-", sprintf("no staking / bank / account keeper call in %d functions reachable from ExportGenesis", len(expReach)))
	}

	// ---- export-every-chain ----------------------------------------------------------------------
	// the per-chain state is appended for every chain the export loop visits: no path of the loop body skips
	// the append (a chain left out of the export restarts with empty cursors and replays its events)
	for _, ef := range roots.ExportGen {
		if !inPkg(ef, "mhub2/keeper") {
			continue
		}
		var app *ssa.Call
		ana.Instrs(ef, func(in ssa.Instruction) {
			call, ok := in.(*ssa.Call)
			if !ok || in.Parent() != ef {
				return
			}
			if b, ok := call.Call.Value.(*ssa.Builtin); ok && b.Name() == "append" {
				if el, ok := call.Type().Underlying().(*types.Slice); ok {
					if n := ana.NamedOf(el.Elem()); n != nil && n.Obj().Name() == "ExternalState" {
						app = call
					}
				}
			}
		})
		if app == nil {
			r.Undecided("C15.export-own-state", "every-chain:"+fname(ef), p.Pos(ef.Pos()), "no append of a per-chain ExternalState found in the export")
			continue
		}
		// loop header: the innermost block that dominates the append and is reachable from it
		var h *ssa.BasicBlock
		for _, b := range ef.Blocks {
			if b != app.Block() && b.Dominates(app.Block()) && reachFromTo(app.Block(), b) {
				if h == nil || h.Dominates(b) {
					h = b
				}
			}
		}
		okAll := h != nil
		where := ""
		if h != nil {
			for _, s := range h.Succs {
				if !reachFromTo(s, h) {
					continue
				}
				seen := map[*ssa.BasicBlock]bool{}
				stack := []*ssa.BasicBlock{s}
				for len(stack) > 0 {
					x := stack[len(stack)-1]
					stack = stack[:len(stack)-1]
					if seen[x] || x == app.Block() {
						continue
					}
					seen[x] = true
					if x == h {
						okAll = false
						continue
					}
					// a path that ends in a panic does not skip the chain silently
					stack = append(stack, x.Succs...)
				}
			}
			where = c.pos(app)
		}
		r.Check(okAll, "C15.export-own-state", "every-chain:"+fname(ef), where, "every chain visited by the export loop gets its state appended",
			"the export loop can skip a chain (a path returns to the loop header without appending the chain's state): that chain restarts without its event cursors, pool and delegate keys")
	}

	// ---- no aliased loop variable in export / import ---------------------------------------------
	// (the module is built with pre-1.22 loop semantics: one variable for all iterations) taking the address of
	// a loop variable and keeping it makes every kept pointer refer to the last element
	gen := map[*ssa.Function]bool{}
	for f := range expReach {
		gen[f] = true
	}
	for f := range impReach {
		gen[f] = true
	}
	nAlias := 0
	for _, f := range sortedFuncs(gen) {
		if p.L.IsGenerated(f.Pos()) || !p.IsModule(f) {
			continue
		}
		for _, a := range allocsIn(f) {
			if !a.Heap {
				continue
			}
			// written inside a cycle that does not contain the allocation
			var loopStore *ssa.Store
			for _, ref := range *a.Referrers() {
				if st, ok := ref.(*ssa.Store); ok && st.Addr == ssa.Value(a) {
					if reachFromTo2(st.Block(), st.Block()) && !reachFromTo2(st.Block(), a.Block()) {
						loopStore = st
					}
				}
			}
			if loopStore == nil {
				continue
			}
			// ... and its address is kept in that cycle
			for _, ref := range *a.Referrers() {
				kept := false
				switch x := ref.(type) {
				case *ssa.Store:
					kept = x.Val == ssa.Value(a)
				case *ssa.MakeInterface:
					kept = true
				case *ssa.MapUpdate:
					kept = x.Value == ssa.Value(a)
				}
				if kept && reachFromTo2(ref.Block(), ref.Block()) && !reachFromTo2(ref.Block(), a.Block()) {
					nAlias++
					r.Bad("C15.export-own-state", "loopvar:"+fname(f)+":"+a.Comment, c.pos(ref), "the address of the loop variable "+a.Comment+" is kept across iterations (one variable for the whole loop): every kept pointer ends up referring to the last element, so the state of all but one chain / entry is lost")
				}
			}
		}
	}
	if nAlias == 0 {
		r.Ok("C15.export-own-state", "loopvar", "-", "no address of a loop variable is kept in export / import code")
	}
	// filtering a slice in place (s[:0] + append) overwrites the backing array of s; when s is a field of something
	// that is exported as well, the exported value is corrupted
	nInPlace := 0
	for _, f := range sortedFuncs(expReach) {
		if p.L.IsGenerated(f.Pos()) || !p.IsModule(f) {
			continue
		}
		ana.Instrs(f, func(in ssa.Instruction) {
			sl, ok := in.(*ssa.Slice)
			if !ok || sl.Low != nil || sl.High == nil || !isConstVal(sl.High, "0") {
				return
			}
			if _, isField := rootAndPath(sl.X); isField == "" {
				return
			}
			appended := false
			var follow func(v ssa.Value, depth int)
			follow = func(v ssa.Value, depth int) {
				if depth > 4 {
					return
				}
				for _, ref := range *v.Referrers() {
					switch x := ref.(type) {
					case *ssa.Call:
						if b, ok := x.Call.Value.(*ssa.Builtin); ok && b.Name() == "append" && len(x.Call.Args) > 0 && x.Call.Args[0] == v {
							appended = true
						}
					case *ssa.Phi:
						follow(x, depth+1)
					}
				}
			}
			follow(sl, 0)
			if appended {
				nInPlace++
				r.Bad("C15.export-own-state", "in-place:"+fname(f), c.pos(sl), "a slice held in a field is filtered in place (field[:0] followed by append): the field's backing array is overwritten, so the exported value of that field is corrupted (entries duplicated / dropped)")
			}
		})
	}
	if nInPlace == 0 {
		r.Ok("C15.export-own-state", "in-place", "-", "no field-held slice is filtered in place in export code")
	}

	// ---- faithful-import -------------------------------------------------------------------------
	var imp *ssa.Function
	for _, f := range roots.InitGen {
		if inPkg(f, "mhub2/keeper") {
			imp = f
		}
	}
	if imp == nil {
		r.Undecided("C15.faithful-import", "InitGenesis", "-", "mhub2 InitGenesis not found")
		return
	}
	// (1) outgoing txs: the import must not go through a function that re-stamps the sequence
	restamp := ""
	ana.Calls(imp, func(site ssa.CallInstruction, d ana.CalleeDesc) {
		for _, callee := range p.Callees(site) {
			if !hasEff(c.Effects(callee), "store", "Set", "OutgoingTxKey") {
				continue
			}
			ana.Calls(callee, func(s2 ssa.CallInstruction, d2 ana.CalleeDesc) {
				if d2.Name == "SetSequence" {
					restamp = c.pos(site.(ssa.Instruction))
				}
			})
		}
	})
	r.Check(restamp == "", "C15.faithful-import", "outgoing-sequence", p.Pos(imp.Pos()), "imported outgoing txs keep their exported Sequence", "InitGenesis stores imported outgoing txs through the function that stamps a fresh sequence number (call at "+restamp+"): exported Sequence values are replaced and the counter advances")
	// (2) confirmations under their validator
	emptyVal := ""
	ana.Calls(imp, func(site ssa.CallInstruction, d ana.CalleeDesc) {
		for _, callee := range p.Callees(site) {
			if !hasEff(c.Effects(callee), "store", "Set", "ExternalSignatureKey") {
				continue
			}
			for _, a := range site.Common().Args {
				if n := ana.NamedOf(a.Type()); n != nil && n.Obj().Name() == "ValAddress" {
					l := p.Leaves(a, ana.PVOpt{})
					if !l.HasPrefix("field:") && !l.HasPrefix("call:") {
						emptyVal = c.pos(site.(ssa.Instruction))
					}
				}
			}
		}
	})
	r.Check(emptyVal == "", "C15.faithful-import", "confirmation-validator", p.Pos(imp.Pos()), "imported confirmations are stored under their validator", "InitGenesis files every imported confirmation under an empty validator address (call at "+emptyVal+")")
	// (3) CosmosHeight of the observed height
	lossy := ""
	ana.Calls(imp, func(site ssa.CallInstruction, d ana.CalleeDesc) {
		for _, callee := range p.Callees(site) {
			if !hasEff(c.Effects(callee), "store", "Set", "LastExternalBlockHeightKey") {
				continue
			}
			// the callee builds LatestBlockHeight{CosmosHeight: ctx.BlockHeight()}
			for _, a := range allocsOfType(callee, "LatestBlockHeight") {
				for _, v := range ana.FieldStores(a)["CosmosHeight"] {
					if p.Leaves(v, ana.PVOpt{}).HasCall("Context.BlockHeight") {
						lossy = c.pos(site.(ssa.Instruction))
					}
				}
			}
		}
	})
	r.Check(lossy == "", "C15.faithful-import", "cosmos-height", p.Pos(imp.Pos()), "the imported LatestBlockHeight keeps its CosmosHeight", "InitGenesis replaces the exported CosmosHeight of the last observed external height by the import block height (call at "+lossy+"): batch timeouts are projected from a wrong base")

	// (4) imports are unconditional: a write that restores an exported field may depend only on the range
	// loops it sits in, on a nil test of its own source field, and on validation panics
	c.checkUnconditionalImport(imp, 8)
	for _, f := range roots.InitGen {
		if inPkg(f, "oracle/keeper") {
			c.checkUnconditionalImport(f, 2)
		}
	}
	// (5) no cross-wiring: when a setter called by the import rebuilds a stored struct T from scalar arguments,
	// the value placed in T.X must not be another field T.Y of the imported T
	for _, f := range roots.InitGen {
		c.checkImportCrossWiring(f)
	}
}

// leafField names the struct type and field a provenance leaf value was read from.
func leafField(v ssa.Value) (*types.Named, string) {
	switch x := v.(type) {
	case *ssa.Field:
		if st := structOf(x.X.Type()); st != nil {
			return ana.NamedOf(x.X.Type()), st.Field(x.Field).Name()
		}
	case *ssa.UnOp:
		if fa, ok := x.X.(*ssa.FieldAddr); ok {
			if st := structOf(fa.X.Type()); st != nil {
				return ana.NamedOf(fa.X.Type()), st.Field(fa.Field).Name()
			}
		}
	case *ssa.FieldAddr:
		if st := structOf(x.X.Type()); st != nil {
			return ana.NamedOf(x.X.Type()), st.Field(x.Field).Name()
		}
	}
	return nil, ""
}

func (c *Ctx) checkImportCrossWiring(imp *ssa.Function) {
	p, r := c.P, c.R
	ana.Calls(imp, func(site ssa.CallInstruction, d ana.CalleeDesc) {
		for _, callee := range p.Callees(site) {
			writes := false
			for _, e := range c.Effects(callee) {
				if e.Kind == "store" && e.Op == "Set" {
					writes = true
				}
			}
			if !writes || callee.Blocks == nil {
				continue
			}
			for _, a := range allocsIn(callee) {
				tn := ana.NamedOf(a.Type())
				if tn == nil || structOf(a.Type()) == nil {
					continue
				}
				for fld, vals := range ana.FieldStores(a) {
					for _, v := range vals {
						l := p.LeavesAt(v, site, ana.PVOpt{})
						same, other := false, ""
						for _, lv := range l.Vals {
							for _, x := range lv {
								if n, f := leafField(x); n != nil && n.Obj() == tn.Obj() {
									if f == fld {
										same = true
									} else {
										other = f
									}
								}
							}
						}
						if other != "" && !same {
							r.Bad("C15.faithful-import", "cross-wired:"+tn.Obj().Name()+"."+fld, c.pos(site.(ssa.Instruction)), sprintf("the import restores %s.%s from the exported %s.%s: after a restart the module continues from a value the original chain never had in that place", tn.Obj().Name(), fld, tn.Obj().Name(), other))
						} else if same {
							r.Ok("C15.faithful-import", "cross-wired:"+tn.Obj().Name()+"."+fld, c.pos(site.(ssa.Instruction)), sprintf("%s.%s restored from the exported %s.%s", tn.Obj().Name(), fld, tn.Obj().Name(), fld))
						}
					}
				}
			}
		}
	})
}

// checkUnconditionalImport implements clause (4) of C15.faithful-import.
func (c *Ctx) checkUnconditionalImport(imp *ssa.Function, minN int) {
	p, r := c.P, c.R
	// DAG reachability (back edges removed)
	isBack := func(from, to *ssa.BasicBlock) bool { return to.Dominates(from) }
	reach := func(from, to *ssa.BasicBlock) bool {
		seen := map[*ssa.BasicBlock]bool{}
		stack := []*ssa.BasicBlock{from}
		for len(stack) > 0 {
			b := stack[len(stack)-1]
			stack = stack[:len(stack)-1]
			if seen[b] {
				continue
			}
			seen[b] = true
			if b == to {
				return true
			}
			for _, s := range b.Succs {
				if !isBack(b, s) {
					stack = append(stack, s)
				}
			}
		}
		return false
	}
	endsInPanic := func(b *ssa.BasicBlock) bool {
		seen := map[*ssa.BasicBlock]bool{}
		for b != nil && !seen[b] {
			seen[b] = true
			if len(b.Instrs) == 0 {
				return false
			}
			switch b.Instrs[len(b.Instrs)-1].(type) {
			case *ssa.Panic:
				return true
			case *ssa.Jump:
				b = b.Succs[0]
				continue
			}
			return false
		}
		return false
	}
	n := 0
	ana.Calls(imp, func(site ssa.CallInstruction, d ana.CalleeDesc) {
		in := site.(ssa.Instruction)
		var prefix string
		for _, callee := range p.Callees(site) {
			for _, e := range c.Effects(callee) {
				if e.Kind == "store" && e.Op == "Set" && e.Prefix != "" {
					prefix = e.Prefix
				}
			}
		}
		// ... or the store write itself (a setter written in place)
		if prefix == "" {
			for _, op := range p.StoreOps(imp) {
				if op.Site == site && op.Op == "Set" {
					prefix = c.prefixName(op)
				}
			}
		}
		if prefix == "" {
			return
		}
		// source fields of the written values
		src := map[string]bool{}
		srcArgs := append([]ssa.Value{}, site.Common().Args...)
		for _, a := range site.Common().Args {
			// a value marshalled in place: what is marshalled
			if mc, ok := a.(*ssa.Call); ok {
				if md, okd := ana.Describe(&mc.Call); okd && strings.Contains(md.Name, "Marshal") {
					srcArgs = append(srcArgs, mc.Call.Args...)
				}
			}
		}
		for _, a := range srcArgs {
			l := p.Leaves(a, ana.PVOpt{})
			// elements of a ranged genesis collection: add the collection's field
			for _, vals := range l.Vals {
				for _, v := range vals {
					root, _ := rootAndPath(v)
					if ld, ok := root.(*ssa.UnOp); ok {
						if ia, ok := ld.X.(*ssa.IndexAddr); ok {
							for _, f := range p.Leaves(ia.X, ana.PVOpt{}).Fields() {
								if strings.HasPrefix(f, "ExternalState.") || strings.HasPrefix(f, "GenesisState.") {
									parts := strings.Split(f, ".")
									src[parts[0]+"."+parts[1]] = true
								}
							}
						}
					}
				}
			}
			for _, f := range l.Fields() {
				if strings.HasPrefix(f, "ExternalState.") || strings.HasPrefix(f, "GenesisState.") {
					parts := strings.Split(f, ".")
					src[parts[0]+"."+parts[1]] = true
				}
			}
		}
		delete(src, "ExternalState.ChainId")
		if len(src) == 0 {
			return
		}
		// per-validator nonces derived from vote records are a max-merge: the write may additionally depend on a
		// comparison with the value already stored under the same prefix (condition (iv) below)
		maxMerge := src["ExternalState.ExternalEventVoteRecords"] && prefix == "LastEventNonceByValidatorKey"
		n++
		bad := ""
		for _, b := range imp.Blocks {
			if len(b.Instrs) == 0 || len(b.Succs) != 2 {
				continue
			}
			iff, ok := b.Instrs[len(b.Instrs)-1].(*ssa.If)
			if !ok {
				continue
			}
			r0 := !isBack(b, b.Succs[0]) && reach(b.Succs[0], in.Block())
			r1 := !isBack(b, b.Succs[1]) && reach(b.Succs[1], in.Block())
			if b == in.Block() || r0 == r1 {
				continue
			}
			if !reach(imp.Blocks[0], b) {
				continue
			}
			cd := ana.NormCond(iff.Cond)
			// (i) range loop
			if bo, ok := iff.Cond.(*ssa.BinOp); ok && bo.Op == token.LSS {
				if call, ok := bo.Y.(*ssa.Call); ok {
					if bl, ok := call.Call.Value.(*ssa.Builtin); ok && bl.Name() == "len" {
						continue
					}
				}
			}
			// (iii) validation panic on the other branch
			other := b.Succs[0]
			if r0 {
				other = b.Succs[1]
			}
			if endsInPanic(other) {
				continue
			}
			// (ii) nil test of its own source field
			if (cd.Op == token.EQL || cd.Op == token.NEQ) && (ana.IsNilConst(cd.X) || ana.IsNilConst(cd.Y)) {
				v := cd.X
				if ana.IsNilConst(v) {
					v = cd.Y
				}
				own := false
				for _, f := range p.Leaves(v, ana.PVOpt{}).Fields() {
					parts := strings.Split(f, ".")
					if len(parts) >= 2 && src[parts[0]+"."+parts[1]] {
						own = true
					}
				}
				if own {
					continue
				}
			}
			// (iv) max-merge: an ordering comparison between the source value and a read of the written prefix
			if maxMerge && (cd.Op == token.GTR || cd.Op == token.LSS || cd.Op == token.GEQ || cd.Op == token.LEQ) {
				readsSame := false
				for _, v := range []ssa.Value{cd.X, cd.Y} {
					for _, vals := range p.Leaves(v, ana.PVOpt{Opaque: func(d ana.CalleeDesc) bool { return true }}).Vals {
						for _, x := range vals {
							if call, _ := ana.UnwrapCall(x); call != nil {
								for _, callee := range p.Callees(call) {
									if hasEff(c.Effects(callee), "store", "Get", prefix) {
										readsSame = true
									}
								}
							}
						}
					}
				}
				if readsSame {
					continue
				}
			}
			bad = c.pos(iff) + " [" + iff.Cond.String() + " = " + p.Expr(iff.Cond, 0) + "]"
		}
		var fl []string
		for f := range src {
			fl = append(fl, f)
		}
		sort.Strings(fl)
		// the setter itself stores on every path: a guard inside it (e.g. "only if larger than what is stored")
		// makes the restore depend on what the store holds while the import is running
		if bad == "" {
			for _, callee := range p.Callees(site) {
				if callee.Blocks == nil || len(callee.Blocks) < 2 {
					continue
				}
				var sets []ssa.Instruction
				for _, op := range p.StoreOps(callee) {
					if op.Op == "Set" && c.prefixName(op) == prefix {
						sets = append(sets, op.Site.(ssa.Instruction))
					}
				}
				if len(sets) == 0 || len(callee.Blocks[0].Instrs) == 0 {
					continue
				}
				if okAll, ret := ana.MustPassBefore(callee.Blocks[0].Instrs[0], sets, false); !okAll && ret != nil {
					bad = c.pos(ret) + " [inside " + fname(callee) + ": a return is reachable without the write]"
				}
			}
		}
		r.Check(bad == "", "C15.faithful-import", "unconditional:"+prefix+"<-"+strings.Join(fl, "+"), c.pos(in), "restored unconditionally (range loops, own nil test and validation panics only)",
			"the import of "+strings.Join(fl, "+")+" into "+prefix+" depends on the condition at "+bad+": for some exported states the value is silently not restored")
	})
	if n < minN {
		r.Undecided("C15.faithful-import", "unconditional:"+fname(imp), p.Pos(imp.Pos()), sprintf("only %d import writes recognised, expected at least %d", n, minN))
	}
}

// reachFromTo2: to is reachable from a successor of from (from == to asks whether the block lies on a cycle).
func reachFromTo2(from, to *ssa.BasicBlock) bool {
	for _, s := range from.Succs {
		if reachFromTo(s, to) {
			return true
		}
	}
	return false
}
