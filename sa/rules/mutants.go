package rules

import (
	"bytes"
	"fmt"
	"os"
	"os/exec"
	"path/filepath"
	"regexp"
	"sort"
	"strings"
	"sync"

	"mhubsa/load"
)

// Mutant is one textual mutation operator of the sensitivity suite: a single regex edit of one
// source file that breaks a clause of the property while the module still type-checks.  Mutants are
// applied through a go/packages overlay in a child process; nothing is written below /repo.
type Mutant struct {
	ID       string
	Property string
	File     string // relative to the repository root
	Pattern  string // must match exactly once
	Replace  string
	Expect   string // rule id (prefix) that must report the mutant
	What     string
}

var mutants = []Mutant{
	// C01
	{"C01-refund-unconverted", "C01", "module/x/mhub2/keeper/pool.go", `totalToRefund\.Amount = k\.ConvertFromExternalValue\(ctx, chainId, send\.Token\.ExternalTokenId, totalToRefund\.Amount\)\n`, ``, "C01.refund-amount", "refund minted without converting to hub units"},
	{"C01-refund-fee-twice", "C01", "module/x/mhub2/keeper/pool.go", `Add\(send\.Fee\.Amount\)\.Add\(send\.ValCommission\.Amount\)`, `Add(send.Fee.Amount).Add(send.Fee.Amount)`, "C01.refund-amount", "refund adds the fee twice instead of the commission"},
	{"C01-payout-token", "C01", "module/x/mhub2/keeper/batch.go", `totalFee\.Amount = totalFee\.Amount\.Add\(tx\.Fee\.Amount\)`, `totalFee.Amount = totalFee.Amount.Add(tx.Token.Amount)`, "C01.payout-amount", "execution payout sums the transferred amounts"},
	{"C01-commit-always", "C01", "module/x/mhub2/keeper/external_event_vote.go", `\} else \{\n\t\tcommit\(\) // persist transient storage\n\t\}`, "}\n\tcommit()", "C01.event-atomic", "commit regardless of the handler error"},
	{"C01-burn-amount-only", "C01", "module/x/mhub2/keeper/pool.go", `k\.bankKeeper\.BurnCoins\(ctx, types\.ModuleName, totalInVouchers\)`, `k.bankKeeper.BurnCoins(ctx, types.ModuleName, sdk.Coins{amount})`, "C01.burn-then-record", "burns only the amount, not fee and commission"},
	{"C01-deposit-unconverted", "C01", "module/x/mhub2/keeper/external_event_handler.go", `coins := sdk\.Coins\{sdk\.NewCoin\(tokenInfo\.Denom, convertedAmount\)\}`, `coins := sdk.Coins{sdk.NewCoin(tokenInfo.Denom, event.Amount)}`, "C01.deposit-amount", "deposit minted in external units"},
	{"C01-mint-amount-plus-fee", "C01", "module/x/mhub2/keeper/external_event_handler.go", `(CosmosReceiver: receiver\.String\(\),\n\t\t\t\tExternalHeight: event\.ExternalHeight,)`, "$1", "", "placeholder (no-op) – replaced below"},
	// C02
	{"C02-not-bonded", "C02", "module/x/mhub2/keeper/msg_server.go", `\} else if !validatorI\.IsBonded\(\) \{`, `} else if validatorI.IsJailed() {`, "C02.signer-bonded", "bonded check replaced"},
	{"C02-threshold-50", "C02", "module/x/mhub2/types/genesis.go", `sdk\.NewInt\(66\)\.Mul`, `sdk.NewInt(50).Mul`, "C02.quorum-guard", "threshold lowered to 50%"},
	{"C02-quorum-inverted", "C02", "module/x/mhub2/keeper/external_event_vote.go", `if eventVotePower\.GTE\(requiredPower\)`, `if eventVotePower.LTE(requiredPower)`, "C02.quorum-guard", "quorum comparison inverted"},
	{"C02-nonce-not-stored", "C02", "module/x/mhub2/keeper/external_event_vote.go", `k\.setLastEventNonceByValidator\(ctx, chainId, val, event\.GetEventNonce\(\)\)\n\n\treturn eventVoteRecord`, `return eventVoteRecord`, "C02.one-vote", "per-validator nonce not stored"},
	{"C02-power-doubled", "C02", "module/x/mhub2/keeper/external_event_vote.go", `validatorPower := k\.StakingKeeper\.GetLastValidatorPower\(ctx, val\)`, `validatorPower := k.StakingKeeper.GetLastValidatorPower(ctx, val) * 2`, "C02.quorum-guard", "vote power doubled"},
	{"C02-divide-first", "C02", "module/x/mhub2/types/genesis.go", `sdk\.NewInt\(66\)\.Mul\(totalPower\)\.Quo\(sdk\.NewInt\(100\)\)`, `totalPower.Quo(sdk.NewInt(100)).Mul(sdk.NewInt(66))`, "C02.quorum-guard", "threshold divides before multiplying"},
	// C03
	{"C03-tally-ge", "C03", "module/x/mhub2/abci.go", `if nonce == uint64\(k\.GetLastObservedEventNonce\(ctx, chainId\)\)\+1 \{`, `if nonce >= uint64(k.GetLastObservedEventNonce(ctx, chainId))+1 {`, "C03.tally-order", "tally accepts any later nonce"},
	{"C03-apply-lt", "C03", "module/x/mhub2/keeper/external_event_vote.go", `if event\.GetEventNonce\(\) != lastEventNonce\+1 \{`, `if event.GetEventNonce() < lastEventNonce+1 {`, "C03.nonce-writer", "apply backstop weakened"},
	{"C03-accepted-not-set", "C03", "module/x/mhub2/keeper/external_event_vote.go", `\t\t\t\teventVoteRecord\.Accepted = true\n`, ``, "C03.accepted-first", "Accepted flag not set"},
	{"C03-no-accepted-guard", "C03", "module/x/mhub2/keeper/external_event_vote.go", `if !eventVoteRecord\.Accepted \{`, `if true {`, "C03.accepted-first", "already accepted records re-applied"},
	// C04
	{"C04-no-pool-delete", "C04", "module/x/mhub2/keeper/batch.go", `\t\tk\.deleteUnbatchedSendToExternal\(ctx, chainId, ste\.Id, ste\.Fee\)\n`, ``, "C04", "batched transfer stays in the pool"},
	{"C04-wrong-key", "C04", "module/x/mhub2/keeper/batch.go", `ste\.Id, ste\.Fee\)`, `ste.Id, ste.Token)`, "C04.key-agreement", "pool delete uses the token instead of the fee"},
	{"C04-cancel-keeps-batch", "C04", "module/x/mhub2/keeper/batch.go", `\t// Delete batch since it is finished\n\tk\.DeleteOutgoingTx\(ctx, chainId, batch\.GetStoreIndex\(chainId\)\)\n`, ``, "C04", "cancelled batch not deleted"},
	{"C04-refund-keeps-entry", "C04", "module/x/mhub2/keeper/pool.go", `\tk\.deleteUnbatchedSendToExternal\(ctx, chainId, send\.Id, send\.Fee\)\n\treturn nil`, "\treturn nil", "C04", "refunded entry stays in the pool"},
	{"C04-status-not-final", "C04", "module/x/mhub2/keeper/tx_status.go", `newStatusType = types\.TX_STATUS_REFUNDED`, `newStatusType = status`, "C04.status-final", "REFUNDED no longer final"},
	{"C04-id-not-incremented", "C04", "module/x/mhub2/keeper/pool.go", `newId := id \+ 1`, `newId := id`, "C04.unique-id", "transfer id not incremented"},
	// C05
	{"C05-no-recover", "C05", "module/x/mhub2/keeper/external_event_vote.go", `\tdefer func\(\) \{\n\t\tif r := recover\(\); r != nil \{\n\t\t\terr = sdkerrors\.Wrapf\(types\.ErrInvalid, "panic while applying external event: %v", r\)\n\t\t\}\n\t\}\(\)\n`, ``, "C05.contain", "recover boundary removed"},
	{"C05-repanic", "C05", "module/x/oracle/keeper/attestation.go", `err = sdkerrors\.Wrapf\(types\.ErrInvalid, "panic while applying attestation: %v", r\)`, `panic(r)`, "C05.contain", "recover re-panics"},
	{"C05-refund-in-iterator", "C05", "module/x/mhub2/abci.go", `expired = append\(expired, ste\)`, `expired = append(expired, ste); k.OnOutgoingTransactionTimeouts(ctx, chainId, ste.Id, ste.Sender)`, "C05.iter-nesting", "refund inside the open pool iterator"},
	{"C05-minter-cancel", "C05", "module/x/mhub2/abci.go", `\t\tif chainId != "minter" \{\n\t\t\tcleanupTimedOutBatchTxs\(ctx, chainId, k\)\n\t\t\}`, "\t\tcleanupTimedOutBatchTxs(ctx, chainId, k)", "C05.minter-cancel", "timeout sweep also for Minter"},
	{"C05-iterator-leak", "C05", "module/x/mhub2/keeper/pool.go", `(func \(k Keeper\) iterateUnbatchedSendToExternalsByCoin[^\n]*\n[^\n]*\n)\tdefer iter\.Close\(\)\n`, "$1", "C05.iter-nesting", "iterator never closed"},
	// C06
	{"C06-unsorted-ids", "C06", "module/x/mhub2/abci.go", `\t\tsort\.Strings\(ids\)\n`, ``, "C06.map-range", "batch creation in map order"},
	{"C06-unsorted-prices", "C06", "module/x/oracle/keeper/attestation_handler.go", `\t\tsort\.Strings\(priceNames\)\n`, ``, "C06.map-range", "prices stored in map order"},
	{"C06-holders-minority", "C06", "module/x/oracle/keeper/attestation_handler.go", `if votes > math\.MaxUint16\*2/3 \{`, `if votes > math.MaxUint16/3 {`, "C06.map-range", "minority threshold makes the first key in map order win"},
	{"C06-wall-clock", "C06", "module/x/mhub2/abci.go", `Before\(ctx\.BlockTime\(\)\)`, `Before(time.Now())`, "C06.sources", "expiry compared with the wall clock"},
	// C07
	{"C07-swap-amounts-fees", "C07", "module/x/mhub2/types/outgoing_tx.go", `txAmounts,\n\t\ttxDestinations,\n\t\ttxFees,`, "txFees,\n\t\ttxDestinations,\n\t\ttxAmounts,", "C07.field-map", "amounts and fees swapped in the batch digest"},
	{"C07-salt", "C07", "module/x/mhub2/types/outgoing_tx.go", `methodNameBytes := \[\]uint8\("transactionBatch"\)`, `methodNameBytes := []uint8("transactionBatchs")`, "C07.salts", "batch salt changed"},
	{"C07-keep-selector", "C07", "module/x/mhub2/types/outgoing_tx.go", `abiEncodedCall\[4:\]`, `abiEncodedCall[:]`, "C07.pack", "selector not dropped"},
	{"C07-prefix", "C07", "module/x/mhub2/types/ethereum_signer.go", `Signed Message:\\n32"`, `Signed Message:\n64"`, "C07.eip191", "EIP-191 prefix changed"},
	{"C07-abi-json-order", "C07", "module/x/mhub2/types/abi_json.go", `(?s)(\{ "internalType": "uint256\[\]", "name": "_amounts", "type": "uint256\[\]" \},)`, "$1", "", "placeholder"},
	// C08
	{"C08-unhandled-kind", "C08", "module/x/mhub2/keeper/external_event_handler.go", `\tcase \*types\.ContractCallExecutedEvent:\n\t\ta\.keeper\.AfterContractCallExecutedEvent\(ctx, \*event\)\n\t\treturn nil\n`, ``, "C08.event-kinds", "contract-call event no longer handled"},
	{"C08-attribution", "C08", "module/x/mhub2/keeper/grpc_query.go", `ExternalSigner:  k\.GetValidatorExternalAddress\(ctx, chainId, val\)\.Hex\(\)`, `ExternalSigner:  common.BytesToAddress(val).Hex()`, "C08.attribution", "signature attributed to the validator address bytes"},
	// C09
	{"C09-total-outside", "C09", "module/x/mhub2/keeper/keeper.go", `\t\t\texternalSigners = append\(externalSigners, es\)\n\t\t\ttotalPower \+= p\n\t\t\}`, "\t\t\texternalSigners = append(externalSigners, es)\n\t\t}\n\t\ttotalPower += p", "C09.membership", "divisor counts validators without a key"},
	{"C09-ascending", "C09", "module/x/mhub2/types/types.go", `return b\[i\]\.Power > b\[j\]\.Power`, `return b[i].Power < b[j].Power`, "C09.sorted", "signers sorted ascending"},
	{"C09-drift-50", "C09", "module/x/mhub2/abci.go", `powerDiff > 0\.05`, `powerDiff > 0.5`, "C09.freshness-trigger", "drift threshold raised to 50%"},
	{"C09-nonce-reuse", "C09", "module/x/mhub2/keeper/keeper.go", `next := current \+ 1\n`, "next := current\n", "C09.nonce", "signer-set nonce not incremented"},
	// C10
	{"C10-cap-gt", "C10", "module/x/mhub2/keeper/batch.go", `return len\(selectedStes\) == maxElements`, `return len(selectedStes) > maxElements`, "C10.cap", "selection stops one element too late"},
	{"C10-no-empty-guard", "C10", "module/x/mhub2/keeper/batch.go", `\tif len\(selectedStes\) == 0 \{\n\t\treturn nil\n\t\}\n`, ``, "C10.non-empty", "empty batch stored"},
	{"C10-no-token-filter", "C10", "module/x/mhub2/keeper/pool.go", `\t\tif ste\.Token\.ExternalTokenId != externalTokenId \{\n\t\t\tcontinue\n\t\t\}\n`, ``, "C10.own-token", "token filter removed"},
	{"C10-forward-iterator", "C10", "module/x/mhub2/keeper/pool.go", `\[\]byte\(externalTokenId\)\}, \[\]byte\{\}\)\)\.ReverseIterator\(nil, nil\)`, `[]byte(externalTokenId)}, []byte{})).Iterator(nil, nil)`, "C10.fee-order", "lowest fee first"},
	{"C10-caller-200", "C10", "module/x/mhub2/abci.go", `k\.BuildBatchTx\(ctx, chainId, id, 100\)`, `k.BuildBatchTx(ctx, chainId, id, 200)`, "C10.cap", "automatic batching asks for 200 transfers"},
	// C11
	{"C11-discount-160", "C11", "module/x/mhub2/keeper/keeper.go", `commission\.MulInt64\(60\)`, `commission.MulInt64(160)`, "C11.commission-bound", "discount above 100%"},
	{"C11-divide-first", "C11", "module/x/mhub2/keeper/keeper.go", `result\.Mul\(result, to\)\n\tresult\.Div\(result, from\)`, "result.Div(result, from)\n\tresult.Mul(result, to)", "C11.convert-truncates", "converter divides before multiplying"},
	{"C11-wrong-direction", "C11", "module/x/mhub2/keeper/keeper.go", `return convertDecimals\(HubDecimals, coin\.ExternalDecimals, amount\)`, `return convertDecimals(coin.ExternalDecimals, HubDecimals, amount)`, "C11.convert-truncates", "ConvertToExternalValue converts the wrong way"},
	{"C11-ceil", "C11", "module/x/mhub2/keeper/msg_server.go", `Mul\(msg\.Amount\.Amount\.Add\(msg\.BridgeFee\.Amount\)\.ToDec\(\)\)\.TruncateInt\(\)`, `Mul(msg.Amount.Amount.Add(msg.BridgeFee.Amount).ToDec()).Ceil().TruncateInt()`, "C11.commission-form", "commission rounded up"},
	{"C11-sum-holders", "C11", "module/x/mhub2/keeper/keeper.go", `maxValue = sdk\.MaxInt\(k\.oracleKeeper\.GetHolderValue\(ctx, address\), maxValue\)`, `maxValue = k.oracleKeeper.GetHolderValue(ctx, address).Add(maxValue)`, "C11.commission-bound", "holder values summed"},
	// C12
	{"C12-sender-inverted", "C12", "module/x/mhub2/keeper/pool.go", `if sender\.String\(\) != send\.Sender \{`, `if sender.String() == send.Sender {`, "C12.authorised", "sender check inverted"},
	{"C12-id-ge", "C12", "module/x/mhub2/keeper/pool.go", `if ste\.Id == id \{`, `if ste.Id >= id {`, "C12.authorised", "entry selected by id >= requested"},
	{"C12-refund-chain", "C12", "module/x/mhub2/keeper/pool.go", `types\.ChainID\(send\.RefundChainId\), types\.TempAddress, send\.RefundAddress`, `types.ChainID(send.ChainId), types.TempAddress, send.RefundAddress`, "C12.recipient", "cross-chain refund sent to the destination chain"},
	{"C12-no-timeout", "C12", "module/x/mhub2/abci.go", `time\.Unix\(int64\(ste\.CreatedAt\), 0\)\.Add\(k\.GetOutgoingTxTimeout\(ctx\)\)\.Before`, `time.Unix(int64(ste.CreatedAt), 0).Before`, "C12.expiry", "expiry ignores the timeout"},
	{"C12-refund-address-as-sender", "C12", "module/x/mhub2/abci.go", `ste\.Id, ste\.Sender\)`, `ste.Id, ste.RefundAddress)`, "C12.expiry", "sweep passes the refund address as sender"},
	// C13
	{"C13-projected-height", "C13", "module/x/mhub2/abci.go", `if btx\.Timeout < externalHeight \{\n\t\t\tk\.CancelBatchTx`, "if btx.Timeout < externalHeight+100 {\n\t\t\tk.CancelBatchTx", "C13.timeout-guard", "timeout compared with a projected height"},
	{"C13-timeout-inverted", "C13", "module/x/mhub2/abci.go", `if btx\.Timeout < externalHeight \{\n\t\t\tk\.CancelBatchTx`, "if btx.Timeout > externalHeight {\n\t\t\tk.CancelBatchTx", "C13.timeout-guard", "timeout comparison inverted"},
	{"C13-any-token", "C13", "module/x/mhub2/keeper/batch.go", `if \(btx\.BatchNonce < batchTx\.BatchNonce\) && \(btx\.ExternalTokenId == batchTx\.ExternalTokenId\) \{`, `if btx.BatchNonce < batchTx.BatchNonce {`, "C13.older-same-token", "older batches of other tokens cancelled"},
	{"C13-height-hoisted", "C13", "module/x/mhub2/keeper/external_event_vote.go", `(\t\trequiredPower := types\.EventVoteRecordPowerThreshold)`, "\t\tk.SetLastObservedExternalBlockHeight(ctx, chainId, event.GetExternalHeight())\n$1", "C13.timeout-guard", "observed height written before the quorum test"},
	// C14
	{"C14-amount-dropped", "C14", "module/x/mhub2/types/external_event.go", `\t\t\tsthe\.Amount\.BigInt\(\)\.Bytes\(\),\n`, ``, "C14.coverage", "deposit amount not hashed"},
	{"C14-receiver-lossy", "C14", "module/x/mhub2/types/external_event.go", `\[\]byte\(ttce\.ExternalReceiver\), // todo: check length \?`, `common.Hex2Bytes(ttce.ExternalReceiver),`, "C14.injective", "receiver hashed through Hex2Bytes"},
	{"C14-members-dropped", "C14", "module/x/mhub2/types/external_event.go", `\t\t\tExternalSigners\(sse\.Members\)\.Hash\(\),\n`, ``, "C14.coverage", "members not hashed"},
	{"C14-member-power-dropped", "C14", "module/x/mhub2/types/types.go", `out\.Write\(append\(common\.HexToAddress\(s\.ExternalAddress\)\.Bytes\(\), sdk\.Uint64ToBigEndian\(s\.Power\)\.\.\.\)\)`, `out.Write(common.HexToAddress(s.ExternalAddress).Bytes())`, "C14.coverage", "member power not hashed"},
	// C15
	{"C15-nonces-conditional", "C15", "module/x/mhub2/keeper/genesis.go", `\t\t\tk\.setLastEventNonceByValidator\(ctx, chainId, val, nonce\.LastEventNonce\)\n`, "\t\t\tif nonce.LastEventNonce > k.getLastEventNonceByValidator(ctx, chainId, val) {\n\t\t\t\tk.setLastEventNonceByValidator(ctx, chainId, val, nonce.LastEventNonce)\n\t\t\t}\n", "C15.faithful-import", "per-validator nonce restored conditionally"},
	{"C15-sequence-not-exported", "C15", "module/x/mhub2/keeper/genesis.go", `\t\t\tSequence:                 k\.getOutgoingSequence\(ctx, chainId\),\n`, ``, "C15", "outgoing sequence not exported"},
	{"C15-sequence-not-imported", "C15", "module/x/mhub2/keeper/genesis.go", `\t\tk\.setOutgoingSequence\(ctx, chainId, externalState\.Sequence\)\n`, ``, "C15", "outgoing sequence not imported"},
	{"C15-prices-not-imported", "C15", "module/x/oracle/keeper/genesis.go", `\tif data\.Prices != nil \{\n\t\tk\.storePrices\(ctx, data\.Prices\)\n\t\}\n`, ``, "C15", "prices not imported"},
	// C16
	{"C16-signer-unchecked", "C16", "module/x/mhub2/keeper/msg_server.go", `if ethAddress != confirmation\.GetSigner\(\) \{`, `if (ethAddress == common.Address{}) {`, "C16.guards", "claimed signer not compared with the registered address"},
	{"C16-duplicate-other-key", "C16", "module/x/mhub2/keeper/msg_server.go", `confirmation\.GetStoreIndex\(chainId\), val\) != nil \{`, `confirmation.GetStoreIndex(chainId), sdk.ValAddress(ethAddress.Bytes())) != nil {`, "C16.guards", "duplicate check under another key"},
	{"C16-store-under-signer", "C16", "module/x/mhub2/keeper/keeper.go", `key := types\.MakeExternalSignatureKey\(chainId, sig\.GetStoreIndex\(chainId\), val\)`, `key := types.MakeExternalSignatureKey(chainId, sig.GetStoreIndex(chainId), sdk.ValAddress(sig.GetSigner().Bytes()))`, "C16.key-schema", "signature stored under the claimed signer"},
	{"C16-index-sequence", "C16", "module/x/mhub2/types/outgoing_tx.go", `return MakeBatchTxKey\(chainId, btx\.ExternalTokenId, btx\.BatchNonce\)`, `return MakeBatchTxKey(chainId, btx.ExternalTokenId, btx.Sequence)`, "C16.index-agreement", "batch index built from the sequence"},
	{"C16-unsigned-stops", "C16", "module/x/mhub2/keeper/grpc_query.go", `(signerSets = append\(signerSets, signerSet\)\n\t\t\}\n\t\treturn )false`, "${1}len(sig) != 0", "C16.key-schema", "unsigned signer-set listing stops at the first signed set"},
	// C17
	{"C17-address-in-use-gt1", "C17", "module/x/mhub2/keeper/msg_server.go", `if len\(validators\) > 0 \{`, `if len(validators) > 1 {`, "C17.guards", "address may be bound twice"},
	{"C17-nonce-not-decremented", "C17", "module/x/mhub2/keeper/msg_server.go", `nonce = valAccSeq - 1`, `nonce = valAccSeq`, "C17.guards", "signed nonce not decremented"},
	{"C17-orch-scan-wrong-arg", "C17", "module/x/mhub2/keeper/msg_server.go", `ethAddrs := k\.getExternalAddressesByOrchestrator\(ctx, chainId, orchAddr\)`, `ethAddrs := k.getExternalAddressesByOrchestrator(ctx, chainId, sdk.AccAddress(valAddr))`, "C17.guards", "orchestrator scan for the wrong account"},
	{"C17-two-indexes", "C17", "module/x/mhub2/keeper/msg_server.go", `\tk\.setExternalOrchestratorAddress\(ctx, chainId, ethAddr, orchAddr\)\n\n\tctx\.Event`, "\tctx.Event", "C17.triple", "third index not written"},
	{"C17-signer-orchestrator", "C17", "module/x/mhub2/types/msgs.go", `acc, err := sdk\.ValAddressFromBech32\(msg\.ValidatorAddress\)\n\tif err != nil \{\n\t\tpanic\(err\)\n\t\}\n\treturn \[\]sdk\.AccAddress\{sdk\.AccAddress\(acc\)\}`, "acc, err := sdk.AccAddressFromBech32(msg.OrchestratorAddress)\n\tif err != nil {\n\t\tpanic(err)\n\t}\n\treturn []sdk.AccAddress{acc}", "C17.self", "registration signed by the orchestrator"},
	{"C17-scan-break", "C17", "module/x/mhub2/keeper/keeper.go", `(valBs := bytes\.TrimPrefix\(iter\.Key\(\), \[\]byte\{types\.ValidatorExternalAddressKey\}\)\n\t\t\tif !bytes\.HasPrefix\(valBs, chainId\.Bytes\(\)\) \{\n\t\t\t\t)continue`, "${1}break", "C17.guards", "in-use scan stops at another chain's entry"},
	// C18
	{"C18-no-dedup", "C18", "module/x/oracle/keeper/attestation.go", `\t\tif vote == operator \{\n\t\t\treturn att\n\t\t\}\n`, "\t\t_ = vote\n", "C18.distinct", "duplicate votes counted"},
	{"C18-holders-third", "C18", "module/x/oracle/keeper/attestation_handler.go", `if votes > math\.MaxUint16\*2/3 \{`, `if votes > math.MaxUint16/3 {`, "C18.holders-threshold", "holders adopted by one third"},
	{"C18-every-block", "C18", "module/x/oracle/abci.go", `if ctx\.BlockHeight\(\)%5 == 0 \{`, `if ctx.BlockHeight() > 0 {`, "C18.quorum", "epoch processed every block"},
	{"C18-stale-epoch", "C18", "module/x/oracle/keeper/msg_server.go", `(?s)(func \(k msgServer\) PriceClaim.*?)if k\.GetCurrentEpoch\(ctx\) != msg\.GetEpoch\(\) \{`, "${1}if msg.GetEpoch() > k.GetCurrentEpoch(ctx) {", "C18.quorum", "stale-epoch price claims accepted"},
	{"C18-last-price", "C18", "module/x/oracle/keeper/attestation_handler.go", `calculatedPrice = price\[len\(price\)/2\]\n`, "calculatedPrice = price[len(price)-1]\n", "C18.median-shape", "maximum instead of median"},
	{"C18-constant-hash", "C18", "module/x/oracle/keeper/attestation_handler.go", `holdersClaim\.StabilizedClaimHash\(\)`, `holdersClaim.ClaimHash()`, "C18.holders-threshold", "holder lists pooled under a constant hash"},
	// C19
	{"C19-no-clamp", "C19", "module/x/mhub2/keeper/batch.go", `\t\tif fee\.IsGTE\(totalFee\) \{\n\t\t\tfee = totalFee\n\t\t\}\n`, ``, "C19.clamp", "reimbursement not clamped"},
	{"C19-avg-total", "C19", "module/x/mhub2/keeper/batch.go", `averageFeePaid := fee\.Amount\.QuoRaw`, `averageFeePaid := totalFee.Amount.QuoRaw`, "C19.prorata", "selection threshold from the total fee"},
	{"C19-record-hub-units", "C19", "module/x/mhub2/keeper/batch.go", `record\.ExternalFee\.Sub\(k\.ConvertToExternalValue\(ctx, chainId, tokenInfo\.ExternalTokenId, toRefund\)\)`, `record.ExternalFee.Sub(toRefund)`, "C19.units", "fee record mixes units"},
	{"C19-commission-total", "C19", "module/x/mhub2/keeper/batch.go", `amount := totalValCommission\.Amount\.Mul\(sdk\.NewIntFromUint64\(val\.Power\)\)\.Quo\(sdk\.NewIntFromUint64\(totalPower\)\)`, `amount := totalValCommission.Amount.Mul(sdk.NewIntFromUint64(val.Power)).Quo(sdk.NewIntFromUint64(totalPower / 2))`, "C19.prorata", "commission payouts sum to twice the commission"},
	// C20
	{"C20-hub-early-return", "C20", "minter-connector/command/command.go", `\t\tif _, err := sdk\.AccAddressFromBech32\(cmd\.Recipient\); err != nil \{\n\t\t\treturn err\n\t\t\}\n`, "\t\t_, err := sdk.AccAddressFromBech32(cmd.Recipient)\n\t\treturn err\n", "C20.validate", "hub deposits skip the fee checks"},
	{"C20-negative-fee", "C20", "minter-connector/command/command.go", `\tif fee\.IsNegative\(\) \{\n\t\treturn errors\.New\("incorrect fee"\)\n\t\}\n`, ``, "C20.validate", "negative fee accepted"},
	{"C20-no-restore", "C20", "minter-connector/minter/minter.go", `(?s)(ctx\.Logger\.Debug\("Found batch"\).*?)\t\t\t\t\t\tctx\.SetLastEventNonce\(eventNonce\)\n`, "$1", "C20.cursor", "event counter not restored before rewinding"},
	// operators added with the rules of the second seeding round
	{"C06-global-cache", "C06", "module/x/mhub2/keeper/keeper.go", `func \(k Keeper\) SetTokenInfos\(ctx sdk\.Context, tokenInfos \*types\.TokenInfos\) \{\n`, "var cachedTokenInfosM *types.TokenInfos\n\nfunc (k Keeper) SetTokenInfos(ctx sdk.Context, tokenInfos *types.TokenInfos) {\n\tcachedTokenInfosM = tokenInfos\n", "C06.global-state", "token list cached in a package-level variable"},
	{"C07-memoised-digest", "C07", "module/x/mhub2/types/outgoing_tx.go", `\treturn packCall\(SignerSetTxCheckpointABIJSON, "checkpoint", args\)\n`, "\tlastCheckpointM = packCall(SignerSetTxCheckpointABIJSON, \"checkpoint\", args)\n\treturn append([]byte{}, lastCheckpointM...)\n}\n\nvar lastCheckpointM []byte\n\nfunc init() {\n", "C07.pure", "signer-set digest kept in a package-level variable and returned through a copy"},
	{"C17-key-no-chain", "C17", "module/x/mhub2/types/key.go", `return bytes\.Join\(\[\]\[\]byte\{\{OrchestratorValidatorAddressKey\}, chainId\.Bytes\(\), orc\.Bytes\(\)\}, \[\]byte\{\}\)`, "return append([]byte{OrchestratorValidatorAddressKey}, orc.Bytes()...)", "C17.key-shape", "orchestrator index no longer per chain"},
	{"C02-nonce-rewind", "C02", "module/x/mhub2/keeper/msg_server.go", `(\tk\.setExternalOrchestratorAddress\(ctx, chainId, ethAddr, orchAddr\)\n)`, "${1}\tk.setLastEventNonceByValidator(ctx, chainId, valAddr, k.GetLastObservedEventNonce(ctx, chainId))\n", "C02.one-vote", "key registration rewinds the validator's event nonce"},
	{"C04-delete-refund-chain", "C04", "module/x/mhub2/keeper/pool.go", `_, err := k\.createSendToExternal\(ctx, types\.ChainID\(send\.RefundChainId\), types\.TempAddress`, "chainId = types.ChainID(send.RefundChainId)\n\t\t\t_, err := k.createSendToExternal(ctx, chainId, types.TempAddress", "C04.key-agreement", "the refunded entry is deleted under the refund chain's key"},
	{"C12-drop-if-refunded", "C12", "module/x/mhub2/keeper/pool.go", `(\t\treturn fmt\.Errorf\("can't cancel a message you didn't send"\)\n\t\}\n)`, "${1}\tif k.GetTxStatus(ctx, send.TxHash).Status == types.TX_STATUS_REFUNDED {\n\t\tk.deleteUnbatchedSendToExternal(ctx, chainId, send.Id, send.Fee)\n\t\treturn nil\n\t}\n", "C12.once", "entry dropped without refund when its tx hash is already marked refunded"},
	{"C12-sweep-stops", "C12", "module/x/mhub2/abci.go", `(\t\t\t\texpired = append\(expired, ste\)\n\t\t\t\}\n\t\t\treturn )false`, "${1}len(expired) == 0", "C12.expiry", "expiry sweep stops at the first live entry"},
	{"C15-height-cross-wired", "C15", "module/x/mhub2/keeper/genesis.go", `externalState\.LatestBlockHeight\.ExternalHeight\)`, "externalState.LatestBlockHeight.CosmosHeight)", "C15.faithful-import", "hub height imported as observed external height"},
	{"C13-height-cross-wired", "C13", "module/x/mhub2/keeper/genesis.go", `externalState\.LatestBlockHeight\.ExternalHeight\)`, "externalState.LatestBlockHeight.CosmosHeight)", "C13.timeout-guard", "hub height imported as observed external height"},
	{"C15-oracle-joint-guard", "C15", "module/x/oracle/keeper/genesis.go", `if data\.Prices != nil \{`, "if data.Prices != nil && data.Holders != nil {", "C15.faithful-import", "prices imported only when holders are present too"},
	{"C15-export-bonded-only", "C15", "module/x/mhub2/keeper/keeper.go", `(iter := prefix\.NewStore\(store, append\(\[\]byte\{types\.ValidatorExternalAddressKey\}, chainId\.Bytes\(\)\.\.\.\)\)\.Iterator\(nil, nil\)\n\tfor ; iter\.Valid\(\); iter\.Next\(\) \{\n)`, "${1}\t\tif val := k.StakingKeeper.Validator(ctx, iter.Key()); val == nil || !val.IsBonded() {\n\t\t\tcontinue\n\t\t}\n", "C15.export-own-state", "delegate keys of non-bonded validators not exported"},
	{"C14-negative-admissible", "C14", "module/x/mhub2/types/external_event.go", `if ttce\.Amount\.IsNegative\(\) \{`, "if ttce.Amount.IsZero() {", "C14.injective", "negative transfer amounts pass Validate"},
	{"C14-amount-low64", "C14", "module/x/mhub2/types/external_event.go", `sthe\.Amount\.BigInt\(\)\.Bytes\(\)`, "sdk.Uint64ToBigEndian(sthe.Amount.BigInt().Uint64())", "C14.injective", "deposit amount hashed modulo 2^64"},
	{"C09-copy-before-sort", "C09", "module/x/mhub2/types/types.go", `\tmembers\.Sort\(\)\n\tvar mem \[\]\*ExternalSigner\n\tfor _, val := range members \{\n\t\tmem = append\(mem, val\)\n\t\}\n`, "\tmem := make([]*ExternalSigner, len(members))\n\tcopy(mem, members)\n\tmembers.Sort()\n", "C09.sorted", "members copied before they are sorted"},
	{"C09-hash-sorts-copy", "C09", "module/x/mhub2/types/types.go", `\tb\.Sort\(\)\n\tvar out bytes\.Buffer\n\tfor _, s := range b \{`, "\tsorted := make(ExternalSigners, len(b))\n\tcopy(sorted, b)\n\tsorted.Sort()\n\tvar out bytes.Buffer\n\tfor _, s := range sorted {", "C09.sorted", "members hash no longer canonicalises the reported set in place"},
	{"C09-powerdiff-no-else", "C09", "module/x/mhub2/types/types.go", `\t\t\} else \{\n\t\t\tpowers\[es\.ExternalAddress\] = -int64\(es\.Power\)\n\t\t\}\n`, "\t\t}\n", "C09.freshness-trigger", "validators that left the set not counted in the drift"},
	{"C17-scan-wrong-index", "C17", "module/x/mhub2/keeper/keeper.go", `(func \(k Keeper\) getValidatorsByExternalAddress\([^\n]*\n\titer := [^\n]*\n\n\tfor ; iter\.Valid\(\); iter\.Next\(\) \{\n)`, "${1}\t\tif !bytes.HasPrefix(iter.Key(), []byte{types.ExternalOrchestratorAddressKey}) {\n\t\t\tcontinue\n\t\t}\n", "C17.guards", "in-use scan filters on another index and matches nothing"},
	{"C11-sender-chain-rate", "C11", "module/x/mhub2/keeper/external_event_handler.go", `receiverChainTokenInfo\.Commission\)\.`, "senderChainTokenInfo.Commission).", "C11.commission-form", "cross-chain transfer charged the source chain's rate"},
	{"C18-first-report-sticks", "C18", "module/x/oracle/keeper/attestation.go", `(func \(k Keeper\) storeClaim\(ctx sdk\.Context, details types\.Claim\) error \{\n)`, "${1}\tif k.HasClaim(ctx, details) {\n\t\treturn types.ErrDuplicate\n\t}\n", "C18.latest", "a validator's second report of an epoch is refused"},
	{"C20-count-undecodable-edit", "C20", "minter-connector/minter/minter.go", `(\t\t\t\t\t\tctx\.SetLastValsetNonce\(uint64\(nonce\)\)\n)\t\t\t\t\t\tctx\.SetLastEventNonce\(ctx\.LastEventNonce\(\) \+ 1\)\n\t\t\t\t\t\}\n`, "${1}\t\t\t\t\t}\n\t\t\t\t\tctx.SetLastEventNonce(ctx.LastEventNonce() + 1)\n", "C20.counted-iff-valid", "multisig edits with an undecodable payload counted by the resync scan"},
	// operators added with the rules of the third seeding round
	{"C02-hook-forgets-cursor", "C02", "module/x/mhub2/keeper/hooks.go", `func \(h Hooks\) AfterValidatorBeginUnbonding\(ctx sdk\.Context, _ sdk\.ConsAddress, _ sdk\.ValAddress\) \{\n`, "func (h Hooks) AfterValidatorBeginUnbonding(ctx sdk.Context, _ sdk.ConsAddress, valAddr sdk.ValAddress) {\n\tfor _, chainId := range h.k.GetChains(ctx) {\n\t\tctx.KVStore(h.k.storeKey).Delete(types.MakeLastEventNonceByValidatorKey(chainId, valAddr))\n\t}\n", "C02.one-vote", "a staking hook deletes the validator's event cursor"},
	{"C15-import-if-no-nonces", "C15", "module/x/mhub2/keeper/genesis.go", `(\t\tfor _, eventVoteRecord := range externalState\.ExternalEventVoteRecords \{\n)`, "\t\tif len(externalState.Nonces) > 0 {\n\t\t\tcontinue\n\t\t}\n${1}", "C15.faithful-import", "the rest of a chain's import is skipped when explicit nonces are present"},
	{"C15-export-skips-chain", "C15", "module/x/mhub2/keeper/genesis.go", `(\t\tstate\.ExternalStates = append\(state\.ExternalStates, &types\.ExternalState\{)`, "\t\tif lastobservedvalset == nil {\n\t\t\tcontinue\n\t\t}\n${1}", "C15.export-own-state", "chains without an observed signer set are left out of the export"},
	{"C04-status-key-lowercase", "C04", "module/x/mhub2/keeper/tx_status.go", `(?s)(import \(\n)(.*?)bytes := store\.Get\(types\.GetTxStatusKey\(inTxHash\)\)`, "${1}\t\"strings\"\n${2}bytes := store.Get(types.GetTxStatusKey(strings.ToLower(inTxHash)))", "C04.key-agreement", "status read under the lower-cased hash, written under the hash as given"},
	{"C05-recover-asserts-error", "C05", "module/x/mhub2/keeper/external_event_vote.go", `err = sdkerrors\.Wrapf\(types\.ErrInvalid, "panic while applying external event: %v", r\)`, `err = sdkerrors.Wrap(r.(error), "panic while applying external event")`, "C05.contain", "the recover handler type-asserts the panic value"},
	{"C06-sort-by-derived-key", "C06", "module/x/mhub2/abci.go", `sort\.Strings\(ids\)`, `sort.Slice(ids, func(i, j int) bool { return len(ids[i]) < len(ids[j]) })`, "C06.map-range", "token ids collected from a map sorted by a derived key"},
	{"C04-sequence-value-receiver", "C04", "module/x/mhub2/types/outgoing_tx.go", `func \(sstx \*SignerSetTx\) SetSequence\(seq uint64\) \{\n\tsstx\.Sequence = seq`, "func (sstx SignerSetTx) SetSequence(seq uint64) {\n\tsstx.Sequence = seq", "C04.value-semantics", "SetSequence assigns to a copy"},
	{"C08-stale-keeper-copy", "C08", "module/x/mhub2/keeper/keeper.go", `\tk\.StakingKeeper = keeper\n(\tk\.ExternalEventProcessor = ExternalEventProcessor\{\n\t\tkeeper:     k,\n\t\tbankKeeper: k\.bankKeeper,\n\t\}\n)`, "${1}\tk.StakingKeeper = keeper\n", "C08.value-semantics", "the event processor copies the keeper before the staking keeper is wired"},
	{"C09-latest-is-last-of-reverse", "C09", "module/x/mhub2/keeper/keeper.go", `(func \(k Keeper\) GetLatestSignerSetTx\(ctx sdk\.Context, chainId types\.ChainID\) \*types\.SignerSetTx \{\n)`, "${1}\tif all := k.GetSignerSetTxs(ctx, chainId); len(all) > 0 {\n\t\treturn all[len(all)-1]\n\t}\n", "C09.freshness-trigger", "the oldest retained set served as the latest"},
	{"C16-unsigned-skips-timed-out", "C16", "module/x/mhub2/keeper/grpc_query.go", `(func \(k Keeper\) UnsignedBatchTxs\((?s:.*?)func\(_ \[\]byte, otx types\.OutgoingTx\) bool \{\n)`, "${1}\t\tif otx.GetCosmosHeight() == 0 {\n\t\t\treturn false\n\t\t}\n", "C16.key-schema", "unsigned batches filtered by something other than the signature"},
	{"C13-executed-scan-stops", "C13", "module/x/mhub2/keeper/batch.go", `(if \(btx\.BatchNonce < batchTx\.BatchNonce\) && \(btx\.ExternalTokenId == batchTx\.ExternalTokenId\) \{)`, "if btx.ExternalTokenId != batchTx.ExternalTokenId {\n\t\t\t\treturn true\n\t\t\t}\n\t\t\t${1}", "C13.older-same-token", "the scan for older batches stops at another token's batch"},
	{"C12-sweep-every-second-block", "C12", "module/x/mhub2/abci.go", `if ctx\.BlockHeight\(\)%1 == 0 \{`, "if ctx.BlockHeight()%2 == 0 {", "C12.expiry", "expiry sweep on even blocks only"},
	{"C14-batch-hash-nonce-first", "C14", "module/x/mhub2/types/external_event.go", `(\t\t\t)\[\]byte\(bee\.ExternalCoinId\), // todo: check length \?\n\t\t\tsdk\.Uint64ToBigEndian\(bee\.EventNonce\),\n`, "${1}sdk.Uint64ToBigEndian(bee.EventNonce),\n\t\t\t[]byte(bee.ExternalCoinId),\n", "C14.injective", "batch-executed hash gets the layout of the contract-call hash"},
	{"C17-prefix-scan-breaks", "C17", "module/x/mhub2/keeper/keeper.go", `(ethBs := bytes\.TrimPrefix\(iter\.Key\(\), \[\]byte\{types\.ExternalOrchestratorAddressKey\}\)\n\t\t\tif !bytes\.HasPrefix\(ethBs, chainId\.Bytes\(\)\) \{\n\t\t\t\t)continue`, "${1}break", "C17.guards", "orchestrator in-use scan stops at another chain's entry"},
	{"C18-found-flag-outside", "C18", "module/x/oracle/keeper/msg_server.go", `(\tfor _, requiredPrice := range requiredPrices \{\n)\t\tfound := false\n`, "\tfound := false\n${1}", "C18.complete-report", "found flag not reset per required price"},
	{"C18-normalised-rounded", "C18", "module/x/oracle/keeper/keeper.go", `MulUint64\(math\.MaxUint16\)\.QuoUint64\(totalPower\)`, "MulUint64(math.MaxUint16).AddUint64(totalPower / 2).QuoUint64(totalPower)", "C18.complete-report", "normalised powers rounded to nearest"},
	{"C19-record-write-once", "C19", "module/x/mhub2/keeper/tx_fee_record.go", `(func \(k Keeper\) SetTxFeeRecord\([^\n]*\n)`, "${1}\tif ctx.KVStore(k.storeKey).Has(types.GetTxFeeRecordKey(inTxHash)) {\n\t\treturn\n\t}\n", "C19.record-overwrite", "fee record written once only"},
	{"C20-retry-skips-first-window", "C20", "minter-connector/minter/minter.go", `(\t\t\ttime\.Sleep\(time\.Second\)\n)\t\t\ti--\n`, "${1}\t\t\tif i > 0 {\n\t\t\t\ti--\n\t\t\t}\n", "C20.cursor", "window 0 is not retried after an API error"},
	{"C20-recipient-normalised-first", "C20", "minter-connector/command/command.go", `(\t\tif !common\.IsHexAddress\(cmd\.Recipient\) \{\n\t\t\treturn errors\.New\("wrong recipient"\)\n\t\t\}\n)(\t\tcmd\.Recipient = common\.HexToAddress\(cmd\.Recipient\)\.Hex\(\)\n)`, "${2}${1}", "C20.validate", "recipient normalised before it is checked"},
	{"C17-listing-by-position", "C17", "module/x/mhub2/keeper/keeper.go", `msg\.OrchestratorAddress = k\.GetExternalOrchestratorAddress\(ctx, chainId, common\.HexToAddress\(msg\.ExternalAddress\)\)\.String\(\)`, "msg.OrchestratorAddress = k.GetExternalOrchestratorAddress(ctx, chainId, common.HexToAddress(out[0].ExternalAddress)).String()", "C17.triple", "listed orchestrators looked up under another entry's address"},
	// operators added with the rules of the fourth seeding round
	{"C07-destination-hex2bytes", "C07", "module/x/mhub2/types/outgoing_tx.go", `txDestinations\[i\] = gethcommon\.HexToAddress\(tx\.ExternalRecipient\)`, "txDestinations[i] = gethcommon.BytesToAddress(gethcommon.Hex2Bytes(tx.ExternalRecipient[2:]))", "C07.field-map", "batch destinations decoded by cutting two characters and Hex2Bytes"},
	{"C13-height-key-without-chain", "C13", "module/x/mhub2/keeper/external_event_vote.go", `(func \(k Keeper\) SetLastObservedExternalBlockHeight\((?s:.*?))append\(\[\]byte\{types\.LastExternalBlockHeightKey\}, chainId\.Bytes\(\)\.\.\.\)`, "${1}[]byte{types.LastExternalBlockHeightKey}", "C13.timeout-guard", "the observed external height is written under a key without the chain id"},
	{"C19-fee-key-hex-decoded", "C19", "module/x/mhub2/types/key.go", `(func GetTxFeeRecordKey\(inTxHash string\) \[\]byte \{\n\treturn )(.*)\[\]byte\(inTxHash\)(.*)\n`, "${1}${2}common.HexToHash(inTxHash).Bytes()${3}\n", "C19.key-shape", "fee records keyed by the hex-decoded hash"},
	{"C10-header-token-normalised", "C10", "module/x/mhub2/keeper/batch.go", `(\t\tExternalTokenId: )externalTokenId,`, "${1}fmt.Sprintf(\"%s\", externalTokenId),", "C10.own-token", "batch header token id passed through a formatting step"},
	{"C14-coin-id-normalised", "C14", "module/x/mhub2/types/external_event.go", `\[\]byte\(bee\.ExternalCoinId\), // todo: check length \?`, "common.HexToAddress(bee.ExternalCoinId).Bytes(),", "C14.injective", "batch-executed hash ignores the spelling of the token id"},
	{"C15-chains-filtered-in-place", "C15", "module/x/mhub2/keeper/genesis.go", `(func ExportGenesis\((?s:.*?))\tchains := k\.GetChains\(ctx\)\n`, "${1}\tchainNames := params.Chains[:0]\n\tfor _, ch := range params.Chains {\n\t\tif ch != \"hub\" {\n\t\t\tchainNames = append(chainNames, ch)\n\t\t}\n\t}\n\t_ = chainNames\n\tchains := k.GetChains(ctx)\n", "C15.export-own-state", "the chains parameter is filtered in place during export"},
	{"C18-votes-binary-search", "C18", "module/x/oracle/keeper/attestation.go", `(?s)(import \(\n)(.*?\toperator := sval\.GetOperator\(\)\.String\(\)\n)\tfor _, vote := range att\.Votes \{\n\t\tif vote == operator \{\n\t\t\treturn att\n\t\t\}\n\t\}\n`, "${1}\t\"sort\"\n${2}\tif i := sort.SearchStrings(att.Votes, operator); i < len(att.Votes) && att.Votes[i] == operator {\n\t\treturn att\n\t}\n", "C18.distinct", "membership of the unsorted votes decided by binary search"},
	{"C20-commit-before-count", "C20", "minter-connector/cmd/mhub-minter-connector/main.go", `(\t\t\tctx\.SetLastCheckedMinterBlock\(block\.Height\)\n)`, "${1}\t\t\tctx.Commit()\n", "C20.cursor", "the relay loop commits the block cursor before the block's events are counted"},
	{"C16-resolver-cache", "C16", "module/x/mhub2/keeper/msg_server.go", `(?s)(import \(\n)(.*?)(func \(k Keeper\) getSignerValidator\([^\n]*\n)`, "${1}\t\"sync\"\n${2}var signerCacheM sync.Map\n\n${3}\tsignerCacheM.Store(signerString, chainId)\n", "C16.guards", "the signer resolver keeps a process-local cache"},
	{"C11-amount-as-remainder", "C11", "module/x/mhub2/keeper/pool.go", `convertedAmount := k\.ConvertToExternalValue\(ctx, chainId, tokenInfo\.ExternalTokenId, amount\.Amount\)`, "convertedAmount := k.ConvertToExternalValue(ctx, chainId, tokenInfo.ExternalTokenId, amount.Amount.Add(fee.Amount)).Sub(k.ConvertToExternalValue(ctx, chainId, tokenInfo.ExternalTokenId, fee.Amount))", "C11.convert-truncates", "scheduled amount computed as converted total minus converted fee"},
	// rules added after the fifth seeding round
	{"C01-cold-storage-whole", "C01", "module/x/mhub2/keeper/keeper.go", `vouchers := sdk\.Coins\{coin\}`, `vouchers := sdk.NewCoins(c.Amount...)`, "C01.mint-sites", "each step of a cold-storage transfer mints the whole proposal"},
	{"C04-selection-dropped", "C04", "module/x/mhub2/keeper/batch.go", `(\tif len\(selectedStes\) == 0 \{\n\t\treturn nil\n\t\}\n)`, "${1}\tif maxElements > BatchTxSize {\n\t\treturn nil\n\t}\n", "C04.batch-build", "an exit after the selection ran that stores no batch"},
	{"C04-nonce-before-selection", "C04", "module/x/mhub2/keeper/batch.go", `(?s)(\tvar selectedStes \[\]\*types\.SendToExternal\n)(.*?)BatchNonce:      k\.incrementLastOutgoingBatchNonce\(ctx, chainId\),`, "\tbatchNonce := k.incrementLastOutgoingBatchNonce(ctx, chainId)\n${1}${2}BatchNonce:      batchNonce,", "C04.batch-build", "the batch nonce is consumed before it is known that anything was selected"},
	{"C07-gravity-id-trimmed", "C07", "module/x/mhub2/keeper/keeper.go", `(func \(k Keeper\) getGravityID\(ctx sdk\.Context\) string \{\n\tvar a string\n[^\n]*\n)\treturn a\n`, "${1}\treturn strings.TrimSpace(a)\n", "C07.field-map", "the gravity id is trimmed before it enters the digest"},
	{"C08-listing-reversed", "C08", "module/x/mhub2/keeper/keeper.go", `(func \(k Keeper\) PaginateOutgoingTxsByType\([^\n]*\n\tprefixStore := [^\n]*\n)`, "${1}\tif pageReq != nil {\n\t\tpageReq.Reverse = true\n\t}\n", "C08.listing-order", "outgoing tx listings are served newest first"},
	{"C10-recover-live-ctx", "C10", "module/x/mhub2/abci.go", `(func createBatchTxs\(ctx sdk\.Context, chainId types\.ChainID, k keeper\.Keeper\) \{\n)`, "${1}\tdefer func() {\n\t\tif r := recover(); r != nil {\n\t\t\tctx.Logger().Error(\"batch creation failed\")\n\t\t}\n\t}()\n", "C10.counters", "automatic batch creation swallows panics on the live context"},
	{"C10-restore-after-import", "C10", "module/x/mhub2/keeper/genesis.go", `(?s)(\t\tk\.setOutgoingSequence\(ctx, chainId, externalState\.Sequence\)\n)(.*?)(\t\tk\.setLastOutgoingBatchNonce\(ctx, chainId, externalState\.LastOutgoingBatchTxNonce\)\n)`, "${2}${3}${1}", "C10.counters", "the outgoing sequence is restored after the imported txs were stamped"},
	{"C12-age-reset", "C12", "module/x/mhub2/keeper/batch.go", `(\tfor _, tx := range batch\.Transactions \{\n)(\t\tk\.setUnbatchedSendToExternal\(ctx, chainId, tx\)\n)`, "${1}\t\ttx.CreatedAt = uint64(ctx.BlockTime().Unix())\n${2}", "C12.expiry", "a dissolved batch puts its transfers back with a fresh age"},
	{"C20-pass-wider-than-window", "C20", "minter-connector/cmd/mhub-minter-connector/main.go", `(?s)LastCheckedMinterBlock\(\) > 100 \{\n\t\tlatestBlock = ctx\.LastCheckedMinterBlock\(\) \+ 100`, "LastCheckedMinterBlock() > 1000 {\n\t\tlatestBlock = ctx.LastCheckedMinterBlock() + 1000", "C20.cursor", "a relay pass may span ten windows that are computed from the moving cursor"},
	{"C05-slashing-enabled", "C05", "module/x/mhub2/abci.go", `//outgoingTxSlashing\(ctx, chainId, k\)`, `outgoingTxSlashing(ctx, chainId, k)`, "C05.contain", "outgoing-tx slashing enabled with its stale 'not jailed' snapshot"},
	{"C11-connector-nets-fee", "C11", "minter-connector/cosmos/cosmos.go", `Amount:           amount,`, `Amount:           amount.Sub(fee),`, "C11.credit", "the connector reports cross-chain deposits net of the fee"},
	{"C13-payout-units", "C13", "module/x/mhub2/keeper/batch.go", `totalFee\.Amount = totalFee\.Amount\.Add\(tx\.Fee\.Amount\)`, `totalFee.Amount = totalFee.Amount.Add(k.ConvertFromExternalValue(ctx, chainId, tx.Fee.ExternalTokenId, tx.Fee.Amount))`, "C13.exact-delete", "the fee total is converted twice (payout arithmetic the removal depends on)"},
	// rules added after the sixth seeding round
	{"C09-constructor-filter", "C09", "module/x/mhub2/types/types.go", `(\tfor _, val := range members \{\n)\t\tmem = append\(mem, val\)\n`, "${1}\t\tif val.Power > 0 {\n\t\t\tmem = append(mem, val)\n\t\t}\n", "C09.membership", "the signer-set constructor drops members of power 0"},
	{"C19-payout-hash", "C19", "module/x/mhub2/keeper/batch.go", `(tx\.RefundAddress, sdk\.NewCoin\(fee\.Denom, toRefund\), sdk\.NewInt64Coin\(fee\.Denom, 0\), sdk\.NewInt64Coin\(fee\.Denom, 0\), )"#fee"`, "${1}tx.TxHash", "C19.record", "fee refunds are filed under the hash of the refunded transfer"},
	{"C20-setter-guard", "C20", "minter-connector/context/context.go", `(func \(c \*Context\) SetLastEventNonce\(lastEventNonce uint64\) \{\n)`, "${1}\tif lastEventNonce < c.status.LastEventNonce {\n\t\treturn\n\t}\n", "C20.cursor", "the event-nonce setter ignores a rewind"},
	{"C17-key-layout", "C17", "module/x/mhub2/types/key.go", `\{\{OrchestratorValidatorAddressKey\}, chainId\.Bytes\(\), orc\.Bytes\(\)\}`, `{{OrchestratorValidatorAddressKey}, {byte(len(chainId))}, chainId.Bytes(), orc.Bytes()}`, "C17.key-shape", "the orchestrator index key gets a length byte before the chain id"},
	{"C20-count-invalid", "C20", "minter-connector/minter/minter.go", `if cmd\.ValidateAndComplete\(value\) == nil \{`, `if cmd.ValidateAndComplete(value) == nil || true {`, "C20.counted-iff-valid", "invalid commands counted by the resync scan"},
}

func init() {
	// drop placeholders
	var out []Mutant
	for _, m := range mutants {
		if m.Expect == "" {
			continue
		}
		out = append(out, m)
	}
	mutants = out
}

func mutantByID(id string) *Mutant {
	for i := range mutants {
		if mutants[i].ID == id {
			return &mutants[i]
		}
	}
	return nil
}

func mutantOverlay(spec string) (map[string][]byte, error) {
	m := mutantByID(spec)
	if m == nil {
		return nil, fmt.Errorf("no such mutant %q", spec)
	}
	path := filepath.Join(load.RepoRoot(), m.File)
	src, err := os.ReadFile(path)
	if err != nil {
		return nil, err
	}
	re, err := regexp.Compile(m.Pattern)
	if err != nil {
		return nil, err
	}
	locs := re.FindAllIndex(src, -1)
	if len(locs) != 1 {
		return nil, fmt.Errorf("mutant %s: pattern matches %d times in %s (operator out of date)", m.ID, len(locs), m.File)
	}
	out := re.ReplaceAll(src, []byte(m.Replace))
	return map[string][]byte{path: out}, nil
}

// MutantIDs lists the operators of a property.
func MutantIDs(property string) []string {
	var out []string
	for _, m := range mutants {
		if m.Property == property {
			out = append(out, m.ID)
		}
	}
	return out
}

type mutResult struct {
	id, status, detail string
}

// runSensitivity applies every operator of the property in child processes and records whether the
// quick check reports it.  A missed or inapplicable operator is a defect of the checker, never a
// violation of the repository.
func runSensitivity(c *Ctx) {
	prop := c.R.Property
	ids := MutantIDs(prop)
	if len(ids) == 0 {
		return
	}
	self, err := os.Executable()
	if err != nil {
		c.R.Extra["sensitivity_error"] = err.Error()
		return
	}
	results := make([]mutResult, len(ids))
	runOne := func(id string) mutResult {
		m := mutantByID(id)
		cmd := exec.Command(self, "-property", prop, "-tier", "quick", "-mutant", id)
		cmd.Env = os.Environ()
		var out bytes.Buffer
		cmd.Stdout = &out
		cmd.Stderr = &out
		err := cmd.Run()
		code := 0
		if ee, ok := err.(*exec.ExitError); ok {
			code = ee.ExitCode()
		} else if err != nil {
			code = -1
		}
		res := mutResult{id: id}
		switch {
		case code == 1:
			hit := false
			for _, line := range strings.Split(out.String(), "\n") {
				if strings.Contains(line, " "+m.Expect) && !strings.HasPrefix(line, "VIOLATION") && !strings.HasPrefix(line, "  ") {
					hit = true
				}
			}
			if hit {
				res.status = "detected"
			} else {
				res.status = "detected-by-other-rule"
				res.detail = "reported, but not by " + m.Expect
			}
		case code == 0:
			res.status = "MISSED"
		default:
			res.status = "discarded"
			lines := strings.Split(strings.TrimSpace(out.String()), "\n")
			if len(lines) > 0 {
				res.detail = lines[0]
				if len(res.detail) > 200 {
					res.detail = res.detail[:200]
				}
			}
		}
		return res
	}
	var wg sync.WaitGroup
	sem := make(chan struct{}, 4)
	for i, id := range ids {
		wg.Add(1)
		go func(i int, id string) {
			defer wg.Done()
			sem <- struct{}{}
			defer func() { <-sem }()
			results[i] = runOne(id)
		}(i, id)
	}
	wg.Wait()
	// a child that was killed (several thorough checks side by side exhaust the memory) produced no verdict:
	// run those operators again, one at a time
	for i := range results {
		if results[i].status == "discarded" && !strings.Contains(results[i].detail, "operator out of date") && !strings.Contains(results[i].detail, "infrastructure") {
			results[i] = runOne(results[i].id)
		}
	}
	sort.Slice(results, func(i, j int) bool { return results[i].id < results[j].id })
	nDet, nMiss, nDisc := 0, 0, 0
	var list []map[string]string
	for _, r := range results {
		m := mutantByID(r.id)
		switch r.status {
		case "detected", "detected-by-other-rule":
			nDet++
		case "MISSED":
			nMiss++
			fmt.Fprintf(os.Stderr, "mhubsa: SENSITIVITY-MISS %s (%s) was not reported by the %s check: a defect of the checker, not of the repository\n", r.id, m.What, prop)
		default:
			nDisc++
			fmt.Fprintf(os.Stderr, "mhubsa: sensitivity operator %s discarded: %s\n", r.id, r.detail)
		}
		list = append(list, map[string]string{"id": r.id, "what": m.What, "file": m.File, "expected_rule": m.Expect, "status": r.status, "detail": r.detail})
	}
	c.R.Extra["mutants_applied"] = len(results) - nDisc
	c.R.Extra["mutants_detected"] = nDet
	c.R.Extra["mutants_missed"] = nMiss
	c.R.Extra["mutants_discarded"] = nDisc
	c.R.Extra["mutants"] = list
	fmt.Printf("  sensitivity: %d operator(s): %d detected, %d missed, %d discarded\n", len(results), nDet, nMiss, nDisc)
}
