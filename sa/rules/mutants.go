package rules

import "fmt"

func mutantOverlay(spec string) (map[string][]byte, error) {
	return nil, fmt.Errorf("no such mutant %q", spec)
}

func runSensitivity(c *Ctx) {}
