package rules

import (
	"go/token"
	"regexp"
	"strings"

	"golang.org/x/tools/go/ssa"

	"mhubsa/ana"
)

func init() {
	register("C12", Meta{
		Explanation: "Structural necessary conditions of cancel/expiry refunds: (authorised) the refund mint is cut off from the entry by 'sender.String() == entry.Sender' with sender derived from the function's sender parameter and the entry taken from an iteration of the unbatched pool only, selected by 'entry.Id == id'; the message path passes msg.Sender/msg.Id and GetSigners returns that Sender; (amount) the minted value is Token+Fee+ValCommission of that entry, converted (shared with C01.refund-amount); (recipient) coins go to the authorised sender only under RefundChainId == \"hub\", otherwise through TempAddress into a new pool entry on entry.RefundChainId addressed to entry.RefundAddress carrying the same coins; (once) the pool entry is deleted on every success path after the mint; (expiry) the sweep reaches the refund only under Unix(entry.CreatedAt).Add(OutgoingTxTimeout).Before(BlockTime) (or the mirrored After) and passes that entry's own Id and Sender.",
		NotDecided:  []string{"refund of module-generated entries with empty RefundChainId", "that the refund cannot fail after its mint in the unguarded sweep (error result dropped at the sweep; see DESIGN.md C12)", "arithmetic exactness of the decimals conversion (C11)"},
		Assumptions: commonAssumptions,
	}, checkC12)
}

// refundFns: functions that mint and delete a pool entry.
func (c *Ctx) refundFns(reach map[*ssa.Function]bool) []*ssa.Function {
	var out []*ssa.Function
	for _, f := range c.SemanticFuncs(reach) {
		effs := c.Effects(f)
		if hasEff(effs, "bank", "MintCoins", "") && hasEff(effs, "store", "Delete", "SendToExternalKey") {
			out = append(out, f)
		}
	}
	return out
}

func paramLeaf(l *ana.Prov, f *ssa.Function, name string) bool {
	for lab := range l.Leaves {
		if strings.HasPrefix(lab, "param:"+fname(f)+"#") && strings.HasSuffix(lab, ":"+name) {
			return true
		}
	}
	return false
}

func checkC12(c *Ctx) {
	p, r := c.P, c.R
	roots := c.Roots()
	reach := c.ConsensusReach()
	rfs := c.refundFns(reach)
	r.Min("C12.authorised", 5)
	r.Min("C12.amount", 2)
	r.Min("C12.recipient", 2)
	r.Min("C12.once", 2)
	r.Min("C12.expiry", 4)
	if len(rfs) == 0 {
		r.Undecided("C12.authorised", "role", "-", "no refund function (mint + pool delete) found")
		return
	}
	// the refund equals what was taken only if conversions truncate (C11), and a transfer is released for
	// expiry only by a batch timeout measured against an observed height (C13)
	c.include("amount", "C11", rulesIn("C11.convert-truncates"))
	c.includeKeys("expiry", "C13", rulesIn("C13.timeout-guard"), func(rule, key string) bool {
		return strings.Contains(key, "no-projection") || strings.Contains(key, "guard:")
	})
	isRefund := map[*ssa.Function]bool{}
	for _, f := range rfs {
		isRefund[f] = true
	}
	c.checkUnitsIn("C12.amount", reach, func(f *ssa.Function) bool { return isRefund[f] })
	for _, f := range rfs {
		effs := c.Effects(f)
		var mint *Eff
		for i := range effs {
			if effs[i].Kind == "bank" && effs[i].Op == "MintCoins" && effs[i].In == f {
				mint = &effs[i]
			}
		}
		if mint == nil {
			r.Undecided("C12.authorised", fname(f), p.Pos(f.Pos()), "mint not in the refund function body")
			continue
		}
		// the sender parameter (string) and the id parameter (uint64)
		var senderPar, idPar *ssa.Parameter
		for _, par := range f.Params {
			if par.Type().String() == "string" {
				senderPar = par
			}
			if par.Type().String() == "uint64" {
				idPar = par
			}
		}
		if senderPar == nil || idPar == nil {
			r.Undecided("C12.authorised", fname(f), p.Pos(f.Pos()), "refund function without (id uint64, sender string) parameters")
			continue
		}
		// ---- authorised: sender equality ---------------------------------------
		var entryVal ssa.Value
		senderEq := ana.AtomCmp(func(op token.Token, x, y ssa.Value) (bool, bool) {
			if op != token.EQL && op != token.NEQ {
				return false, false
			}
			for _, pr := range [][2]ssa.Value{{x, y}, {y, x}} {
				la := p.Leaves(pr[0], ana.PVOpt{})
				lb := p.Leaves(pr[1], ana.PVOpt{})
				if paramLeaf(la, f, senderPar.Name()) && !la.HasField("SendToExternal.Sender") && lb.HasField("SendToExternal.Sender") && !paramLeaf(lb, f, senderPar.Name()) {
					root, _ := rootAndPath(pr[1])
					entryVal = root
					return op == token.EQL, true
				}
			}
			return false, false
		})
		r.Check(ana.Guarded(mint.At, senderEq), "C12.authorised", "sender-check:"+fname(f), c.pos(mint.At),
			"refund mint guarded by sender == entry.Sender", "the refund mint is reachable without the test that the requesting sender equals the entry's recorded Sender")
		// ---- authorised: entry from the unbatched pool only, selected by id -------------
		okPool, okID := false, false
		poolOnly := func(callee *ssa.Function) bool {
			iterPool, other := false, false
			for g := range p.ReachCS(callee) {
				for _, op := range p.StoreOps(g) {
					if op.IsIter() || op.Op == "Get" {
						if c.prefixName(op) == "SendToExternalKey" {
							iterPool = true
						} else if c.prefixName(op) != "" {
							other = true
						}
					}
				}
			}
			return iterPool && !other
		}
		isIDParam := func(v ssa.Value) bool {
			if v == ssa.Value(idPar) {
				return true
			}
			lv := p.Leaves(v, ana.PVOpt{})
			return len(lv.List()) == 1 && paramLeaf(lv, f, idPar.Name())
		}
		if entryVal != nil {
			l := p.Leaves(entryVal, ana.PVOpt{Opaque: func(d ana.CalleeDesc) bool { return true }})
			for lab, vals := range l.Vals {
				if !strings.HasPrefix(lab, "call:") {
					continue
				}
				for _, v := range vals {
					call, ok := v.(*ssa.Call)
					if !ok {
						continue
					}
					if callee := call.Call.StaticCallee(); callee != nil && poolOnly(callee) {
						okPool = true
					}
				}
			}
			// the assignment entry = candidate is guarded by candidate.Id == id
			idEq := ana.AtomCmp(func(op token.Token, x, y ssa.Value) (bool, bool) {
				if op != token.EQL && op != token.NEQ {
					return false, false
				}
				for _, pr := range [][2]ssa.Value{{x, y}, {y, x}} {
					la := p.Leaves(pr[0], ana.PVOpt{})
					if la.HasField("SendToExternal.Id") && isIDParam(pr[1]) {
						return op == token.EQL, true
					}
				}
				return false, false
			})
			ev := entryVal
			if ld, ok := ev.(*ssa.UnOp); ok {
				ev = ld.X
			}
			n, all := 0, true
			switch x := ev.(type) {
			case *ssa.Alloc:
				for _, ref := range *x.Referrers() {
					if st, ok := ref.(*ssa.Store); ok && st.Addr == ssa.Value(x) && !ana.IsNilConst(st.Val) {
						n++
						if !ana.Guarded(st, idEq) {
							all = false
						}
					}
					// the variable is assigned inside a callback handed to an iteration function
					mc, ok := ref.(*ssa.MakeClosure)
					if !ok {
						continue
					}
					cf, _ := mc.Fn.(*ssa.Function)
					if cf == nil {
						continue
					}
					for bi, bnd := range mc.Bindings {
						if bnd != ssa.Value(x) || bi >= len(cf.FreeVars) {
							continue
						}
						fv := cf.FreeVars[bi]
						for _, fr := range *fv.Referrers() {
							if st, ok := fr.(*ssa.Store); ok && st.Addr == ssa.Value(fv) && !ana.IsNilConst(st.Val) {
								n++
								if _, isPar := st.Val.(*ssa.Parameter); !isPar || !ana.Guarded(st, idEq) {
									all = false
								}
							}
						}
					}
					for _, mr := range *mc.Referrers() {
						if call, ok := mr.(*ssa.Call); ok {
							if callee := call.Call.StaticCallee(); callee != nil && poolOnly(callee) {
								okPool = true
							}
						}
					}
				}
			case *ssa.Phi:
				seenPhi := map[*ssa.Phi]bool{}
				var visit func(ph *ssa.Phi)
				visit = func(ph *ssa.Phi) {
					if seenPhi[ph] {
						return
					}
					seenPhi[ph] = true
					for i, e := range ph.Edges {
						if ana.IsNilConst(e) {
							continue
						}
						if q, ok := e.(*ssa.Phi); ok {
							visit(q)
							continue
						}
						n++
						pred := ph.Block().Preds[i]
						if !ana.Guarded(pred.Instrs[len(pred.Instrs)-1], idEq) {
							all = false
						}
					}
				}
				visit(x)
			}
			okID = n > 0 && all
		}
		r.Check(okPool, "C12.authorised", "pool-only:"+fname(f), c.pos(mint.At), "the refunded entry is looked up in the unbatched pool only", "the refunded entry does not come from an iteration of the unbatched pool only (a batched transfer could be refunded)")
		r.Check(okID, "C12.authorised", "by-id:"+fname(f), c.pos(mint.At), "the entry is selected by entry.Id == id", "the refunded entry is not selected by equality of its Id with the requested id")

		// ---- amount ------------------------------------------------------------------
		c.checkRefundAmount("C12.amount", f, *mint)

		// ---- recipient ---------------------------------------------------------------
		hubEq := ana.AtomCmp(func(op token.Token, x, y ssa.Value) (bool, bool) {
			if op != token.EQL && op != token.NEQ {
				return false, false
			}
			for _, pr := range [][2]ssa.Value{{x, y}, {y, x}} {
				if isConstVal(pr[1], `"hub"`) && p.Leaves(pr[0], ana.PVOpt{}).HasField("SendToExternal.RefundChainId") {
					return op == token.EQL, true
				}
			}
			return false, false
		})
		notHub := func(cd ana.Cond) (bool, bool) {
			h, ok := hubEq(cd)
			return !h, ok
		}
		for _, e := range effs {
			if e.Kind != "bank" || e.Op != "SendCoinsFromModuleToAccount" || e.In != f {
				continue
			}
			rcpt := e.Bank.Args[2]
			lr := p.Leaves(rcpt, ana.PVOpt{})
			switch {
			case paramLeaf(lr, f, senderPar.Name()) && !lr.HasPrefix("global:"):
				r.Check(ana.Guarded(e.At, hubEq), "C12.recipient", "direct:"+fname(f), c.pos(e.At), "direct refund to the authorised sender only under RefundChainId == \"hub\"",
					"coins are paid directly to the requesting sender on a path not guarded by entry.RefundChainId == \"hub\"")
			case lr.Has("global:TempAddress"):
				// must be followed by a pool insert on RefundChainId / RefundAddress with the minted coin
				var ins []ssa.Instruction
				okArgs := false
				detail := ""
				ana.Calls(f, func(site ssa.CallInstruction, d ana.CalleeDesc) {
					for _, callee := range p.Callees(site) {
						if !hasEff(c.Effects(callee), "bank", "BurnCoins", "") {
							continue
						}
						ins = append(ins, site.(ssa.Instruction))
						var chainOK, addrOK, coinOK bool
						for _, a := range site.Common().Args {
							la := p.Leaves(a, ana.PVOpt{})
							if n := ana.NamedOf(a.Type()); n != nil && n.Obj().Name() == "ChainID" && la.HasField("SendToExternal.RefundChainId") {
								chainOK = true
							}
							if la.HasField("SendToExternal.RefundAddress") {
								addrOK = true
							}
							if n := ana.NamedOf(a.Type()); n != nil && n.Obj().Name() == "Coin" {
								lm := p.Leaves(a, amountOpt)
								if lm.HasField("SendToExternal.Token.Amount") && lm.HasField("SendToExternal.Fee.Amount") && lm.HasField("SendToExternal.ValCommission.Amount") {
									coinOK = true
								}
							}
						}
						okArgs = chainOK && addrOK && coinOK
						detail = sprintf("chain<-RefundChainId=%v recipient<-RefundAddress=%v amount=minted=%v", chainOK, addrOK, coinOK)
					}
				})
				ok, ret := ana.MustPassBefore(e.At, ins, false)
				where := "-"
				if ret != nil {
					where = c.pos(ret)
				}
				r.Check(ok && okArgs && len(ins) > 0 && ana.Guarded(e.At, notHub), "C12.recipient", "cross-chain:"+fname(f), c.pos(e.At),
					"refund through TempAddress is re-pooled on entry.RefundChainId to entry.RefundAddress with the minted coins",
					sprintf("the cross-chain refund does not re-pool the minted coins to the originating chain/address on every success path (%s, unpaired exit %s)", detail, where))
			default:
				r.Bad("C12.recipient", "other:"+fname(f), c.pos(e.At), "refunded coins are sent to an account that is neither the authorised sender nor the module's temp address: "+strings.Join(lr.List(), ","))
			}
		}

		// ---- once ---------------------------------------------------------------------
		var dl []ssa.Instruction
		for _, e := range effsOf(effs, "store", "Delete", "SendToExternalKey") {
			if e.In == f {
				dl = append(dl, e.At)
			}
		}
		ok, ret := ana.MustPassBefore(mint.At, dl, false)
		if !ok {
			r.Bad("C12.once", fname(f), c.pos(mint.At), "a success return at "+c.pos(ret)+" is reachable after the refund mint without deleting the pool entry (it could be refunded again)")
		} else {
			r.Ok("C12.once", fname(f), c.pos(mint.At), "pool entry deleted on every success path after the mint")
		}

		// no path removes the entry without paying: every delete of the pool entry is preceded by the mint
		entry := f.Blocks[0].Instrs[0]
		for _, d := range dl {
			paid := (d.Block() == mint.At.Block() && ana.InstrIndex(mint.At) < ana.InstrIndex(d)) ||
				(d.Block() != mint.At.Block() && !ana.ReachesWithout(entry, d, map[*ssa.BasicBlock]bool{mint.At.Block(): true}))
			r.Check(paid, "C12.once", "paid-before-delete:"+fname(f), c.pos(d), "the pool entry is deleted only after the refund was minted",
				"the refund function can delete the pool entry on a path that never mints the refund: the transfer disappears and nothing is paid back")
		}

		// ---- message path -------------------------------------------------------------
		for _, e := range p.In[f] {
			if !isRoot(e.Caller, roots.Msg) {
				continue
			}
			okS, okI := false, false
			for _, a := range e.Site.Common().Args {
				la := p.Leaves(a, ana.PVOpt{})
				if la.HasField("MsgCancelSendToExternal.Sender") {
					okS = true
				}
				if la.HasField("MsgCancelSendToExternal.Id") {
					okI = true
				}
			}
			r.Check(okS && okI, "C12.authorised", "msg-args:"+fname(e.Caller), c.pos(e.Site), "message path passes msg.Sender and msg.Id", "the cancel message handler does not pass the message's own Sender and Id to the refund")
		}
		// GetSigners of the cancel message returns Sender
		if gs := p.Func("mhub2/types.MsgCancelSendToExternal.GetSigners"); gs != nil {
			okG := false
			ana.Instrs(gs, func(in ssa.Instruction) {
				if ret, ok := in.(*ssa.Return); ok && len(ret.Results) == 1 {
					if p.Leaves(ret.Results[0], ana.PVOpt{}).HasField("MsgCancelSendToExternal.Sender") {
						okG = true
					}
				}
			})
			r.Check(okG, "C12.authorised", "signer", p.Pos(gs.Pos()), "MsgCancelSendToExternal.GetSigners returns Sender", "the cancel message's required signer is not its Sender field")
		}

		// ---- expiry -------------------------------------------------------------------
		expired := ana.AtomCallBool(func(call *ssa.Call, d ana.CalleeDesc) bool {
			if d.Recv != "Time" || (d.Name != "Before" && d.Name != "After") || len(call.Call.Args) != 2 {
				return false
			}
			a, b := call.Call.Args[0], call.Call.Args[1]
			if d.Name == "After" {
				a, b = b, a
			}
			la := p.Leaves(a, ana.PVOpt{Opaque: func(d ana.CalleeDesc) bool { return d.Name == "GetOutgoingTxTimeout" }})
			lb := p.Leaves(b, ana.PVOpt{})
			return la.HasField("SendToExternal.CreatedAt") && la.HasCall("Keeper.GetOutgoingTxTimeout") && la.HasOp("Time.Add") && !la.HasOp("Time.Sub") &&
				lb.HasCall("Context.BlockTime") && !lb.HasField("SendToExternal.CreatedAt")
		}, true)
		endReach := p.Reach(roots.End...)
		beginReach := p.Reach(roots.Begin...)
		nSweep := 0
		sweepFns := map[*ssa.Function]bool{}
		var walk func(g *ssa.Function, depth int)
		seen := map[*ssa.Function]bool{}
		walk = func(g *ssa.Function, depth int) {
			if depth > 4 || seen[g] {
				return
			}
			seen[g] = true
			for _, e := range p.In[g] {
				if !(endReach[e.Caller] || beginReach[e.Caller]) || isRoot(e.Caller, roots.Msg) {
					continue
				}
				if p.Reach(roots.Msg...)[e.Caller] && !endReach[e.Caller] && !beginReach[e.Caller] {
					continue
				}
				in := e.Site.(ssa.Instruction)
				if ana.Guarded(in, expired) {
					nSweep++
					sweepFns[ana.Outermost(e.Caller)] = true
					// passes the entry's own id and sender
					okI, okS := false, false
					for _, a := range e.Site.Common().Args {
						la := p.Leaves(a, ana.PVOpt{})
						if la.HasField("SendToExternal.Id") {
							okI = true
						}
						if la.HasField("SendToExternal.Sender") {
							okS = true
						}
					}
					r.Ok("C12.expiry", "guard:"+fname(e.Caller), c.pos(in), "sweep reaches the refund only under CreatedAt+OutgoingTxTimeout before BlockTime")
					r.Check(okI && okS, "C12.expiry", "own-entry:"+fname(e.Caller), c.pos(in), "the sweep passes the expired entry's own Id and Sender", "the expiry sweep does not pass the expired entry's own Id and Sender to the refund")
					continue
				}
				// collect-then-refund: the entry passed is drawn from a local slice all of whose appends are guarded
				if okC, det := c.collectedUnder(e.Caller, e.Site, expired); okC {
					nSweep++
					sweepFns[ana.Outermost(e.Caller)] = true
					okI, okS := false, false
					for _, a := range e.Site.Common().Args {
						la := p.Leaves(a, ana.PVOpt{})
						if la.HasField("SendToExternal.Id") {
							okI = true
						}
						if la.HasField("SendToExternal.Sender") {
							okS = true
						}
					}
					r.Ok("C12.expiry", "guard:"+fname(e.Caller), c.pos(in), "the sweep refunds only entries collected under CreatedAt+OutgoingTxTimeout before BlockTime ("+det+")")
					r.Check(okI && okS, "C12.expiry", "own-entry:"+fname(e.Caller), c.pos(in), "the sweep passes the expired entry's own Id and Sender", "the expiry sweep does not pass the expired entry's own Id and Sender to the refund")
					continue
				}
				// not guarded here: go further up, unless this is a root
				if isRoot(e.Caller, roots.Block) || len(p.Entries(e.Caller)) == 0 {
					r.Bad("C12.expiry", "guard:"+fname(e.Caller), c.pos(in), "block processing reaches the refund without the expiry test (CreatedAt + OutgoingTxTimeout before BlockTime)")
					continue
				}
				if mc := p.ClosureSite(e.Caller); mc != nil {
					// closure: guards of the creation site do not know the entry; require the guard inside
					r.Bad("C12.expiry", "guard:"+fname(e.Caller), c.pos(in), "the sweep callback reaches the refund without the expiry test on that entry")
					continue
				}
				walk(e.Caller, depth+1)
			}
		}
		walk(f, 0)
		// the sweep looks at every pool entry: the pool is ordered by token and fee, not by age, so an iteration
		// callback that can stop the scan (return true) leaves expired entries behind live ones unrefunded
		// the sweep runs in every block: a period other than 1 lets an expired transfer that is released from a
		// timed-out batch in an off block be batched again before the sweep sees it
		for _, o := range sortedFuncs(sweepFns) {
			period := ""
			for _, b := range o.Blocks {
				if len(b.Instrs) == 0 {
					continue
				}
				iff, ok := b.Instrs[len(b.Instrs)-1].(*ssa.If)
				if !ok {
					continue
				}
				ex := p.Expr(iff.Cond, 0)
				if m := regexp.MustCompile(`^\(\(Context\.BlockHeight\(\)%(\d+)\)[!=]=0\)$`).FindStringSubmatch(ex); m != nil && m[1] != "1" {
					period = m[1] + " (" + c.pos(iff) + ")"
				}
			}
			r.Check(period == "", "C12.expiry", "every-block:"+fname(o), p.Pos(o.Pos()), "the expiry sweep is not tied to a block period other than 1",
				"the expiry sweep only runs every "+period+" blocks: expired transfers that become unbatched in between are batched again instead of being refunded")
		}
		for _, o := range sortedFuncs(sweepFns) {
			var cbs []*ssa.Function
			var collect func(g *ssa.Function)
			collect = func(g *ssa.Function) {
				for _, an := range g.AnonFuncs {
					sig := an.Signature
					if sig.Results().Len() == 1 && sig.Results().At(0).Type().String() == "bool" && sig.Params().Len() >= 1 {
						if n := ana.NamedOf(sig.Params().At(sig.Params().Len() - 1).Type()); n != nil && n.Obj().Name() == "SendToExternal" {
							cbs = append(cbs, an)
						}
					}
					collect(an)
				}
			}
			collect(o)
			for _, cb := range cbs {
				stops := ""
				ana.Instrs(cb, func(in ssa.Instruction) {
					if ret, ok := in.(*ssa.Return); ok && in.Parent() == cb && len(ret.Results) == 1 {
						if k, ok := ret.Results[0].(*ssa.Const); !ok || k.Value == nil || k.Value.ExactString() != "false" {
							stops = c.pos(in)
						}
					}
				})
				r.Check(stops == "", "C12.expiry", "full-scan:"+fname(cb), p.Pos(cb.Pos()), "the sweep's pool callback never stops the iteration",
					"the expiry sweep's pool callback can stop the iteration (return at "+stops+" is not the constant false): expired transfers that sort behind a live one are neither refunded nor removed")
			}
		}
		if nSweep == 0 {
			r.Undecided("C12.expiry", fname(f), "-", "no guarded expiry sweep call found")
		}
	}
	// the age of a transfer is fixed when it is created: its CreatedAt is written by the pool insert only
	// (a batch that is dissolved puts its transfers back with the age they have)
	nCA := 0
	for _, f := range sortedFuncs(c.LiveReach()) {
		if p.L.IsGenerated(f.Pos()) || !p.IsModule(f) {
			continue
		}
		ana.Instrs(f, func(in ssa.Instruction) {
			st, ok := in.(*ssa.Store)
			if !ok {
				return
			}
			fa, ok := st.Addr.(*ssa.FieldAddr)
			if !ok {
				return
			}
			n := ana.NamedOf(fa.X.Type())
			sT := structOf(fa.X.Type())
			if n == nil || sT == nil || n.Obj().Name() != "SendToExternal" || sT.Field(fa.Field).Name() != "CreatedAt" {
				return
			}
			nCA++
			o := ana.Outermost(f)
			okIns := hasEff(c.Effects(o), "bank", "BurnCoins", "") || c.isGenesisImport(o)
			_, fresh := fa.X.(*ssa.Alloc)
			r.Check(okIns && fresh, "C12.expiry", "created-at:"+fname(f), c.pos(st), "CreatedAt is set where the pool entry is created",
				fname(f)+" rewrites the CreatedAt of an existing transfer: its age starts again, so the expiry sweep (CreatedAt + timeout before block time) no longer refunds it when the timeout has passed since the request")
		})
	}
	if nCA == 0 {
		r.Undecided("C12.expiry", "created-at", "-", "no assignment of SendToExternal.CreatedAt found")
	}
	// ... and it is the time of the block that creates it: module code does not run a step under a context whose
	// block time or height it has set itself
	for _, f := range sortedFuncs(c.LiveReach()) {
		if p.L.IsGenerated(f.Pos()) || !p.IsModule(f) {
			continue
		}
		ana.Calls(f, func(site ssa.CallInstruction, d ana.CalleeDesc) {
			if d.Recv == "Context" && (d.Name == "WithBlockTime" || d.Name == "WithBlockHeight" || d.Name == "WithBlockHeader") {
				r.Bad("C12.expiry", "context-time:"+fname(f), c.pos(site.(ssa.Instruction)), fname(f)+" runs code under a context whose block time / height it sets itself ("+d.Name+"): what is created there carries that time (a transfer created with an old CreatedAt is already expired)")
			}
		})
	}
}

// collectedUnder: every entry-typed argument of the call is an element of one local slice, and every
// append into that slice (in the function or its closures) is guarded by the atom.
func (c *Ctx) collectedUnder(f *ssa.Function, site ssa.CallInstruction, atom ana.Atom) (bool, string) {
	var slice ssa.Value
	for _, a := range site.Common().Args {
		root, path := rootAndPath(a)
		if path == "" {
			continue
		}
		ld, ok := root.(*ssa.UnOp)
		if !ok {
			continue
		}
		ia, ok := ld.X.(*ssa.IndexAddr)
		if !ok || !fullRange(ia) {
			continue
		}
		if slice != nil && slice != ia.X {
			return false, ""
		}
		slice = ia.X
	}
	if slice == nil {
		return false, ""
	}
	// the variable behind the slice value
	var variable *ssa.Alloc
	if ld, ok := slice.(*ssa.UnOp); ok {
		variable, _ = ld.X.(*ssa.Alloc)
	}
	if variable == nil {
		return false, ""
	}
	n := 0
	okAll := true
	checkStore := func(st *ssa.Store) {
		if ana.IsNilConst(st.Val) {
			return
		}
		call, isC := st.Val.(*ssa.Call)
		if !isC {
			okAll = false
			return
		}
		if b, isB := call.Call.Value.(*ssa.Builtin); !isB || b.Name() != "append" {
			okAll = false
			return
		}
		n++
		if !ana.Guarded(st, atom) {
			okAll = false
		}
	}
	for _, ref := range *variable.Referrers() {
		switch x := ref.(type) {
		case *ssa.Store:
			if x.Addr == ssa.Value(variable) {
				checkStore(x)
			}
		case *ssa.MakeClosure:
			fn, _ := x.Fn.(*ssa.Function)
			if fn == nil {
				continue
			}
			for i, b := range x.Bindings {
				if b == ssa.Value(variable) && i < len(fn.FreeVars) {
					for _, r2 := range *fn.FreeVars[i].Referrers() {
						if st, ok := r2.(*ssa.Store); ok && st.Addr == ssa.Value(fn.FreeVars[i]) {
							checkStore(st)
						}
					}
				}
			}
		}
	}
	return okAll && n > 0, sprintf("%d guarded append(s) into %s", n, variable.Comment)
}
