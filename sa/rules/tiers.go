package rules

import (
	"go/constant"
	"go/token"
	"sort"

	"golang.org/x/tools/go/ssa"

	"mhubsa/ana"
)

// tierRow is one row of a table-driven discount table: holder-value threshold in whole HUB, discount in percent.
type tierRow struct{ n, k int64 }

// peelNum strips numeric conversions.
func peelNum(v ssa.Value) ssa.Value {
	for i := 0; i < 6; i++ {
		switch x := v.(type) {
		case *ssa.Convert:
			v = x.X
		case *ssa.ChangeType:
			v = x.X
		default:
			return v
		}
	}
	return v
}

// elemField: v is field j of an element of a slice reached through an IndexAddr (value copy or address form).
func elemField(v ssa.Value) (*ssa.IndexAddr, int, ssa.Instruction) {
	v = peelNum(v)
	switch x := v.(type) {
	case *ssa.Field:
		if ld, ok := x.X.(*ssa.UnOp); ok && ld.Op == token.MUL {
			if ia, ok := ld.X.(*ssa.IndexAddr); ok {
				return ia, x.Field, x
			}
		}
	case *ssa.UnOp:
		if x.Op == token.MUL {
			if fa, ok := x.X.(*ssa.FieldAddr); ok {
				if ia, ok := fa.X.(*ssa.IndexAddr); ok {
					return ia, fa.Field, x
				}
				// a local copy of the element: tier := table[i] spilled to an Alloc
				if a, ok := fa.X.(*ssa.Alloc); ok {
					var src *ssa.IndexAddr
					n := 0
					for _, r := range *a.Referrers() {
						if st, ok := r.(*ssa.Store); ok && st.Addr == ssa.Value(a) {
							n++
							if ld, ok := st.Val.(*ssa.UnOp); ok && ld.Op == token.MUL {
								src, _ = ld.X.(*ssa.IndexAddr)
							}
						}
					}
					if n == 1 && src != nil {
						return src, fa.Field, x
					}
				}
			}
		}
	}
	return nil, 0, nil
}

// constTable reads a slice of structs of integer constants: a local composite literal, or a package-level
// variable that is assigned once (by the package initialiser) and whose elements are never stored to.
func (c *Ctx) constTable(s ssa.Value) ([][]int64, bool) {
	p := c.P
	var arr *ssa.Alloc
	switch x := s.(type) {
	case *ssa.Slice:
		arr, _ = x.X.(*ssa.Alloc)
	case *ssa.UnOp:
		if x.Op != token.MUL {
			return nil, false
		}
		switch y := x.X.(type) {
		case *ssa.Global:
			init := p.GlobalInit(y)
			if init == nil {
				return nil, false
			}
			// nothing else writes the variable or its elements
			clean := true
			for _, fn := range p.AllFuncs {
				ana.Instrs(fn, func(in ssa.Instruction) {
					switch z := in.(type) {
					case *ssa.Store:
						if z.Addr == ssa.Value(y) && !(fn.Name() == "init" && fn.Synthetic != "") {
							clean = false
						}
					case *ssa.IndexAddr:
						if ld, ok := z.X.(*ssa.UnOp); ok && ld.X == ssa.Value(y) {
							for _, r := range *z.Referrers() {
								switch w := r.(type) {
								case *ssa.Store:
									if w.Addr == ssa.Value(z) {
										clean = false
									}
								case *ssa.FieldAddr:
									for _, rr := range *w.Referrers() {
										if st, ok := rr.(*ssa.Store); ok && st.Addr == ssa.Value(w) {
											clean = false
										}
									}
								}
							}
						}
					}
				})
			}
			if !clean {
				return nil, false
			}
			if sl, ok := init.(*ssa.Slice); ok {
				arr, _ = sl.X.(*ssa.Alloc)
			}
		case *ssa.Alloc:
			// a local variable holding the literal
			var st *ssa.Store
			n := 0
			for _, r := range *y.Referrers() {
				if s2, ok := r.(*ssa.Store); ok && s2.Addr == ssa.Value(y) {
					st = s2
					n++
				}
			}
			if n == 1 {
				return c.constTable(st.Val)
			}
		}
	}
	if arr == nil {
		return nil, false
	}
	rows := map[int64]map[int]int64{}
	ok := true
	nfields := 0
	for _, r := range *arr.Referrers() {
		switch x := r.(type) {
		case *ssa.IndexAddr:
			k, isC := x.Index.(*ssa.Const)
			if !isC || k.Value == nil {
				ok = false
				continue
			}
			i, _ := constant.Int64Val(k.Value)
			for _, rr := range *x.Referrers() {
				fa, isFA := rr.(*ssa.FieldAddr)
				if !isFA {
					ok = false
					continue
				}
				for _, r3 := range *fa.Referrers() {
					st, isSt := r3.(*ssa.Store)
					if !isSt || st.Addr != ssa.Value(fa) {
						ok = false
						continue
					}
					cv, isC := st.Val.(*ssa.Const)
					if !isC || cv.Value == nil || cv.Value.Kind() != constant.Int {
						ok = false
						continue
					}
					val, _ := constant.Int64Val(cv.Value)
					if rows[i] == nil {
						rows[i] = map[int]int64{}
					}
					rows[i][fa.Field] = val
					if fa.Field+1 > nfields {
						nfields = fa.Field + 1
					}
				}
			}
		case *ssa.Slice, *ssa.DebugRef:
		default:
			ok = false
		}
	}
	if !ok || len(rows) == 0 {
		return nil, false
	}
	var idx []int64
	for i := range rows {
		idx = append(idx, i)
	}
	sort.Slice(idx, func(a, b int) bool { return idx[a] < idx[b] })
	var out [][]int64
	for n, i := range idx {
		if int64(n) != i {
			return nil, false
		}
		row := make([]int64, nfields)
		for f, v := range rows[i] {
			row[f] = v
		}
		out = append(out, row) // fields without a store are zero
	}
	return out, true
}

// tableTiers decides the table-driven form of the holder discount: the percentage k is a column of a constant
// table whose rows are visited from the first to the last, the row is selected by
// holderValue.GTE(convert(0,18,NewInt(row.threshold))) on the same row, and the first row selected ends the
// walk.  It returns the (threshold, percent) rows in table order.
func (c *Ctx) tableTiers(gch *ssa.Function, kval ssa.Value, conv *ssa.Function) ([]tierRow, string) {
	p := c.P
	// the sources of k: table column reads and the constant 0 (no discount)
	var reads []ssa.Value
	seen := map[ssa.Value]bool{}
	var walk func(v ssa.Value) bool
	walk = func(v ssa.Value) bool {
		v = peelNum(v)
		if seen[v] {
			return true
		}
		seen[v] = true
		switch x := v.(type) {
		case *ssa.Const:
			return x.Value != nil && x.Value.ExactString() == "0"
		case *ssa.Phi:
			for _, e := range x.Edges {
				if !walk(e) {
					return false
				}
			}
			return true
		}
		if ia, _, _ := elemField(v); ia != nil {
			reads = append(reads, v)
			return true
		}
		return false
	}
	if !walk(kval) || len(reads) == 0 {
		return nil, "the percentage is not a column of a constant table"
	}
	var rows []tierRow
	for _, rd := range reads {
		ia, kcol, at := elemField(rd)
		table, ok := c.constTable(ia.X)
		if !ok {
			return nil, "the discount table is not a constant table (a literal, or a package variable that is never reassigned)"
		}
		// rows are visited first to last
		if !ana.RangeIndex(ia) {
			return nil, "the table is not walked from its first to its last row"
		}
		// selected under holderValue >= converted threshold of the same row
		ncol := -1
		atom := ana.AtomCallBool(func(call *ssa.Call, d ana.CalleeDesc) bool {
			if d.Recv != "Int" || d.Name != "GTE" || len(call.Call.Args) != 2 {
				return false
			}
			cc, ok := peelNum(call.Call.Args[1]).(*ssa.Call)
			if !ok || len(cc.Call.Args) != 3 || (conv != nil && cc.Call.StaticCallee() != conv) {
				return false
			}
			if p.Expr(cc.Call.Args[0], 0) != "0" || p.Expr(cc.Call.Args[1], 0) != "18" {
				return false
			}
			ni, ok := peelNum(cc.Call.Args[2]).(*ssa.Call)
			if !ok || len(ni.Call.Args) != 1 {
				return false
			}
			if d2, _ := ana.Describe(&ni.Call); d2.Name != "NewInt" {
				return false
			}
			ia2, col, _ := elemField(ni.Call.Args[0])
			if ia2 != ia {
				return false
			}
			ncol = col
			return true
		}, true)
		if !ana.Guarded(at, atom) || ncol < 0 {
			return nil, "the row's percentage is used without the test holder value >= converted threshold of the same row"
		}
		// the first row selected ends the walk
		if blockReaches(at.Block(), ia.Block()) {
			return nil, "a selected row does not end the walk over the table (a later, smaller tier can replace it)"
		}
		rows = rows[:0]
		for _, row := range table {
			if ncol >= len(row) || kcol >= len(row) {
				return nil, "table row without threshold / percentage"
			}
			rows = append(rows, tierRow{row[ncol], row[kcol]})
		}
	}
	return rows, ""
}

func blockReaches(from, to *ssa.BasicBlock) bool {
	seen := map[*ssa.BasicBlock]bool{}
	stack := append([]*ssa.BasicBlock{}, from.Succs...)
	for len(stack) > 0 {
		b := stack[len(stack)-1]
		stack = stack[:len(stack)-1]
		if b == to {
			return true
		}
		if seen[b] {
			continue
		}
		seen[b] = true
		stack = append(stack, b.Succs...)
	}
	return false
}
