package rules

import (
	"regexp"
	"go/token"
	"go/types"
	"strings"

	"golang.org/x/tools/go/ssa"

	"mhubsa/ana"
)

func init() {
	register("C16", Meta{
		Explanation: "Structural necessary conditions for confirmations: (guards) the ExternalSignatureKey write of the message path is cut off from the entry by: chain id valid (CheckChainID err == nil); signer resolved to a bonded validator (C02.signer-bonded resolver, err == nil); the outgoing tx looked up under conf.GetStoreIndex(chain) is non-nil; GetValidatorExternalAddress(chain, val) == conf.GetSigner(); no signature stored yet under the same (chain, index, validator); and the write stores under that validator; (index-agreement) for each of the three tx kinds OutgoingTx.GetStoreIndex and its Confirmation.GetStoreIndex build the index with the same key constructor from corresponding fields; (key-schema) the signature key is prefix|chain|index|validator, its readers iterate prefix|chain|index, and the Unsigned… queries test exactly (chain, otx.GetStoreIndex(chain), requesting validator); (attribution) the three …Confirmations queries attribute each signature to GetValidatorExternalAddress(chain, iterated validator).",
		NotDecided:  []string{"query results over histories beyond key agreement", "ECDSA validity of the confirmation (the check is deliberately disabled in the code and not part of the property)"},
		Assumptions: commonAssumptions,
	}, checkC16)
}

// calleeHasEff: the call's static/module callee has the effect.
func (c *Ctx) calleeHasEff(call *ssa.Call, kind, op, prefix string) bool {
	for _, callee := range c.P.Callees(call) {
		if hasEff(c.Effects(callee), kind, op, prefix) {
			return true
		}
		// one more level for wrappers that are not thin
		for _, e := range c.P.Out[callee] {
			if hasEff(c.Effects(e.Callee), kind, op, prefix) && c.isThin(e.Callee) {
				return true
			}
		}
	}
	return false
}

func checkC16(c *Ctx) {
	c.checkKeyMakers("C16", 1)
	p, r := c.P, c.R
	roots := c.Roots()
	msgReach := p.Reach(roots.Msg...)
	r.Min("C16.guards", 7)
	r.Min("C16.index-agreement", 3)
	r.Min("C16.key-schema", 6)
	r.Min("C16.attribution", 3)

	// the signer resolver answers from the store alone (no process-local cache: delegate keys are per chain and can
	// be re-registered)
	for _, f := range sortedFuncs(c.LiveReach()) {
		if okR, _ := c.bondedResolver(f); !okR {
			continue
		}
		ws := c.globalWrites(p.Reach(f), nil)
		where := p.Pos(f.Pos())
		detail := ""
		if len(ws) > 0 {
			where = c.pos(ws[0].in)
			detail = fname(ws[0].f) + " " + ws[0].how
		}
		r.Check(len(ws) == 0, "C16.guards", "resolver-pure:"+fname(f), where, "the signer resolver keeps no process-local state", "the signer resolver keeps process-local state ("+detail+"): a resolution cached for one chain or one registration is served for another")
	}

	// ---- C16.guards ------------------------------------------------------------
	for _, f := range c.SemanticFuncs(msgReach) {
		if !isRoot(f, roots.Msg) {
			continue
		}
		var wr *Eff
		effs := c.Effects(f)
		for i := range effs {
			if effs[i].Kind == "store" && effs[i].Op == "Set" && effs[i].Prefix == "ExternalSignatureKey" {
				wr = &effs[i]
			}
		}
		if wr == nil {
			// the write may sit in a non-thin helper called from the handler
			ana.Calls(f, func(site ssa.CallInstruction, d ana.CalleeDesc) {
				if call, ok := site.(*ssa.Call); ok && c.calleeHasEff(call, "store", "Set", "ExternalSignatureKey") {
					wr = &Eff{Kind: "store", Op: "Set", Prefix: "ExternalSignatureKey", In: f, At: call}
				}
			})
		}
		if wr == nil {
			continue
		}
		site := wr.At
		wcall, _ := site.(*ssa.Call)
		// (1) chain id
		chainOK := ana.AtomErrNil(func(call *ssa.Call, d ana.CalleeDesc) bool { return d.Name == "CheckChainID" })
		r.Check(ana.Guarded(site, chainOK), "C16.guards", "chain:"+fname(f), c.pos(site), "guarded by CheckChainID(...) == nil", "a confirmation can be recorded without the chain-id check")
		// (2) bonded signer
		ok2, chain := p.GuardedInter(site, 2, c.atomResolved())
		if ok2 {
			r.Ok("C16.guards", "signer:"+fname(f), c.pos(site), "guarded by the bonded-validator resolver")
		} else {
			r.Bad("C16.guards", "signer:"+fname(f), c.pos(site), "a confirmation can be recorded without resolving the signer to a bonded validator", chain...)
		}
		var resolved []*ssa.Call = c.resolverCalls(f)
		// (3) outgoing tx exists under the confirmation's own index
		exists := ana.AtomNotNil(func(v ssa.Value) bool {
			call, _ := ana.UnwrapCall(v)
			if call == nil || !c.calleeHasEff(call, "store", "Get", "OutgoingTxKey") {
				return false
			}
			for _, a := range call.Call.Args {
				l := p.Leaves(a, ana.PVOpt{Opaque: func(d ana.CalleeDesc) bool { return d.Name == "GetStoreIndex" }})
				if l.HasCall("ExternalTxConfirmation.GetStoreIndex") {
					return true
				}
			}
			return false
		})
		r.Check(ana.Guarded(site, exists), "C16.guards", "tx-exists:"+fname(f), c.pos(site), "guarded by GetOutgoingTx(chain, conf.GetStoreIndex(chain)) != nil", "a confirmation can be recorded for an outgoing tx that does not exist under the confirmation's own store index")
		// (4) registered external address == claimed signer
		addrEq := ana.AtomCmp(func(op token.Token, x, y ssa.Value) (bool, bool) {
			if op != token.EQL && op != token.NEQ {
				return false, false
			}
			for _, pr := range [][2]ssa.Value{{x, y}, {y, x}} {
				la := p.Leaves(pr[0], ana.PVOpt{Opaque: func(d ana.CalleeDesc) bool { return d.Name == "GetValidatorExternalAddress" }})
				lb := p.Leaves(pr[1], ana.PVOpt{})
				if !la.HasCall("Keeper.GetValidatorExternalAddress") || !(lb.HasCall("ExternalTxConfirmation.GetSigner") || lb.HasField("ExternalTxConfirmation.Signer")) {
					continue
				}
				// the address looked up is the resolved validator's
				for lab, vals := range la.Vals {
					if !strings.HasSuffix(lab, "GetValidatorExternalAddress") {
						continue
					}
					for _, v := range vals {
						if cc := ana.CallOf(v); cc != nil {
							for _, a := range cc.Args {
								for _, rc := range resolved {
									if derivesFrom(p, a, rc) {
										return op == token.EQL, true
									}
								}
							}
						}
					}
				}
			}
			return false, false
		})
		r.Check(ana.Guarded(site, addrEq), "C16.guards", "signer-address:"+fname(f), c.pos(site), "guarded by GetValidatorExternalAddress(chain, resolved validator) == conf.GetSigner()", "a confirmation can be recorded whose claimed signer is not the resolved validator's registered external address")
		// (5) duplicate
		noDup := ana.AtomIsNil(func(v ssa.Value) bool {
			call, _ := ana.UnwrapCall(v)
			if call == nil || !c.calleeHasEff(call, "store", "Get", "ExternalSignatureKey") {
				return false
			}
			idx, val := false, false
			for _, a := range call.Call.Args {
				l := p.Leaves(a, ana.PVOpt{Opaque: func(d ana.CalleeDesc) bool { return d.Name == "GetStoreIndex" }})
				if l.HasCall("ExternalTxConfirmation.GetStoreIndex") {
					idx = true
				}
				for _, rc := range resolved {
					if derivesFrom(p, a, rc) {
						val = true
					}
				}
			}
			return idx && val
		})
		r.Check(ana.Guarded(site, noDup), "C16.guards", "no-duplicate:"+fname(f), c.pos(site), "guarded by 'no signature stored yet under (chain, conf index, validator)'", "a validator's confirmation can be recorded twice / overwritten: the duplicate test on (chain, index, validator) is missing")
		// (6) stored under the resolved validator, with the confirmation
		okStore := false
		if wcall != nil {
			v, cf := false, false
			for _, a := range wcall.Call.Args {
				for _, rc := range resolved {
					if derivesFrom(p, a, rc) {
						v = true
					}
				}
				if n := ana.NamedOf(a.Type()); n != nil && n.Obj().Name() == "ExternalTxConfirmation" {
					cf = true
				}
			}
			okStore = v && cf
		}
		r.Check(okStore, "C16.guards", "stored-under:"+fname(f), c.pos(site), "the signature is stored under the resolved validator", "the signature is not stored under the validator the signer resolved to")
	}

	// ---- C16.index-agreement ----------------------------------------------------
	pairs := [][2]string{{"SignerSetTx", "SignerSetTxConfirmation"}, {"BatchTx", "BatchTxConfirmation"}, {"ContractCallTx", "ContractCallTxConfirmation"}}
	fieldMap := map[string]string{ // confirmation field -> tx field
		"SignerSetTxConfirmation.SignerSetNonce":       "SignerSetTx.Nonce",
		"BatchTxConfirmation.ExternalTokenId":          "BatchTx.ExternalTokenId",
		"BatchTxConfirmation.BatchNonce":               "BatchTx.BatchNonce",
		"ContractCallTxConfirmation.InvalidationScope": "ContractCallTx.InvalidationScope",
		"ContractCallTxConfirmation.InvalidationNonce": "ContractCallTx.InvalidationNonce",
	}
	for _, pr := range pairs {
		ft := p.Func("mhub2/types." + pr[0] + ".GetStoreIndex")
		fc := p.Func("mhub2/types." + pr[1] + ".GetStoreIndex")
		if ft == nil || fc == nil {
			r.Undecided("C16.index-agreement", pr[0], "-", "GetStoreIndex method not found")
			continue
		}
		kt, lt := indexShape(p, ft)
		kc, lc := indexShape(p, fc)
		ok := kt != nil && kc != nil && strings.Join(kt.Kinds(), "|") == strings.Join(kc.Kinds(), "|") && !strings.Contains(kt.String(), "?") && len(lt) == len(lc) && len(lt) > 0
		detail := ""
		if ok {
			for i := range lc {
				want, has := fieldMap[lc[i]]
				if !has || want != lt[i] {
					ok = false
					detail = sprintf("component %d: confirmation uses %s, tx uses %s", i, lc[i], lt[i])
				}
			}
		} else {
			detail = sprintf("tx index %v %v vs confirmation index %v %v", kt, lt, kc, lc)
		}
		r.Check(ok, "C16.index-agreement", pr[0], p.Pos(fc.Pos()), sprintf("%s and %s build the same index shape %v from corresponding fields %v", pr[0], pr[1], kt.Kinds(), lt), "tx and confirmation store indexes disagree: "+detail)
	}

	// ---- C16.key-schema -----------------------------------------------------------
	live := c.LiveReach()
	for _, f := range sortedFuncs(live) {
		for _, op := range p.StoreOps(f) {
			if c.prefixName(op) != "ExternalSignatureKey" {
				continue
			}
			kinds := strings.Join(op.Key.Kinds(), "|")
			// index component is a parameter or opaque bytes
			norm := strings.NewReplacer("param", "IDX", "bytes", "IDX").Replace(kinds)
			switch {
			case op.IsIter():
				okIdx := norm == "0x04|chain|IDX" || regexp.MustCompile(`^0x04\|chain\|0x[0-9a-f]{2}\|chain\|(u64|str\|u64|IDX|str\|IDX)$`).MatchString(norm)
				r.Check(okIdx, "C16.key-schema", "reader:"+fname(f), c.pos(op.Site), "signature reader iterates prefix|chain|index", "signature reader iterates "+kinds+", expected prefix|chain|index")
				// an index handed in by the caller is a whole store index (it ends in the tx's nonce / id), not a
				// prefix of one: a scan under a token prefix also covers the other batches of the token (and of tokens
				// whose id merely starts with it)
				for pi, pt := range op.Key.Parts {
					if pt.Kind != "param" || pi < 2 {
						continue
					}
					var up func(fn *ssa.Function, par int, depth int)
					up = func(fn *ssa.Function, par int, depth int) {
						for _, e := range p.In[fn] {
							if !live[e.Caller] {
								continue
							}
							args := e.Site.Common().Args
							if par < 0 || par >= len(args) {
								continue
							}
							if ap, isPar := args[par].(*ssa.Parameter); isPar && depth < 3 {
								// handed on: decided at the caller's callers
								for i, q := range e.Caller.Params {
									if q == ap {
										up(e.Caller, i, depth+1)
									}
								}
								continue
							}
							ak := p.KeyOf(args[par]).Kinds()
							if len(ak) == 0 {
								continue
							}
							last := ak[len(ak)-1]
							r.Check(last != "str" && last != "chain", "C16.key-schema", "whole-index:"+fname(e.Caller), c.pos(e.Site.(ssa.Instruction)), "the signatures of one tx are addressed by its whole store index",
								fname(e.Caller)+" addresses signatures by a prefix of a store index ("+strings.Join(ak, "|")+"): the scan also covers the signatures of other pending txs, whose confirmations are then lost or can be recorded twice")
						}
					}
					up(f, pt.Param, 0)
				}
			default:
				okParts := norm == "0x04|chain|IDX|addr"
				detail := ""
				if okParts {
					// the validator component is the function's validator parameter
					last := op.Key.Parts[len(op.Key.Parts)-1]
					l := p.PartLeaves(last, nil, ana.PVOpt{})
					isPar := false
					for lab, vals := range l.Vals {
						if strings.HasPrefix(lab, "param:") {
							for _, v := range vals {
								if n := ana.NamedOf(v.Type()); n != nil && n.Obj().Name() == "ValAddress" {
									isPar = true
								}
							}
						} else {
							detail = "validator component derives from " + lab
							okParts = false
						}
					}
					if !isPar {
						okParts = false
						if detail == "" {
							detail = "validator component is not the validator parameter"
						}
					}
				}
				r.Check(okParts, "C16.key-schema", strings.ToLower(op.Op)+":"+fname(f), c.pos(op.Site), "signature key is prefix|chain|index|validator(parameter)", "signature key is "+kinds+", expected prefix|chain|index|validator parameter; "+detail)
			}
		}
	}
	// Unsigned… queries
	for _, q := range roots.Query {
		if !strings.HasPrefix(q.Name(), "Unsigned") {
			continue
		}
		ok := false
		detail := "no signature lookup found"
		var visit func(f *ssa.Function)
		visit = func(f *ssa.Function) {
			ana.Instrs(f, func(in ssa.Instruction) {
				call, isC := in.(*ssa.Call)
				if !isC || !c.calleeHasEff(call, "store", "Get", "ExternalSignatureKey") {
					return
				}
				idx, val := false, false
				for _, a := range call.Call.Args {
					l := p.Leaves(a, ana.PVOpt{Opaque: func(d ana.CalleeDesc) bool {
						return d.Name == "GetStoreIndex" || d.Name == "getSignerValidator" || strings.HasSuffix(d.Name, "SignerValidator")
					}})
					if l.HasCall("OutgoingTx.GetStoreIndex") {
						idx = true
					}
					if n := ana.NamedOf(a.Type()); n != nil && n.Obj().Name() == "ValAddress" {
						// the asking address is resolved by the resolver the recording side uses (orchestrator ->
						// its validator, otherwise the address itself): another resolution looks under another key
						for lab, vals := range l.Vals {
							if !strings.HasPrefix(lab, "call:") {
								continue
							}
							for _, v := range vals {
								if rc, _ := ana.UnwrapCall(v); rc != nil {
									if callee := rc.Call.StaticCallee(); callee != nil {
										if okR, _ := c.bondedResolver(callee); okR {
											val = true
										}
									}
								}
							}
						}
					}
				}
				ok = idx && val
				detail = sprintf("index from otx.GetStoreIndex=%v, validator from the signer resolver of the recording side=%v", idx, val)
			})
			for _, an := range f.AnonFuncs {
				visit(an)
			}
		}
		visit(q)
		r.Check(ok, "C16.key-schema", "unsigned:"+fname(q), p.Pos(q.Pos()), "tests (chain, otx.GetStoreIndex(chain), requesting validator)", "the unsigned-tx query does not test the signature under (chain, otx.GetStoreIndex(chain), requesting validator): "+detail)
		// the listing callback never stops the iteration early and lists exactly the unsigned ones
		for _, an := range q.AnonFuncs {
			if an.Signature.Results().Len() != 1 || an.Signature.Results().At(0).Type().String() != "bool" || an.Signature.Params().Len() != 2 {
				continue
			}
			if n := ana.NamedOf(an.Signature.Params().At(1).Type()); n == nil || n.Obj().Name() != "OutgoingTx" {
				continue
			}
			okAll, okGuard := true, false
			var appendBlocks = map[*ssa.BasicBlock]bool{}
			var rets []*ssa.Return
			var noSigAtom ana.Atom
			ana.Instrs(an, func(in ssa.Instruction) {
				if ret, isR := in.(*ssa.Return); isR && len(ret.Results) == 1 {
					if !isConstVal(ret.Results[0], "false") {
						okAll = false
					}
					if in.Parent() == an {
						rets = append(rets, ret)
					}
				}
				// the append into the result list is guarded by "no signature stored"
				if st, isS := in.(*ssa.Store); isS {
					if call, isC := st.Val.(*ssa.Call); isC {
						if b, isB := call.Call.Value.(*ssa.Builtin); isB && b.Name() == "append" {
							noSig := func(cd ana.Cond) (bool, bool) {
								// len(sig) == 0  or  sig == nil
								check := func(v ssa.Value) bool {
									if lc, ok := v.(*ssa.Call); ok {
										if bb, ok := lc.Call.Value.(*ssa.Builtin); ok && bb.Name() == "len" {
											v = lc.Call.Args[0]
										}
									}
									sc, _ := ana.UnwrapCall(v)
									return sc != nil && c.calleeHasEff(sc, "store", "Get", "ExternalSignatureKey")
								}
								if cd.Op != token.EQL && cd.Op != token.NEQ && cd.Op != token.GTR && cd.Op != token.LEQ {
									return false, false
								}
								if check(cd.X) && (isConstVal(cd.Y, "0") || ana.IsNilConst(cd.Y)) {
									return cd.Op == token.EQL || cd.Op == token.LEQ, true
								}
								return false, false
							}
							if ana.Guarded(st, noSig) {
								okGuard = true
							}
							appendBlocks[st.Block()] = true
							noSigAtom = noSig
						}
					}
				}
			})
			// ... and only then: a transaction is left out only when a signature of the asking validator is stored
			// (every path to a return that does not pass the append passes the "signature present" edge)
			okOnly := noSigAtom != nil
			if noSigAtom != nil {
				sigPresent := func(cd ana.Cond) (bool, bool) {
					pol, m := noSigAtom(cd)
					return !pol, m
				}
				for _, ret := range rets {
					if !ana.GuardedAvoiding(ret, appendBlocks, sigPresent) {
						okOnly = false
					}
				}
			}
			r.Check(okAll && okGuard && okOnly, "C16.key-schema", "unsigned-complete:"+fname(q), p.Pos(an.Pos()), "the listing callback never stops early and lists a transaction exactly when no signature is stored",
				sprintf("the unsigned-tx query does not list exactly the unconfirmed txs (never stops early=%v, append guarded by 'no signature'=%v, left out only when signed=%v)", okAll, okGuard, okOnly))
		}
	}

	// ---- C16.attribution (= C08.attribution) ----------------------------------------
	c.checkAttribution("C16.attribution")
}

// derivesFrom: v's provenance contains the given value.
func derivesFrom(p *ana.Prog, v ssa.Value, src ssa.Value) bool {
	if v == src {
		return true
	}
	var srcCall ssa.Value
	if ex, ok := src.(*ssa.Extract); ok {
		srcCall = ex.Tuple
	}
	if ex, ok := v.(*ssa.Extract); ok && srcCall != nil && ex.Tuple == srcCall {
		return true
	}
	l := p.Leaves(v, ana.PVOpt{Opaque: func(d ana.CalleeDesc) bool {
		return d.Recv != "ValAddress" && d.Recv != "AccAddress" && d.Recv != "Address"
	}})
	for _, vals := range l.Vals {
		for _, x := range vals {
			if x == src || (srcCall != nil && x == srcCall) {
				return true
			}
		}
	}
	return false
}

// indexShape returns the key shape of a GetStoreIndex method and the fields feeding its components.
func indexShape(p *ana.Prog, f *ssa.Function) (*ana.Key, []string) {
	var k *ana.Key
	ana.Instrs(f, func(in ssa.Instruction) {
		if ret, ok := in.(*ssa.Return); ok && len(ret.Results) == 1 {
			k = p.KeyOf(ret.Results[0])
		}
	})
	if k == nil {
		return nil, nil
	}
	var fields []string
	for _, pt := range k.Parts {
		if pt.Kind == "const" || pt.Kind == "chain" || pt.Kind == "param" {
			continue
		}
		l := p.PartLeaves(pt, nil, ana.PVOpt{})
		fs := l.Fields()
		if len(fs) == 1 {
			fields = append(fields, fs[0])
		} else {
			fields = append(fields, strings.Join(fs, "+"))
		}
	}
	return k, fields
}

// checkAttribution: the …Confirmations queries attribute signatures to the iterated validator's external address.
func (c *Ctx) checkAttribution(rule string) {
	p, r := c.P, c.R
	for _, q := range c.Roots().Query {
		if !strings.HasSuffix(q.Name(), "Confirmations") {
			continue
		}
		// the closure passed to the signature iterator
		found := false
		for _, an := range q.AnonFuncs {
			if len(an.Params) != 2 {
				continue
			}
			valPar, sigPar := an.Params[0], an.Params[1]
			if n := ana.NamedOf(valPar.Type()); n == nil || n.Obj().Name() != "ValAddress" {
				continue
			}
			found = true
			// confirmation literal(s) appended in the closure
			okSigner, okSig := false, false
			detail := ""
			for _, a := range allocsIn(an) {
				n := ana.NamedOf(a.Type())
				if n == nil || !strings.HasSuffix(n.Obj().Name(), "Confirmation") {
					continue
				}
				fs := ana.FieldStores(a)
				for _, v := range fs["ExternalSigner"] {
					l := p.Leaves(v, ana.PVOpt{Opaque: func(d ana.CalleeDesc) bool { return d.Name == "GetValidatorExternalAddress" }})
					for lab, vals := range l.Vals {
						if !strings.HasSuffix(lab, "GetValidatorExternalAddress") {
							continue
						}
						for _, x := range vals {
							if cc := ana.CallOf(x); cc != nil {
								for _, arg := range cc.Args {
									if arg == ssa.Value(valPar) {
										okSigner = true
									}
								}
							}
						}
					}
					if !okSigner {
						detail = "ExternalSigner <- " + strings.Join(l.List(), ",")
					}
				}
				for _, v := range fs["Signature"] {
					if v == ssa.Value(sigPar) || derivesFrom(p, v, sigPar) {
						okSig = true
					}
				}
			}
			r.Check(okSigner && okSig, rule, fname(q), p.Pos(an.Pos()), "ExternalSigner = GetValidatorExternalAddress(chain, iterated validator), Signature = iterated value",
				"the confirmations query does not attribute each signature to the external address of the validator it is stored under: "+detail)
		}
		if !found {
			// the iteration written in place: an iterator over the signatures in the query itself
			for _, op := range p.StoreOps(q) {
				if !op.IsIter() || c.prefixName(op) != "ExternalSignatureKey" {
					continue
				}
				iterVal, _ := op.Site.(ssa.Value)
				if iterVal == nil {
					continue
				}
				found = true
				var keyCalls, valCalls []ssa.Value
				ana.Instrs(q, func(in ssa.Instruction) {
					if call, ok := in.(*ssa.Call); ok && call.Call.IsInvoke() && call.Call.Value == iterVal {
						switch call.Call.Method.Name() {
						case "Key":
							keyCalls = append(keyCalls, call)
						case "Value":
							valCalls = append(valCalls, call)
						}
					}
				})
				okSigner, okSig := false, false
				for _, a := range allocsIn(q) {
					n := ana.NamedOf(a.Type())
					if n == nil || !strings.HasSuffix(n.Obj().Name(), "Confirmation") {
						continue
					}
					fs := ana.FieldStores(a)
					for _, v := range fs["ExternalSigner"] {
						l := p.Leaves(v, ana.PVOpt{Opaque: func(d ana.CalleeDesc) bool { return d.Name == "GetValidatorExternalAddress" }})
						for lab, vals := range l.Vals {
							if !strings.HasSuffix(lab, "GetValidatorExternalAddress") {
								continue
							}
							for _, x := range vals {
								if cc := ana.CallOf(x); cc != nil {
									for _, arg := range cc.Args {
										for _, kc := range keyCalls {
											if operandReaches(arg, kc, 6) {
												okSigner = true
											}
										}
									}
								}
							}
						}
					}
					for _, v := range fs["Signature"] {
						for _, vc := range valCalls {
							if operandReaches(v, vc, 6) {
								okSig = true
							}
						}
					}
				}
				r.Check(okSigner && okSig, rule, fname(q), c.pos(op.Site), "ExternalSigner = GetValidatorExternalAddress(chain, iterated validator), Signature = iterated value",
					"the confirmations query does not attribute each signature to the external address of the validator it is stored under (explicit iterator form)")
			}
		}
		if !found {
			r.Undecided(rule, fname(q), p.Pos(q.Pos()), "no signature-iteration callback found")
		}
	}
}

func allocsIn(f *ssa.Function) []*ssa.Alloc {
	var out []*ssa.Alloc
	ana.Instrs(f, func(in ssa.Instruction) {
		if a, ok := in.(*ssa.Alloc); ok {
			out = append(out, a)
		}
	})
	return out
}

var _ = types.Typ
