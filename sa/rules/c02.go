package rules

import (
	"fmt"
	"os"
	"go/token"
	"regexp"
	"strconv"
	"strings"

	"golang.org/x/tools/go/ssa"

	"mhubsa/ana"
)

func init() {
	register("C02", Meta{
		Explanation: "Structural necessary conditions of the attestation quorum: (identity) the clauses of C14 that make the claim identifier separate differing reports are re-checked here, since votes are pooled per identifier; (key-shape) every parameter of the vote-record and per-validator-nonce key constructors reaches the key; (signer-bonded) the function that resolves a message signer to a validator returns without error only on paths where the staking validator is non-nil and IsBonded() is true, and the value it returns is that validator's operator; the vote-record append is reachable only through the non-error result of that resolver and appends the resolved validator; (one-vote) the single append to ExternalEventVoteRecord.Votes is cut off from the entry by 'event nonce == last+1 or last == 0' with last the per-validator nonce of the same validator, and the per-validator nonce is stored with the event's nonce on every success path after it; (quorum-guard) the call that applies an event is guarded by votePower.GTE/GT(required) with required built from StakingKeeper.GetLastTotalPower by constants A,B with A/B >= 66/100 and votePower a loop-carried sum that adds exactly one GetLastValidatorPower result per vote; (votes-writers) the vote-record prefix is written only by the vote function, the tally function and InitGenesis.",
		NotDecided:  []string{">=66% as an arithmetic fact for every power vector (truncating 66*T/100 under-approximates by less than one power unit)", "powers changing between vote and tally (only: powers are read at tally time)", "behaviour of the staking module"},
		Assumptions: commonAssumptions,
	}, checkC02)
}

// votesAppends finds stores of an append(...) result into <record>.Votes for the named record type.
func votesAppends(c *Ctx, reach map[*ssa.Function]bool, recType string) []*ssa.Store {
	var out []*ssa.Store
	for _, f := range sortedFuncs(reach) {
		if c.P.L.IsGenerated(f.Pos()) {
			continue
		}
		ana.Instrs(f, func(in ssa.Instruction) {
			st, ok := in.(*ssa.Store)
			if !ok {
				return
			}
			fa, ok := st.Addr.(*ssa.FieldAddr)
			if !ok {
				return
			}
			s := structOf(fa.X.Type())
			if s == nil || s.Field(fa.Field).Name() != "Votes" {
				return
			}
			if n := ana.NamedOf(fa.X.Type()); n == nil || n.Obj().Name() != recType {
				return
			}
			out = append(out, st)
		})
	}
	return out
}

// bondedResolver reports whether every success return of fn is guarded by
// "validator != nil" and "IsBonded() == true" for a validator obtained from
// StakingKeeper.Validator, and the returned address is its operator.
func (c *Ctx) bondedResolver(fn *ssa.Function) (ok bool, why string) {
	if fn == nil || fn.Blocks == nil {
		return false, "no body"
	}
	isValidatorCall := func(v ssa.Value) bool {
		l := c.P.Leaves(v, ana.PVOpt{Opaque: func(d ana.CalleeDesc) bool { return true }})
		return l.HasCall("StakingKeeper.Validator") && !l.HasPrefix("param:") && !l.HasPrefix("field:")
	}
	notNil := ana.AtomNotNil(isValidatorCall)
	bonded := ana.AtomCallBool(func(call *ssa.Call, d ana.CalleeDesc) bool {
		return d.Name == "IsBonded" && call.Call.IsInvoke() && isValidatorCall(call.Call.Value)
	}, true)
	_, succ := ana.Returns(fn)
	if len(succ) == 0 {
		return false, "no success return"
	}
	for _, r := range succ {
		if !ana.Guarded(r, notNil) {
			return false, "success return at " + c.pos(r) + " not guarded by validator != nil"
		}
		if !ana.Guarded(r, bonded) {
			return false, "success return at " + c.pos(r) + " not guarded by IsBonded()"
		}
		// returned operator
		if len(r.Results) > 0 {
			l := c.P.Leaves(r.Results[0], ana.PVOpt{Opaque: func(d ana.CalleeDesc) bool { return true }})
			if !l.HasCall("ValidatorI.GetOperator") {
				return false, "success return at " + c.pos(r) + " does not return the bonded validator's operator: " + strings.Join(l.List(), ",")
			}
			for _, v := range l.Vals {
				for _, x := range v {
					if call, ok := x.(*ssa.Call); ok && call.Call.IsInvoke() && call.Call.Method.Name() == "GetOperator" {
						if !isValidatorCall(call.Call.Value) {
							return false, "returned operator is not the checked validator's"
						}
					}
				}
			}
		}
	}
	return true, ""
}

// atomResolved holds where the error of a call to a bonded resolver is nil.
func (c *Ctx) atomResolved() ana.Atom {
	cache := map[*ssa.Function]bool{}
	return ana.AtomErrNil(func(call *ssa.Call, d ana.CalleeDesc) bool {
		fn := call.Call.StaticCallee()
		if fn == nil || !c.P.IsModule(fn) {
			return false
		}
		if v, ok := cache[fn]; ok {
			return v
		}
		ok, _ := c.bondedResolver(fn)
		cache[fn] = ok
		return ok
	})
}

// resolverCalls lists calls to bonded resolvers in fn.
func (c *Ctx) resolverCalls(fn *ssa.Function) []*ssa.Call {
	var out []*ssa.Call
	ana.Instrs(fn, func(in ssa.Instruction) {
		if call, ok := in.(*ssa.Call); ok {
			if callee := call.Call.StaticCallee(); callee != nil && c.P.IsModule(callee) {
				if ok, _ := c.bondedResolver(callee); ok {
					out = append(out, call)
				}
			}
		}
	})
	return out
}

func checkC02(c *Ctx) {
	c.checkKeyMakers("C02", 2)
	p, r := c.P, c.R
	roots := c.Roots()
	reach := c.ConsensusReach()
	msgBlock := p.Reach(append(append([]*ssa.Function{}, roots.Msg...), roots.Block...)...)

	// ---- C02.signer-bonded ---------------------------------------------------
	r.Min("C02.signer-bonded", 3)
	nRes := 0
	for _, f := range sortedFuncs(msgBlock) {
		hasBonded := false
		ana.Calls(f, func(site ssa.CallInstruction, d ana.CalleeDesc) {
			if d.Name == "IsBonded" && d.Iface {
				hasBonded = true
			}
		})
		if !hasBonded {
			continue
		}
		nRes++
		ok, why := c.bondedResolver(f)
		r.Check(ok, "C02.signer-bonded", "resolver:"+fname(f), p.Pos(f.Pos()), "returns without error only for a non-nil, bonded staking validator and returns its operator", why)
	}
	if nRes == 0 {
		r.Undecided("C02.signer-bonded", "resolver", "-", "no function tests IsBonded(): the signer->bonded-validator resolver was not found")
	}
	appends := votesAppends(c, msgBlock, "ExternalEventVoteRecord")
	resolved := c.atomResolved()
	for _, st := range appends {
		ok, chain := p.GuardedInter(st, 6, resolved)
		if ok {
			r.Ok("C02.signer-bonded", "vote-append", c.pos(st), "vote append reachable only through the non-error result of the bonded-validator resolver")
		} else {
			r.Bad("C02.signer-bonded", "vote-append", c.pos(st), "a vote can be appended on a call chain that does not pass the bonded-validator resolver", chain...)
		}
		// the appended string derives from the resolver's result
		call := st.Val.(*ssa.Call)
		okVal := false
		detail := ""
		if len(call.Call.Args) == 2 {
			// bind the enclosing function's parameters at each of its call sites
			fn := st.Parent()
			sites := p.In[fn]
			okVal = len(sites) > 0
			// the resolver may be called by the function that appends (the vote step written in the handler)
			opq := ana.PVOpt{Opaque: func(d ana.CalleeDesc) bool { return d.Recv != "ValAddress" && d.Recv != "AccAddress" }}
			local := false
			ll := p.Leaves(call.Call.Args[1], opq)
			for _, rc := range c.resolverCalls(ana.Outermost(fn)) {
				for _, vals := range ll.Vals {
					for _, v := range vals {
						if v == ssa.Value(rc) {
							local = true
						}
					}
				}
			}
			if local {
				okVal, sites = true, nil
			}
			for _, e := range sites {
				l := p.LeavesAt(call.Call.Args[1], e.Site, ana.PVOpt{Opaque: func(d ana.CalleeDesc) bool { return d.Recv != "ValAddress" && d.Recv != "AccAddress" }})
				found := false
				for _, rc := range c.resolverCalls(e.Caller) {
					for _, vals := range l.Vals {
						for _, v := range vals {
							if v == ssa.Value(rc) {
								found = true
							}
						}
					}
				}
				if !found {
					okVal = false
					detail = "at " + c.pos(e.Site) + ": appended vote derives from " + strings.Join(l.List(), ",")
				}
			}
		}
		r.Check(okVal, "C02.signer-bonded", "vote-value", c.pos(st), "the appended vote is the resolved validator", "the appended vote is not the validator returned by the resolver: "+detail)
	}

	// ---- C02.one-vote -----------------------------------------------------------
	r.Min("C02.one-vote", 5)
	if len(appends) != 1 {
		r.Bad("C02.one-vote", "append-count", "-", sprintf("%d appends to ExternalEventVoteRecord.Votes in message/block code, expected exactly one", len(appends)))
	}
	for _, st := range appends {
		c.checkContiguity("C02.one-vote", st)
	}

	c.checkNonceWriters("C02.one-vote", appends)

	// ---- C02.quorum-guard -----------------------------------------------------
	r.Min("C02.quorum-guard", 3)
	c.checkQuorumGuard("C02.quorum-guard", reach, "mhub2", "Votes", 66, 100)

	// ---- C02.identity (clauses of C14) ------------------------------------------
	// votes are pooled per claim identifier: the quorum is a quorum for one event only if reports that differ in
	// anything that matters get different identifiers
	r.Min("C02.identity", 30)
	c.include("identity", "C14", rulesIn("C14.coverage", "C14.injective"))

	// vote records and per-validator cursors survive a restart (the genesis clauses of C15 about them)
	c.includeKeys("genesis", "C15", rulesIn("C15.faithful-import", "C15.field-roundtrip", "C15.prefix-export", "C15.export-own-state"), func(rule, key string) bool {
		for _, k := range []string{"LastEventNonceByValidatorKey", "ExternalEventVoteRecord", "Nonces", "every-chain"} {
			if strings.Contains(key, k) {
				return true
			}
		}
		return false
	})

	// nothing a claim reports takes effect before the quorum: the observed external height is written only behind it
	c.includeKeys("quorum-state", "C13", rulesIn("C13.timeout-guard"), func(rule, key string) bool { return strings.Contains(key, "height-writer") })

	// ---- C02.votes-writers ----------------------------------------------------
	r.Min("C02.votes-writers", 3)
	ws := c.Writers(c.LiveReach(), "", "ExternalEventVoteRecordKey")
	for _, f := range sortedKeys(ws) {
		wr := false
		for _, e := range ws[f] {
			if e.Store.IsWrite() {
				wr = true
			}
		}
		if !wr {
			continue
		}
		isVote := false
		for _, st := range appends {
			if ana.Outermost(st.Parent()) == f {
				isVote = true
			}
		}
		isTally := len(c.procSites(f, "mhub2")) > 0
		switch {
		case isVote:
			r.Ok("C02.votes-writers", fname(f), p.Pos(f.Pos()), "role vote")
		case isTally:
			r.Ok("C02.votes-writers", fname(f), p.Pos(f.Pos()), "role tally/apply")
		case c.isGenesisImport(f):
			r.Ok("C02.votes-writers", fname(f), p.Pos(f.Pos()), "role genesis import")
		default:
			r.Bad("C02.votes-writers", fname(f), p.Pos(f.Pos()), "writes vote records but is neither the vote function, the tally function nor InitGenesis")
		}
	}
}

// invokesHandler: f invokes the module's event/attestation handler directly, or through one
// forwarding function (a recover wrapper).  It returns the call in f through which the handler runs.
func (c *Ctx) invokesHandler(f *ssa.Function, depth int) *ssa.Call {
	var out *ssa.Call
	ana.Instrs(f, func(in ssa.Instruction) {
		call, ok := in.(*ssa.Call)
		if !ok || out != nil {
			return
		}
		d, ok := ana.Describe(&call.Call)
		if !ok {
			return
		}
		if d.Name == "Handle" && d.Iface {
			out = call
			return
		}
		if depth > 0 {
			if callee := call.Call.StaticCallee(); callee != nil && c.P.IsModule(callee) && callee != f {
				if c.invokesHandler(callee, depth-1) != nil {
					out = call
				}
			}
		}
	})
	return out
}

// isProcessFn: a function that opens a CacheContext and runs the module's event / attestation handler in it.
func (c *Ctx) isProcessFn(f *ssa.Function, mod string) bool {
	if f == nil || !inPkg(f, mod+"/keeper") {
		return false
	}
	cache := false
	ana.Calls(f, func(site ssa.CallInstruction, d ana.CalleeDesc) {
		if d.Name == "CacheContext" {
			cache = true
		}
	})
	return cache && c.invokesHandler(f, 1) != nil
}

// ownStoreWrites: f itself (not its callees) writes the store.
func (c *Ctx) ownStoreWrites(f *ssa.Function) bool {
	for _, e := range c.Effects(f) {
		if e.In == f && e.Kind == "store" && e.Store.IsWrite() {
			return true
		}
	}
	return false
}

// procSites: where f starts applying an event / attestation: its calls of (pure) process functions, or, when f
// itself opens the cached context and runs the handler in it next to its own bookkeeping writes, its
// CacheContext call.  (A function that only wraps the handler call in a cached context is a process function;
// one that also keeps the books is the apply function with the process step written in place.)
func (c *Ctx) procSites(f *ssa.Function, mod string) []ssa.Instruction {
	var out []ssa.Instruction
	ana.Calls(f, func(site ssa.CallInstruction, d ana.CalleeDesc) {
		for _, callee := range c.P.Callees(site) {
			if callee != f && c.isProcessFn(callee, mod) && !c.ownStoreWrites(callee) {
				out = append(out, site.(ssa.Instruction))
				return
			}
		}
	})
	if len(out) == 0 && c.ownStoreWrites(f) && c.isProcessFn(f, mod) {
		ana.Calls(f, func(site ssa.CallInstruction, d ana.CalleeDesc) {
			if d.Name == "CacheContext" {
				out = append(out, site.(ssa.Instruction))
			}
		})
	}
	return out
}

// checkContiguity: the Votes append is guarded by nonce == last+1 || last == 0 and followed by the nonce store.
func (c *Ctx) checkContiguity(rule string, st *ssa.Store) {
	p, r := c.P, c.R
	fn := st.Parent()
	// "last": result of a call that reads LastEventNonceByValidatorKey
	isLast := func(v ssa.Value) (bool, *ssa.Call) {
		l := p.Leaves(v, ana.PVOpt{Opaque: func(d ana.CalleeDesc) bool { return true }})
		for lab, vals := range l.Vals {
			if !strings.HasPrefix(lab, "call:") {
				continue
			}
			for _, x := range vals {
				if call, ok := x.(*ssa.Call); ok {
					if callee := call.Call.StaticCallee(); callee != nil && hasEff(c.Effects(callee), "store", "Get", "LastEventNonceByValidatorKey") {
						return true, call
					}
				}
			}
		}
		return false, nil
	}
	isEventNonce := func(v ssa.Value) bool {
		l := p.Leaves(v, ana.PVOpt{})
		return l.HasField("ExternalEvent.EventNonce")
	}
	var lastCall *ssa.Call
	contig := ana.AtomCmp(func(op token.Token, x, y ssa.Value) (bool, bool) {
		if op != token.EQL && op != token.NEQ {
			return false, false
		}
		for _, pr := range [][2]ssa.Value{{x, y}, {y, x}} {
			a, b := pr[0], pr[1]
			if !isEventNonce(a) {
				continue
			}
			l := p.Leaves(b, ana.PVOpt{Opaque: func(d ana.CalleeDesc) bool { return true }})
			if ok, call := isLast(b); ok && l.Ops["binop:+"] && l.Has("const:1") && !isEventNonce(b) {
				lastCall = call
				return op == token.EQL, true
			}
		}
		return false, false
	})
	first := ana.AtomCmp(func(op token.Token, x, y ssa.Value) (bool, bool) {
		if op != token.EQL && op != token.NEQ {
			return false, false
		}
		for _, pr := range [][2]ssa.Value{{x, y}, {y, x}} {
			a, b := pr[0], pr[1]
			if !isConstVal(b, "0") {
				continue
			}
			l := p.Leaves(a, ana.PVOpt{Opaque: func(d ana.CalleeDesc) bool { return true }})
			if ok, _ := isLast(a); ok && !l.Ops["binop:+"] && !l.Ops["binop:-"] {
				return op == token.EQL, true
			}
		}
		return false, false
	})
	if ana.Guarded(st, contig) {
		r.Ok(rule, "contiguity", c.pos(st), "append guarded by event nonce == per-validator last nonce + 1")
	} else if ana.Guarded(st, contig, first) {
		r.Ok(rule, "contiguity", c.pos(st), "append guarded by (event nonce == last+1) or (last == 0)")
	} else {
		r.Bad(rule, "contiguity", c.pos(st), "the vote append is reachable without the per-validator contiguity test (event nonce == last+1, or last == 0): a validator could vote twice for a nonce or skip one")
	}
	// same validator in the read, the append and the nonce store
	var valOfRead ssa.Value
	if lastCall != nil {
		for _, a := range lastCall.Call.Args {
			if n := ana.NamedOf(a.Type()); n != nil && n.Obj().Name() == "ValAddress" {
				valOfRead = a
			}
		}
	}
	var nonceSets []ssa.Instruction
	sameVal := false
	valueIsEventNonce := false
	ana.Calls(fn, func(site ssa.CallInstruction, d ana.CalleeDesc) {
		for _, callee := range p.Callees(site) {
			if !hasEff(c.Effects(callee), "store", "Set", "LastEventNonceByValidatorKey") || hasEff(c.Effects(callee), "store", "Set", "ExternalEventVoteRecordKey") {
				continue
			}
			nonceSets = append(nonceSets, site.(ssa.Instruction))
			for _, a := range site.Common().Args {
				if n := ana.NamedOf(a.Type()); n != nil && n.Obj().Name() == "ValAddress" && a == valOfRead {
					sameVal = true
				}
				if isEventNonce(a) {
					valueIsEventNonce = true
				}
			}
		}
	})
	// ... or the store write itself (the setter written in place)
	for _, op := range p.StoreOps(fn) {
		if op.Op != "Set" || c.prefixName(op) != "LastEventNonceByValidatorKey" {
			continue
		}
		nonceSets = append(nonceSets, op.Site.(ssa.Instruction))
		for _, pt := range op.Key.Parts {
			if pt.Val == nil || valOfRead == nil {
				continue
			}
			if rv := ana.ResolvePart(pt); rv == valOfRead || operandReaches(rv, valOfRead, 4) {
				sameVal = true
			}
		}
		if op.Value != nil && isEventNonce(op.Value) {
			valueIsEventNonce = true
		}
	}
	ok, ret := ana.MustPassBefore(st, nonceSets, false)
	where := "-"
	if ret != nil {
		where = c.pos(ret)
	}
	r.Check(ok && len(nonceSets) > 0 && valueIsEventNonce, rule, "nonce-stored", c.pos(st), "per-validator nonce stored with the event's nonce on every success path after the append",
		sprintf("after the vote append the per-validator nonce is not stored with the event nonce on every success path (exit %s)", where))
	// the appended vote is the same validator
	appVal := false
	if call, ok := st.Val.(*ssa.Call); ok && len(call.Call.Args) == 2 && valOfRead != nil {
		l := p.Leaves(call.Call.Args[1], ana.PVOpt{})
		for _, vals := range l.Vals {
			for _, v := range vals {
				if v == valOfRead {
					appVal = true
				}
			}
		}
		// (the validator may be a local result rather than a parameter: follow the operands)
		if !appVal && operandReaches(call.Call.Args[1], valOfRead, 8) {
			appVal = true
		}
	}
	if os.Getenv("MHUBSA_DEBUGC02") != "" {
		fmt.Fprintf(os.Stderr, "DEBUG same-validator: fn=%s lastCall=%v valOfRead=%v sameVal=%v appVal=%v nonceSets=%d\n", fname(fn), lastCall, valOfRead, sameVal, appVal, len(nonceSets))
		for _, ns := range nonceSets {
			fmt.Fprintf(os.Stderr, "   nonceSet %v args=%v\n", ns, ns.(ssa.CallInstruction).Common().Args)
		}
	}
	r.Check(sameVal && appVal, rule, "same-validator", c.pos(st), "nonce read, appended vote and nonce store all use the same validator value", "the contiguity read, the appended vote and the nonce store do not use one and the same validator")
}

// checkQuorumGuard: the apply call is guarded by votePower >= required.
func (c *Ctx) checkQuorumGuard(rule string, reach map[*ssa.Function]bool, mod string, votesField string, wantA, wantB int64) {
	p, r := c.P, c.R
	found := 0
	for _, f := range sortedFuncs(reach) {
		if p.L.IsGenerated(f.Pos()) {
			continue
		}
		for _, in := range c.procSites(f, mod) {
			in := in
			found++
			var gte *ssa.Call
			var powV, reqV ssa.Value
			isPow := func(v ssa.Value) bool {
				l := p.Leaves(v, ana.PVOpt{})
				return l.HasCall("StakingKeeper.GetLastValidatorPower") && !l.HasCall("StakingKeeper.GetLastTotalPower")
			}
			isReq := func(v ssa.Value) bool {
				l := p.Leaves(v, ana.PVOpt{})
				return l.HasCall("StakingKeeper.GetLastTotalPower") && !l.HasCall("StakingKeeper.GetLastValidatorPower")
			}
			atom := ana.AtomMethodCmp(func(op token.Token, x, y ssa.Value, call *ssa.Call) (bool, bool) {
				if d, _ := ana.Describe(&call.Call); d.Recv != "Int" {
					return false, false
				}
				if ana.AtLeast(op, x, y, isPow, isReq) {
					gte = call
					powV, reqV = x, y
					if isReq(x) {
						powV, reqV = y, x
					}
					return true, true
				}
				return false, false
			})
			ok, chain := p.GuardedInter(in, 3, atom)
			if !ok {
				r.Bad(rule, "guard:"+fname(f), c.pos(in), "the event/attestation is applied on a path not guarded by votePower >= required (power from GetLastValidatorPower, requirement from GetLastTotalPower)", chain...)
				continue
			}
			r.Ok(rule, "guard:"+fname(f), c.pos(in), "apply call guarded by votePower.GTE(required)")
			if gte == nil {
				continue
			}
			// every state write of the apply function sits behind the same quorum test
			for _, e := range c.Effects(f) {
				if e.In != f || e.Kind != "store" || !e.Store.IsWrite() {
					continue
				}
				okW := c.guardedUp(e.At, atom)
				r.Check(okW, rule, "write:"+e.Prefix+":"+fname(f), c.pos(e.At), "state write ("+e.Prefix+") guarded by the quorum test",
					"the apply function writes "+e.Prefix+" on a path that has not passed the quorum test: an event that lacks 66% of the power changes hub state")
			}
			// threshold: the normal form Int.Quo(Int.Mul(NewInt(A),total),NewInt(B)) – multiply first, then divide
			ex := p.Expr(reqV, 3)
			a, b, okT := parseThreshold(ex)
			okT = okT && b > 0 && a*wantB >= wantA*b && a <= b
			r.Check(okT, rule, "threshold:"+fname(f), c.pos(gte), sprintf("required = %s with A/B = %d/%d >= %d/%d", ex, a, b, wantA, wantB),
				sprintf("the required power is not (A*GetLastTotalPower)/B with A/B >= %d/%d, multiplied before dividing: %s", wantA, wantB, ex))
			// accumulation: phi(0, phi.Add(NewInt(GetLastValidatorPower(vote)))) over the record's votes
			okAcc, why := c.votePowerAccumulates(powV, votesField)
			r.Check(okAcc, rule, "accumulate:"+fname(f), c.pos(gte), "votePower starts at 0 and adds exactly one GetLastValidatorPower(vote) per iteration over the record's votes", why)
		}
	}
	if found == 0 {
		r.Undecided(rule, "apply-call", "-", "no call of the event/attestation process function found")
	}
}

// votePowerAccumulates checks the loop-carried sum.
func (c *Ctx) votePowerAccumulates(v ssa.Value, votesField string) (bool, string) {
	p := c.P
	add, ok := v.(*ssa.Call)
	if !ok {
		return false, "vote power is not the result of an Add"
	}
	d, _ := ana.Describe(&add.Call)
	if d.Recv != "Int" || d.Name != "Add" || len(add.Call.Args) != 2 {
		return false, "vote power is not computed by Int.Add"
	}
	phi, ok := add.Call.Args[0].(*ssa.Phi)
	if !ok {
		return false, "the running sum is not loop-carried"
	}
	sawZero, sawSelf := false, false
	for _, e := range flatPhi(phi) {
		if e == ssa.Value(add) {
			sawSelf = true
			continue
		}
		l := p.Leaves(e, ana.PVOpt{})
		if len(l.Leaves) == 1 && l.Has("const:0") {
			sawZero = true
			continue
		}
		return false, "the running sum has an unexpected incoming value: " + strings.Join(l.List(), ",")
	}
	if !sawZero || !sawSelf {
		return false, "the running sum does not start at 0 and continue with its own Add"
	}
	// the addend: NewInt(GetLastValidatorPower(ctx, val)) with val from the iterated votes
	la := p.Leaves(add.Call.Args[1], ana.PVOpt{Opaque: func(d ana.CalleeDesc) bool { return d.Name == "GetLastValidatorPower" }})
	n := 0
	var pc *ssa.Call
	for lab, vals := range la.Vals {
		if strings.HasPrefix(lab, "call:") && strings.HasSuffix(lab, "GetLastValidatorPower") {
			for _, x := range vals {
				if call, ok := x.(*ssa.Call); ok {
					pc = call
					n++
				}
			}
		} else if !strings.HasPrefix(lab, "const:") {
			return false, "the addend is not exactly one validator power: " + strings.Join(la.List(), ",")
		}
	}
	if n != 1 || la.Ops["binop:*"] || la.HasOp("Int.Mul") || la.HasOp("Int.Add") {
		return false, "the addend is not exactly one GetLastValidatorPower result"
	}
	lv := p.Leaves(pc.Call.Args[len(pc.Call.Args)-1], ana.PVOpt{})
	if !lv.HasPrefix("field:") || !strings.Contains(strings.Join(lv.Fields(), " "), "."+votesField) {
		return false, "the validator whose power is added does not come from the record's votes: " + strings.Join(lv.List(), ",")
	}
	return true, ""
}

var thresholdRe = regexp.MustCompile(`^Int\.Quo\(Int\.Mul\((?:NewInt\((\d+)\),(StakingKeeper\.GetLastTotalPower\(\))|(StakingKeeper\.GetLastTotalPower\(\)),NewInt\((\d+)\))\),NewInt\((\d+)\)\)$`)

// parseThreshold recognises (A*total)/B in the rendered expression.
func parseThreshold(ex string) (a, b int64, ok bool) {
	m := thresholdRe.FindStringSubmatch(ex)
	if m == nil {
		return 0, 0, false
	}
	as := m[1]
	if as == "" {
		as = m[4]
	}
	a, _ = strconv.ParseInt(as, 10, 64)
	b, _ = strconv.ParseInt(m[5], 10, 64)
	return a, b, true
}

// checkNonceWriters: the per-validator nonce is what makes a second vote impossible: only the vote function
// (with the event's nonce, see nonce-stored) and the genesis import may write it; any other writer can rewind it.
func (c *Ctx) checkNonceWriters(rule string, appends []*ssa.Store) {
	p, r := c.P, c.R
	ws := c.Writers(c.LiveReach(), "", "LastEventNonceByValidatorKey")
	for _, f := range sortedKeys(ws) {
		wr := false
		for _, e := range ws[f] {
			if e.Store.IsWrite() {
				wr = true
			}
		}
		if !wr {
			continue
		}
		isVote := false
		for _, st := range appends {
			if ana.Outermost(st.Parent()) == f {
				isVote = true
			}
		}
		r.Check(isVote || c.isGenesisImport(f), rule, "nonce-writer:"+fname(f), p.Pos(f.Pos()), "the per-validator event nonce is written by the vote function / genesis import",
			"the per-validator last event nonce is written outside the vote function and the genesis import: a validator whose counter is rewound can vote again for a nonce it already voted for")
	}
}

// operandReaches: target is among the values v is computed from within its own function (calls are followed
// through their arguments).
func operandReaches(v, target ssa.Value, depth int) bool {
	seen := map[ssa.Value]bool{}
	var walk func(x ssa.Value, d int) bool
	walk = func(x ssa.Value, d int) bool {
		if x == nil || d < 0 || seen[x] {
			return false
		}
		if x == target {
			return true
		}
		seen[x] = true
		if a, isAlloc := x.(*ssa.Alloc); isAlloc {
			// a local (e.g. the array behind a variadic argument): what is stored into it
			for _, ref := range *a.Referrers() {
				switch y := ref.(type) {
				case *ssa.Store:
					if y.Addr == ssa.Value(a) && walk(y.Val, d-1) {
						return true
					}
				case *ssa.IndexAddr, *ssa.FieldAddr:
					for _, rr := range *y.(ssa.Value).Referrers() {
						if st, ok := rr.(*ssa.Store); ok && st.Addr == y.(ssa.Value) && walk(st.Val, d-1) {
							return true
						}
					}
				}
			}
			return false
		}
		in, ok := x.(ssa.Instruction)
		if !ok {
			return false
		}
		for _, op := range in.Operands(nil) {
			if op != nil && *op != nil && walk(*op, d-1) {
				return true
			}
		}
		return false
	}
	return walk(v, depth)
}
