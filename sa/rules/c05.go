package rules

import (
	"sort"
	"strings"

	"golang.org/x/tools/go/ssa"

	"mhubsa/ana"
)

func init() {
	register("C05", Meta{
		Explanation: "Forbidden shapes and containment in begin/end-block processing: (iter-nesting) no open store-iterator region reachable from begin/end block contains the creation of another iterator on the same store together with either a write to that store inside the region or a nested key range that is not an extension of the outer prefix (the cachekv/memdb deadlock: the new iterator must move not-yet-sorted dirty keys of its range into the sorted cache under the write lock while the outer iterator's goroutine holds the read lock once more than 64 items are pending); regions reachable only from messages/governance are reported as advisory; (contain) the event / attestation handlers, which consume validator-reported bodies, are invoked only through call chains that pass a recover boundary (a deferred function that calls recover() and neither re-panics nor applies an unchecked type assertion), and the recovered path is treated like a handler error (cached writes dropped); (minter-cancel) every call of the batch-cancel function (which panics for Minter) is guarded by chainId != \"minter\" on every call chain; (bounded-loops) code reachable from begin/end block has no loop without an exit and no recursion other than the bounded handler self-call accepted by C03.single-apply; (inventory, evidence only) panic primitives reachable from block processing outside every recover boundary.",
		NotDecided:  []string{"panics outside the boundary that depend on arithmetic or state integrity (inventoried only)", "SDK-internal panics", "liveness / termination in general (only: no exit-less loop, no unbounded recursion)", "the upgrade handlers in app/app.go (they run in the upgrade module's begin-block, outside the property's scope)"},
		Assumptions: append(append([]string{}, commonAssumptions...), "cosmos-sdk v0.45.4 store/cachekv and tm-db v0.6.6 memdb iterators behave as read (iterator goroutine holds RLock while more than its buffer of items is pending; cachekv.iterator sorts dirty keys of its range with MemDB.Set)"),
	}, checkC05)
}

// hasRecoverBoundary returns the defer instructions of f that establish a recover boundary.
func hasRecoverBoundary(f *ssa.Function) []*ssa.Defer {
	var out []*ssa.Defer
	ana.Instrs(f, func(in ssa.Instruction) {
		d, ok := in.(*ssa.Defer)
		if !ok {
			return
		}
		var fn *ssa.Function
		switch v := d.Call.Value.(type) {
		case *ssa.MakeClosure:
			fn, _ = v.Fn.(*ssa.Function)
		case *ssa.Function:
			fn = v
		}
		if fn == nil || fn.Blocks == nil {
			return
		}
		rec, repanic := false, false
		ana.Instrs(fn, func(i2 ssa.Instruction) {
			if call, ok := i2.(*ssa.Call); ok {
				if b, ok := call.Call.Value.(*ssa.Builtin); ok && b.Name() == "recover" {
					rec = true
				}
			}
			if _, ok := i2.(*ssa.Panic); ok {
				repanic = true
			}
			// an unchecked type assertion on what was recovered panics again for every other kind of panic
			// value (string panics of the SDK math types, runtime errors are errors but plain strings are not)
			if ta, ok := i2.(*ssa.TypeAssert); ok && !ta.CommaOk {
				repanic = true
			}
		})
		if rec && !repanic {
			out = append(out, d)
		}
	})
	return out
}

func checkC05(c *Ctx) {
	p, r := c.P, c.R
	roots := c.Roots()
	blockReach := p.Reach(roots.Block...)
	live := c.LiveReach()
	r.Min("C05.iter-nesting", 10)
	r.Min("C05.contain", 2)
	r.Min("C05.minter-cancel", 2)
	r.Min("C05.bounded-loops", 2)

	// iterators that are abandoned before they are exhausted keep their store lock (C17.scan-complete)
	c.includeKeys("iter-nesting", "C17", rulesIn("C17.guards"), func(rule, key string) bool { return strings.Contains(key, "scan-complete") })

	// a reported event whose handler fails "fails on its own": the event cursor moves past it whatever the
	// handler returns, otherwise the same event is applied again in every block and nothing after it is ever
	// processed (C03's ordering clause: nonce bumped and record marked before the handler runs)
	c.include("contain", "C03", rulesIn("C03.accepted-first", "C03.tally-order"))

	// ---- iter-nesting ---------------------------------------------------------------------
	regions := p.Regions(live)
	nReg := 0
	for _, rg := range regions {
		nReg++
		inBlock := blockReach[rg.Fn]
		if rg.Entry != nil {
			inBlock = blockReach[rg.Entry.Caller]
		}
		where := c.pos(rg.Iter.Site)
		key := fname(rg.Fn)
		if rg.Entry != nil {
			key += "<-" + fname(rg.Entry.Caller)
			where = c.pos(rg.Entry.Site)
		}
		if len(rg.Nested) == 0 {
			r.Ok("C05.iter-nesting", key, where, sprintf("open iterator over %s: %d function(s) run inside, no nested iterator on the same store (%d write(s))", rg.Iter.Key, len(rg.Funcs), len(rg.Writes)))
			continue
		}
		bad := ""
		for _, n := range rg.Nested {
			sub := ana.KeyExtends(n.Key, rg.Iter.Key)
			if len(rg.Writes) > 0 {
				bad = sprintf("nested iterator over %s at %s while the region also writes the store (e.g. %s at %s)", n.Key, c.pos(n.Site), rg.Writes[0].Op, c.pos(rg.Writes[0].Site))
			} else if !sub {
				bad = sprintf("nested iterator over %s at %s whose range is not inside the outer range %s", n.Key, c.pos(n.Site), rg.Iter.Key)
			}
		}
		switch {
		case bad == "":
			r.Ok("C05.iter-nesting", key, where, "nested read-only iteration of a sub-range")
		case inBlock:
			var chain []string
			var gs []string
			for g := range rg.Funcs {
				gs = append(gs, fname(g))
			}
			sort.Strings(gs)
			chain = append(chain, "functions running inside the open iterator: "+strings.Join(gs, ", "))
			r.Bad("C05.iter-nesting", key, where, "inside the open iterator over "+rg.Iter.Key.String()+" (created at "+c.pos(rg.Iter.Site)+"): "+bad+
				"; with more than ~65 dirty keys in that range the new iterator blocks on the memdb write lock held for the outer iterator's goroutine and the block never completes", chain...)
		default:
			r.Note("C05.iter-nesting", "advisory:"+key, where, "reachable from messages/queries only: "+bad)
		}
	}
	r.Analysed["iterator_regions"] = nReg

	// ---- iter-closed: an iterator abandoned before it is exhausted keeps the memdb read lock ----
	for _, f := range sortedFuncs(live) {
		if p.L.IsGenerated(f.Pos()) {
			continue
		}
		for _, op := range p.StoreOps(f) {
			if !op.IsIter() {
				continue
			}
			iterVal, _ := op.Site.(ssa.Value)
			if iterVal == nil {
				continue
			}
			ok, why := iteratorReleased(f, op.Site.(ssa.Instruction), iterVal)
			key := "closed:" + fname(f)
			switch {
			case ok:
				r.Ok("C05.iter-nesting", key, c.pos(op.Site), "the iterator is closed (or exhausted) on every path out of the function")
			case blockReach[f]:
				r.Bad("C05.iter-nesting", key, c.pos(op.Site), "the store iterator can be abandoned without Close() before it is exhausted ("+why+"): its goroutine keeps the memdb read lock and the next iterator that has dirty keys to sort blocks forever")
			default:
				r.Note("C05.iter-nesting", "advisory:"+key, c.pos(op.Site), "reachable from messages/queries only: "+why)
			}
		}
	}

	// ---- contain ---------------------------------------------------------------------------
	var handlers []*ssa.Function
	for _, f := range p.Funcs {
		if f.Name() == "Handle" && f.Signature.Recv() != nil && (inPkg(f, "mhub2/keeper") || inPkg(f, "oracle/keeper")) {
			handlers = append(handlers, f)
		}
	}
	// contained(f): every entry into f from block processing is a contained call site
	memo := map[*ssa.Function]int{} // 0 unknown, 1 in progress, 2 contained, 3 not contained
	var uncontainedChain func(f *ssa.Function) []string
	uncontainedChain = func(f *ssa.Function) []string {
		switch memo[f] {
		case 2:
			return nil
		case 1:
			return nil // cycle: decided by the other entries
		}
		memo[f] = 1
		if isRoot(f, roots.Block) {
			memo[f] = 3
			return []string{fname(f) + " (block-processing root)"}
		}
		entries := 0
		for _, e := range p.In[f] {
			if e.Caller == f || !blockReach[e.Caller] {
				continue
			}
			entries++
			in := e.Site.(ssa.Instruction)
			// contained at this site?
			ok := false
			for _, d := range hasRecoverBoundary(e.Caller) {
				if d.Block() == in.Block() && ana.InstrIndex(d) < ana.InstrIndex(in) || (d.Block() != in.Block() && d.Block().Dominates(in.Block())) {
					ok = true
				}
			}
			if ok {
				continue
			}
			if ch := uncontainedChain(e.Caller); ch != nil {
				memo[f] = 3
				return append(ch, fname(f)+" called at "+c.pos(in))
			}
		}
		if mc := p.ClosureSite(f); mc != nil && entries == 0 {
			if ch := uncontainedChain(mc.Parent()); ch != nil {
				memo[f] = 3
				return append(ch, fname(f))
			}
		}
		memo[f] = 2
		return nil
	}
	for _, h := range handlers {
		if !blockReach[h] {
			r.Ok("C05.contain", fname(h), p.Pos(h.Pos()), "handler not reachable from block processing")
			continue
		}
		ch := uncontainedChain(h)
		if ch == nil {
			r.Ok("C05.contain", fname(h), p.Pos(h.Pos()), "every call chain from begin/end block to the handler passes a recover boundary")
		} else {
			r.Bad("C05.contain", fname(h), p.Pos(h.Pos()), "a panic raised while applying a validator-reported event/attestation (negative or absent fee, missing price, overflowing amount, unknown Minter twin token) propagates out of end-block processing: no recover boundary on the call chain", ch...)
		}
	}
	if len(handlers) < 2 {
		r.Undecided("C05.contain", "handlers", "-", sprintf("%d event/attestation handlers found, expected 2", len(handlers)))
	}

	// ---- minter-cancel ------------------------------------------------------------------------
	notMinter := c.atomNotMinter()
	for _, cf := range c.batchCancelFns(c.ConsensusReach()) {
		// the function panics for minter: only then is the guard needed
		panics := false
		ana.Instrs(cf, func(in ssa.Instruction) {
			if _, ok := in.(*ssa.Panic); ok {
				panics = true
			}
		})
		for _, e := range p.In[cf] {
			if !live[e.Caller] {
				continue
			}
			in := e.Site.(ssa.Instruction)
			ok, chain := p.GuardedInter(in, 4, notMinter)
			if ok || !panics {
				r.Ok("C05.minter-cancel", fname(e.Caller), c.pos(in), "batch cancel reached only under chainId != \"minter\"")
			} else {
				r.Bad("C05.minter-cancel", fname(e.Caller), c.pos(in), "the batch-cancel function panics for the Minter chain and is called without a chainId != \"minter\" test on the call chain", chain...)
			}
		}
	}

	// ---- bounded-loops ---------------------------------------------------------------------------
	nLoops, nFns := 0, 0
	for _, f := range sortedFuncs(blockReach) {
		if p.L.IsGenerated(f.Pos()) {
			continue
		}
		nFns++
		for _, scc := range blockSCCs(f) {
			nLoops++
			exit := false
			in := map[*ssa.BasicBlock]bool{}
			for _, b := range scc {
				in[b] = true
			}
			for _, b := range scc {
				for _, s := range b.Succs {
					if !in[s] {
						exit = true
					}
				}
				if len(b.Instrs) > 0 {
					switch b.Instrs[len(b.Instrs)-1].(type) {
					case *ssa.Return, *ssa.Panic:
						exit = true
					}
				}
			}
			if !exit {
				r.Bad("C05.bounded-loops", "loop:"+fname(f), p.Pos(f.Pos()), "a loop without any exit is reachable from block processing")
			}
		}
	}
	r.Ok("C05.bounded-loops", "loops", "-", sprintf("%d loops in %d functions reachable from begin/end block, each with an exit edge", nLoops, nFns))
	// recursion (static calls and context-bound callbacks; interface dispatch is a type-based
	// over-approximation and only inventoried)
	okRec := true
	nRecChecked := 0
	for _, f := range sortedFuncs(blockReach) {
		if p.L.IsGenerated(f.Pos()) {
			continue
		}
		nRecChecked++
		rec, path := p.RecursiveCS(f, false)
		if !rec {
			continue
		}
		if f.Name() == "Handle" && len(path) == 1 {
			continue // the bounded handler self-call, decided by C03.single-apply
		}
		okRec = false
		r.Bad("C05.bounded-loops", "recursion:"+fname(f), p.Pos(f.Pos()), "recursion reachable from block processing: "+strings.Join(path, " <- "))
	}
	if okRec {
		r.Ok("C05.bounded-loops", "recursion", "-", sprintf("no recursion among %d block-reachable functions besides the handler self-call", nRecChecked))
	}
	for _, cy := range callCycles(p, blockReach) {
		if len(cy) > 1 {
			r.Note("C05.inventory", "iface-cycle:"+fname(cy[0]), p.Pos(cy[0].Pos()), "call-graph cycle through interface dispatch or unbound callbacks (over-approximation, not armed): "+names(cy))
		}
	}

	// ---- jail-once: staking's Jail panics for a validator that is already jailed.  A call in block processing
	// is guarded by "not jailed" read from the staking keeper inside every loop that surrounds the call: a
	// snapshot taken before the loops does not see the jailing done by an earlier iteration ---------------------
	nJail := 0
	for _, f := range sortedFuncs(blockReach) {
		if p.L.IsGenerated(f.Pos()) || !p.IsModule(f) {
			continue
		}
		var sccs [][]*ssa.BasicBlock
		ana.Calls(f, func(site ssa.CallInstruction, d ana.CalleeDesc) {
			if d.Name != "Jail" || !d.Iface {
				return
			}
			nJail++
			in := site.(ssa.Instruction)
			if sccs == nil {
				sccs = blockSCCs(f)
			}
			var recvs []ssa.Value
			notJailed := ana.AtomCallBool(func(call *ssa.Call, cd ana.CalleeDesc) bool {
				if cd.Name != "IsJailed" {
					return false
				}
				if call.Call.IsInvoke() {
					recvs = append(recvs, call.Call.Value)
				} else if len(call.Call.Args) > 0 {
					recvs = append(recvs, call.Call.Args[0])
				}
				return true
			}, false)
			if !ana.Guarded(in, notJailed) {
				r.Bad("C05.contain", "jail-once:"+fname(f), c.pos(in), "StakingKeeper.Jail is called in block processing without a 'not yet jailed' test: jailing a jailed validator panics and halts the chain")
				return
			}
			inLoops := func(b *ssa.BasicBlock) map[int]bool {
				out := map[int]bool{}
				for i, scc := range sccs {
					for _, x := range scc {
						if x == b {
							out[i] = true
						}
					}
				}
				return out
			}
			jl := inLoops(in.Block())
			fresh := false
			for _, rv := range recvs {
				for lab, vals := range p.Leaves(rv, ana.PVOpt{Opaque: func(ana.CalleeDesc) bool { return true }}).Vals {
					if !strings.HasPrefix(lab, "call:") {
						continue
					}
					for _, v := range vals {
						call, ok := v.(*ssa.Call)
						if !ok || call.Parent() != f {
							continue
						}
						cl := inLoops(call.Block())
						all := true
						for i := range jl {
							if !cl[i] {
								all = false
							}
						}
						if all {
							fresh = true
						}
					}
				}
			}
			r.Check(fresh || len(jl) == 0, "C05.contain", "jail-once:"+fname(f), c.pos(in), "the 'not jailed' test reads the validator inside the loops around the Jail call",
				"the 'not jailed' test before StakingKeeper.Jail reads a validator that was fetched before the surrounding loops: a validator that is jailed by one iteration is jailed again by a later one (two unsigned outgoing txs in one pass), which panics inside end-block processing")
		})
	}
	r.Analysed["jail_sites_in_block_processing"] = nJail

	// ---- placeholder messages: block processing builds incomplete messages (only the epoch set) to address the
	// attestation of an epoch.  Accessors of the message types that panic for a message failing ValidateBasic
	// (GetClaimer, GetSigners) must not be applied to such a value outside a recover boundary ----------------
	c.checkPlaceholderAccessors(blockReach)

	// ---- inventory (evidence only) ------------------------------------------------------------------
	nInv := 0
	for _, f := range sortedFuncs(blockReach) {
		if p.L.IsGenerated(f.Pos()) || memo[f] == 2 {
			continue
		}
		ana.Instrs(f, func(in ssa.Instruction) {
			if _, ok := in.(*ssa.Panic); ok {
				nInv++
				if nInv <= 40 {
					r.Note("C05.inventory", "panic:"+fname(f), c.pos(in), "explicit panic reachable from block processing outside every recover boundary")
				}
			}
		})
	}
	r.Analysed["uncontained_panic_sites"] = nInv
}

// blockSCCs returns the non-trivial strongly connected components of f's CFG.
func blockSCCs(f *ssa.Function) [][]*ssa.BasicBlock {
	n := len(f.Blocks)
	index := make([]int, n)
	low := make([]int, n)
	on := make([]bool, n)
	for i := range index {
		index[i] = -1
	}
	var stack []*ssa.BasicBlock
	var out [][]*ssa.BasicBlock
	cnt := 0
	var strong func(b *ssa.BasicBlock)
	strong = func(b *ssa.BasicBlock) {
		index[b.Index], low[b.Index] = cnt, cnt
		cnt++
		stack = append(stack, b)
		on[b.Index] = true
		for _, s := range b.Succs {
			if index[s.Index] < 0 {
				strong(s)
				if low[s.Index] < low[b.Index] {
					low[b.Index] = low[s.Index]
				}
			} else if on[s.Index] && index[s.Index] < low[b.Index] {
				low[b.Index] = index[s.Index]
			}
		}
		if low[b.Index] == index[b.Index] {
			var comp []*ssa.BasicBlock
			for {
				x := stack[len(stack)-1]
				stack = stack[:len(stack)-1]
				on[x.Index] = false
				comp = append(comp, x)
				if x == b {
					break
				}
			}
			self := false
			for _, s := range b.Succs {
				if s == b {
					self = true
				}
			}
			if len(comp) > 1 || self {
				out = append(out, comp)
			}
		}
	}
	for _, b := range f.Blocks {
		if index[b.Index] < 0 {
			strong(b)
		}
	}
	return out
}

// callCycles returns the call-graph cycles among the given functions.
func callCycles(p *ana.Prog, scope map[*ssa.Function]bool) [][]*ssa.Function {
	index := map[*ssa.Function]int{}
	low := map[*ssa.Function]int{}
	on := map[*ssa.Function]bool{}
	var stack []*ssa.Function
	var out [][]*ssa.Function
	cnt := 0
	var strong func(f *ssa.Function)
	strong = func(f *ssa.Function) {
		index[f], low[f] = cnt, cnt
		cnt++
		stack = append(stack, f)
		on[f] = true
		for _, e := range p.Out[f] {
			g := e.Callee
			if !scope[g] {
				continue
			}
			if _, seen := index[g]; !seen {
				strong(g)
				if low[g] < low[f] {
					low[f] = low[g]
				}
			} else if on[g] && index[g] < low[f] {
				low[f] = index[g]
			}
		}
		if low[f] == index[f] {
			var comp []*ssa.Function
			for {
				x := stack[len(stack)-1]
				stack = stack[:len(stack)-1]
				on[x] = false
				comp = append(comp, x)
				if x == f {
					break
				}
			}
			self := false
			for _, e := range p.Out[f] {
				if e.Callee == f {
					self = true
				}
			}
			if len(comp) > 1 || self {
				out = append(out, comp)
			}
		}
	}
	for _, f := range sortedFuncs(scope) {
		if _, seen := index[f]; !seen {
			strong(f)
		}
	}
	return out
}

// iteratorReleased: on every path from the creation to a function exit the iterator is either
// closed (deferred Close counts for all later exits) or was exhausted (the exit is taken from the
// false edge of its Valid() test).
func iteratorReleased(f *ssa.Function, create ssa.Instruction, iterVal ssa.Value) (bool, string) {
	isCloseAt := func(in ssa.Instruction) (bool, bool) {
		site, ok := in.(ssa.CallInstruction)
		if !ok {
			return false, false
		}
		cc := site.Common()
		if cc.IsInvoke() && cc.Method.Name() == "Close" && cc.Value == iterVal {
			_, d := in.(*ssa.Defer)
			return true, d
		}
		return false, false
	}
	// deferred close dominating everything after creation?
	for _, b := range f.Blocks {
		for _, in := range b.Instrs {
			if c, d := isCloseAt(in); c && d {
				if in.Block() == create.Block() || create.Block().Dominates(in.Block()) {
					return true, ""
				}
			}
		}
	}
	type state struct {
		b   *ssa.BasicBlock
		idx int
	}
	seen := map[*ssa.BasicBlock]bool{}
	bad := ""
	var walk func(b *ssa.BasicBlock, from int)
	walk = func(b *ssa.BasicBlock, from int) {
		for i := from; i < len(b.Instrs); i++ {
			in := b.Instrs[i]
			if c, _ := isCloseAt(in); c {
				return
			}
			switch x := in.(type) {
			case *ssa.Return:
				bad = "return at " + x.Parent().Prog.Fset.Position(x.Pos()).String()
				return
			case *ssa.If:
				// exhausted: the false edge of iter.Valid()
				if call, _ := ana.UnwrapCall(x.Cond); call != nil && call.Call.IsInvoke() && call.Call.Method.Name() == "Valid" && call.Call.Value == iterVal {
					if !seen[b.Succs[0]] {
						seen[b.Succs[0]] = true
						walk(b.Succs[0], 0)
					}
					return // the false edge means exhausted: released
				}
			}
		}
		for _, s := range b.Succs {
			if !seen[s] {
				seen[s] = true
				walk(s, 0)
			}
		}
	}
	idx := 0
	for i, in := range create.Block().Instrs {
		if in == create {
			idx = i + 1
		}
	}
	walk(create.Block(), idx)
	if bad != "" {
		return false, "unreleased exit: " + bad
	}
	return true, ""
}

// checkPlaceholderAccessors follows message literals built by block-processing code through direct argument
// passing and reports calls of panicking accessors on them that no recover boundary contains.
func (c *Ctx) checkPlaceholderAccessors(blockReach map[*ssa.Function]bool) {
	p, r := c.P, c.R
	// methods (by receiver type name and method name) whose body has an explicit panic
	panics := map[string]bool{}
	for _, f := range p.Funcs {
		if f.Signature.Recv() == nil || f.Blocks == nil || !(inPkg(f, "oracle/types") || inPkg(f, "mhub2/types")) {
			continue
		}
		has := false
		ana.Instrs(f, func(in ssa.Instruction) {
			if _, ok := in.(*ssa.Panic); ok {
				has = true
			}
		})
		if has {
			if n := ana.NamedOf(f.Signature.Recv().Type()); n != nil {
				panics[n.Obj().Name()+"."+f.Name()] = true
			}
		}
	}
	// the address fields a type's ValidateBasic parses: an empty one always fails
	reqCache := map[string][]string{}
	required := func(tname string) []string {
		if v, ok := reqCache[tname]; ok {
			return v
		}
		var out []string
		for _, f := range p.Funcs {
			if f.Name() != "ValidateBasic" || f.Signature.Recv() == nil {
				continue
			}
			if n := ana.NamedOf(f.Signature.Recv().Type()); n == nil || n.Obj().Name() != tname {
				continue
			}
			ana.Calls(f, func(site ssa.CallInstruction, d ana.CalleeDesc) {
				if !strings.HasSuffix(d.Name, "FromBech32") || len(site.Common().Args) == 0 {
					return
				}
				for _, fl := range p.Leaves(site.Common().Args[0], ana.PVOpt{}).Fields() {
					if strings.HasPrefix(fl, tname+".") {
						out = append(out, strings.TrimPrefix(fl, tname+"."))
					}
				}
			})
		}
		reqCache[tname] = out
		return out
	}
	type flow struct {
		fn        *ssa.Function
		v         ssa.Value
		tname     string
		contained bool
		origin    string
	}
	var work []flow
	nLit := 0
	for _, f := range sortedFuncs(blockReach) {
		if p.L.IsGenerated(f.Pos()) || !p.IsModule(f) {
			continue
		}
		for _, a := range allocsIn(f) {
			n := ana.NamedOf(a.Type())
			if n == nil || a.Comment != "complit" {
				continue
			}
			any := false
			for k := range panics {
				if strings.HasPrefix(k, n.Obj().Name()+".") {
					any = true
				}
			}
			if !any {
				continue
			}
			// incomplete: an address field that ValidateBasic parses is left empty
			missing := ""
			fs := ana.FieldStores(a)
			for _, fld := range required(n.Obj().Name()) {
				if len(fs[fld]) == 0 {
					missing = fld
				}
			}
			if missing == "" {
				continue
			}
			nLit++
			work = append(work, flow{f, a, n.Obj().Name(), false, c.pos(a)})
		}
	}
	seen := map[string]bool{}
	containedAt := func(f *ssa.Function, in ssa.Instruction) bool {
		for _, d := range hasRecoverBoundary(f) {
			if (d.Block() == in.Block() && ana.InstrIndex(d) < ana.InstrIndex(in)) || (d.Block() != in.Block() && d.Block().Dominates(in.Block())) {
				return true
			}
		}
		return false
	}
	nBad := 0
	for len(work) > 0 {
		w := work[len(work)-1]
		work = work[:len(work)-1]
		key := fname(w.fn) + "|" + w.v.Name() + "|" + w.tname + sprintf("|%v", w.contained)
		if seen[key] || len(seen) > 400 {
			continue
		}
		seen[key] = true
		refs := w.v.Referrers()
		if refs == nil {
			continue
		}
		for _, ref := range *refs {
			switch x := ref.(type) {
			case *ssa.MakeInterface:
				work = append(work, flow{w.fn, x, w.tname, w.contained, w.origin})
			case *ssa.ChangeInterface:
				work = append(work, flow{w.fn, x, w.tname, w.contained, w.origin})
			case *ssa.Phi:
				work = append(work, flow{w.fn, x, w.tname, w.contained, w.origin})
			case ssa.CallInstruction:
				cc := x.Common()
				in := x.(ssa.Instruction)
				cont := w.contained || containedAt(w.fn, in)
				if cc.IsInvoke() && cc.Value == w.v {
					if panics[w.tname+"."+cc.Method.Name()] && !cont {
						nBad++
						r.Bad("C05.contain", "placeholder:"+fname(w.fn)+":"+cc.Method.Name(), c.pos(in), "block processing calls "+cc.Method.Name()+" on the incomplete "+w.tname+" built at "+w.origin+" (only its epoch is set): the accessor panics for a message that fails ValidateBasic, outside every recover boundary, and the chain halts at the epoch boundary")
					}
					continue
				}
				if callee := cc.StaticCallee(); callee != nil && len(cc.Args) > 0 && cc.Args[0] == w.v && callee.Signature.Recv() != nil {
					if panics[w.tname+"."+callee.Name()] && !cont {
						nBad++
						r.Bad("C05.contain", "placeholder:"+fname(w.fn)+":"+callee.Name(), c.pos(in), "block processing calls "+callee.Name()+" on the incomplete "+w.tname+" built at "+w.origin+": the accessor panics for a message that fails ValidateBasic, outside every recover boundary")
					}
				}
				for _, callee := range p.Callees(x) {
					args := cc.Args
					if cc.IsInvoke() {
						args = append([]ssa.Value{cc.Value}, args...)
					}
					for i, a := range args {
						if a == w.v && i < len(callee.Params) && callee.Blocks != nil {
							work = append(work, flow{callee, callee.Params[i], w.tname, cont, w.origin})
						}
					}
				}
			}
		}
	}
	if nLit > 0 && nBad == 0 {
		r.Ok("C05.contain", "placeholder", "-", sprintf("%d incomplete message literal(s) built by block processing; no panicking accessor is applied to them outside a recover boundary", nLit))
	}
}
