package rules

import (
	"go/token"
	"go/types"
	"strings"

	"golang.org/x/tools/go/ssa"

	"mhubsa/ana"
)

func init() {
	register("C17", Meta{
		Explanation: "Structural necessary conditions of the delegate-key registry: (guards) the three index writes of the registering message are cut off from the entry by: the validator exists (StakingKeeper.Validator != nil); no validator holds the external address on that chain (the in-use scan over ValidatorExternalAddressKey returned nothing); no external address maps to the orchestrator on that chain; ValidateEthereumSignature(keccak(Marshal(DelegateKeysSignMsg{validator, n})), msg.EthSignature, address) == nil, where n = seq-1 (0 when seq == 0), seq = AccountKeeper.GetSequence(AccAddress(validator)), and the address verified is the address stored; (triple) all three indexes are written with the same (validator, orchestrator, external address) values on every success path; (self) MsgDelegateKeys.GetSigners derives from ValidatorAddress only; (writers) the three prefixes are written only by the registering handler and InitGenesis; (attribution) orchestrator -> validator resolution precedes the staking lookup in the signer resolver; (generator) keys-generator signs the same message type with the same fields and EIP-191 prefix.",
		NotDecided:  []string{"one-to-one-ness after re-registration histories beyond what the in-use scans guarantee", "that the signature verifies for that key only (secp256k1)"},
		Assumptions: commonAssumptions,
	}, checkC17)
}

func checkC17(c *Ctx) {
	c.checkKeyMakers("C17", 3)
	p, r := c.P, c.R
	roots := c.Roots()
	live := c.LiveReach()
	r.Min("C17.guards", 6)
	// the three indexes survive a restart together (the genesis clauses of C15 about them)
	c.includeKeys("genesis", "C15", rulesIn("C15.faithful-import", "C15.field-roundtrip", "C15.prefix-export"), func(rule, key string) bool {
		return strings.Contains(key, "AddressKey") || strings.Contains(key, "DelegateKeys")
	})
	r.Min("C17.triple", 3)
	r.Min("C17.self", 1)
	r.Min("C17.writers", 2)
	r.Min("C17.attribution", 1)

	prefixes := []string{"OrchestratorValidatorAddressKey", "ValidatorExternalAddressKey", "ExternalOrchestratorAddressKey"}

	// the three indexes are scanned by hand (raw keys are split at fixed positions: prefix byte, then the chain
	// id as written): every key of them is prefix|chain|… with nothing in between
	for _, f := range sortedFuncs(live) {
		for _, op := range p.StoreOps(f) {
			pn := c.prefixName(op)
			if pn != prefixes[0] && pn != prefixes[1] && pn != prefixes[2] {
				continue
			}
			kinds := op.Key.Kinds()
			if len(kinds) < 2 {
				continue // a whole-index scan
			}
			if kinds[1] == "param" || kinds[1] == "bytes" {
				continue // handed in by the caller: decided where it is built
			}
			r.Check(kinds[1] == "chain", "C17.key-shape", "layout:"+pn+":"+fname(f), c.pos(op.Site), pn+" key is prefix|chain|…",
				"a "+pn+" key is laid out as "+strings.Join(kinds, "|")+" instead of prefix|chain|…: the in-use scans split raw keys at the prefix and the chain id as written, find nothing under another layout and let a second validator take a key or an orchestrator that is already bound")
		}
	}

	// ---- C17.writers ---------------------------------------------------------------
	var handler *ssa.Function
	writerSet := map[*ssa.Function]bool{}
	for _, pre := range prefixes {
		for f := range c.Writers(live, "Set", pre) {
			writerSet[f] = true
		}
		for f := range c.Writers(live, "Delete", pre) {
			writerSet[f] = true
		}
	}
	for _, f := range sortedFuncs(writerSet) {
		switch {
		case c.isGenesisImport(f):
			r.Ok("C17.writers", fname(f), p.Pos(f.Pos()), "genesis import")
		case isRoot(f, roots.Msg):
			handler = f
			r.Ok("C17.writers", fname(f), p.Pos(f.Pos()), "the registering message handler")
		default:
			r.Bad("C17.writers", fname(f), p.Pos(f.Pos()), "writes a delegate-key index but is neither the registering handler nor InitGenesis")
		}
	}
	if handler == nil {
		r.Undecided("C17.guards", "handler", "-", "no message handler writes the delegate-key indexes")
		return
	}
	f := handler
	effs := c.Effects(f)
	var writes []Eff
	for _, e := range effs {
		if e.In == f && e.Kind == "store" && e.Op == "Set" {
			for _, pre := range prefixes {
				if e.Prefix == pre {
					writes = append(writes, e)
				}
			}
		}
	}
	if len(writes) != 3 {
		r.Bad("C17.triple", "count:"+fname(f), p.Pos(f.Pos()), sprintf("%d delegate-key index writes in the handler, expected 3", len(writes)))
	}

	// values: validator, orchestrator, external address
	var valV, orchV, ethV ssa.Value
	same := true
	for _, w := range writes {
		site, ok := w.At.(ssa.CallInstruction)
		if !ok {
			continue
		}
		for _, a := range site.Common().Args {
			n := ana.NamedOf(a.Type())
			if n == nil {
				continue
			}
			switch n.Obj().Name() {
			case "ValAddress":
				if valV != nil && valV != a {
					same = false
				}
				valV = a
			case "AccAddress":
				if orchV != nil && orchV != a {
					same = false
				}
				orchV = a
			case "Address":
				if ethV != nil && ethV != a {
					same = false
				}
				ethV = a
			}
		}
	}
	okSrc := false
	if valV != nil && orchV != nil && ethV != nil {
		lv := p.Leaves(valV, ana.PVOpt{})
		lo := p.Leaves(orchV, ana.PVOpt{})
		le := p.Leaves(ethV, ana.PVOpt{})
		okSrc = lv.HasField("MsgDelegateKeys.ValidatorAddress") && !lv.HasField("MsgDelegateKeys.OrchestratorAddress") &&
			lo.HasField("MsgDelegateKeys.OrchestratorAddress") && !lo.HasField("MsgDelegateKeys.ValidatorAddress") &&
			le.HasField("MsgDelegateKeys.ExternalAddress")
	}
	r.Check(same && okSrc && len(writes) == 3, "C17.triple", "values:"+fname(f), p.Pos(f.Pos()), "the three indexes are written with one (validator, orchestrator, external address) triple taken from the message",
		"the three delegate-key indexes are not written with one and the same (validator, orchestrator, external address) triple from the message")
	// all three on every success path: after the first, the others must follow
	if len(writes) == 3 {
		okAll := true
		for i := 0; i < 3; i++ {
			var others []ssa.Instruction
			for j := 0; j < 3; j++ {
				if j != i {
					others = append(others, writes[j].At)
				}
			}
			// every success return must be preceded by write i
			_, succ := ana.Returns(f)
			for _, ret := range succ {
				avoid := map[*ssa.BasicBlock]bool{writes[i].At.Block(): true}
				if ret.Block() != writes[i].At.Block() && reachAvoiding(f, ret.Block(), avoid) {
					okAll = false
				}
			}
			_ = others
		}
		r.Check(okAll, "C17.triple", "all-or-none:"+fname(f), p.Pos(f.Pos()), "every success return is preceded by all three index writes", "a success return is reachable without all three delegate-key index writes")
	}

	// ---- C17.guards ----------------------------------------------------------------
	for _, w := range writes {
		key := strings.TrimSuffix(w.Prefix, "Key")
		// (1) validator exists
		exists := ana.AtomNotNil(func(v ssa.Value) bool {
			call, _ := ana.UnwrapCall(v)
			if call == nil {
				return false
			}
			d, _ := ana.Describe(&call.Call)
			if !(d.Name == "Validator" && d.Iface) {
				return false
			}
			for _, a := range call.Call.Args {
				if a == valV {
					return true
				}
			}
			return false
		})
		// (2),(3) in-use scans
		scan := func(prefix string, arg ssa.Value) ana.Atom {
			return ana.AtomCmp(func(op token.Token, x, y ssa.Value) (bool, bool) {
				// len(scan(...)) > 0  => return error ; atom holds where len == 0
				for _, pr := range [][2]ssa.Value{{x, y}, {y, x}} {
					lc, ok := pr[0].(*ssa.Call)
					if !ok {
						continue
					}
					if b, ok := lc.Call.Value.(*ssa.Builtin); !ok || b.Name() != "len" {
						continue
					}
					if !isConstVal(pr[1], "0") {
						continue
					}
					sc, _ := ana.UnwrapCall(lc.Call.Args[0])
					if sc == nil || !c.scansPrefix(sc, prefix) {
						continue
					}
					has := false
					for _, a := range sc.Call.Args {
						if a == arg {
							has = true
						}
					}
					if !has {
						continue
					}
					// normalise to "len OP 0"
					o := op
					if pr[0] == y {
						o = ana.FlipOp(op)
					}
					switch o {
					case token.GTR, token.NEQ:
						return false, true
					case token.EQL, token.LEQ:
						return true, true
					}
				}
				return false, false
			})
		}
		// (4) signature
		sig := ana.AtomErrNil(func(call *ssa.Call, d ana.CalleeDesc) bool {
			if d.Name != "ValidateEthereumSignature" || len(call.Call.Args) != 3 {
				return false
			}
			return call.Call.Args[2] == ethV && p.Leaves(call.Call.Args[1], ana.PVOpt{}).HasField("MsgDelegateKeys.EthSignature")
		})
		r.Check(ana.Guarded(w.At, exists), "C17.guards", "validator-exists:"+key, c.pos(w.At), "guarded by StakingKeeper.Validator(validator) != nil", "a binding can be written for a validator that does not exist")
		r.Check(ana.Guarded(w.At, scan("ValidatorExternalAddressKey", ethV)), "C17.guards", "address-free:"+key, c.pos(w.At), "guarded by 'no validator holds this external address on the chain'", "a binding can be written although another validator already holds the external address (the in-use scan is missing or inverted)")
		r.Check(ana.Guarded(w.At, scan("ExternalOrchestratorAddressKey", orchV)), "C17.guards", "orchestrator-free:"+key, c.pos(w.At), "guarded by 'no external address maps to this orchestrator on the chain'", "a binding can be written although the orchestrator account is already bound (the in-use scan is missing or inverted)")
		r.Check(ana.Guarded(w.At, sig), "C17.guards", "signature:"+key, c.pos(w.At), "guarded by ValidateEthereumSignature(hash, msg.EthSignature, stored address) == nil", "a binding can be written without a valid signature of the external key being stored")
	}
	// the signed message: DelegateKeysSignMsg{validator, seq-1}
	var sigCall *ssa.Call
	ana.Instrs(f, func(in ssa.Instruction) {
		if call, ok := in.(*ssa.Call); ok {
			if d, ok := ana.Describe(&call.Call); ok && d.Name == "ValidateEthereumSignature" {
				sigCall = call
			}
		}
	})
	if sigCall != nil {
		lh := p.Leaves(sigCall.Call.Args[0], ana.PVOpt{Opaque: func(d ana.CalleeDesc) bool { return d.Name == "MustMarshal" || d.Name == "Marshal" }})
		okHash := lh.HasOp("Keccak256Hash") || lh.HasOp("Keccak256")
		okMsg, okNonce, okVal := false, false, false
		for _, a := range allocsOfType(f, "DelegateKeysSignMsg") {
			fs := ana.FieldStores(a)
			okMsg = true
			for _, v := range fs["ValidatorAddress"] {
				if derivesFrom(p, v, valV) || p.Leaves(v, ana.PVOpt{}).HasField("MsgDelegateKeys.ValidatorAddress") {
					okVal = true
				}
			}
			for _, v := range fs["Nonce"] {
				ex := p.Expr(v, 1)
				// phi(0, seq-1) with seq = GetSequence(AccAddress(validator))
				ln := p.Leaves(v, ana.PVOpt{})
				if ln.HasCall("AccountKeeper.GetSequence") && ln.Ops["binop:-"] && ln.Has("const:1") && ln.Has("const:0") && !ln.Ops["binop:+"] {
					okNonce = true
				}
				_ = ex
			}
		}
		// sequence of the validator's own account
		okSeqAcc := false
		ana.Instrs(f, func(in ssa.Instruction) {
			if call, ok := in.(*ssa.Call); ok {
				if d, ok := ana.Describe(&call.Call); ok && d.Name == "GetSequence" && d.Iface {
					for _, a := range call.Call.Args {
						if derivesFrom(p, a, valV) {
							okSeqAcc = true
						}
					}
				}
			}
		})
		r.Check(okHash && okMsg && okVal && okNonce && okSeqAcc, "C17.guards", "signed-message", c.pos(sigCall), "the verified digest is keccak(Marshal(DelegateKeysSignMsg{validator, seq-1 (0 at seq 0)})) with seq the validator account's sequence",
			sprintf("the signed registration message is not keccak(DelegateKeysSignMsg{validator, sequence-1}) of the validator's own account (keccak=%v msg=%v validator=%v nonce=seq-1=%v own account=%v)", okHash, okMsg, okVal, okNonce, okSeqAcc))
	} else {
		r.Undecided("C17.guards", "signed-message", p.Pos(f.Pos()), "no ValidateEthereumSignature call in the handler")
	}

	// ---- C17.self -------------------------------------------------------------------
	if gs := p.Func("mhub2/types.MsgDelegateKeys.GetSigners"); gs != nil {
		ok := false
		ana.Instrs(gs, func(in ssa.Instruction) {
			if ret, isR := in.(*ssa.Return); isR && len(ret.Results) == 1 {
				l := p.Leaves(ret.Results[0], ana.PVOpt{})
				ok = l.HasField("MsgDelegateKeys.ValidatorAddress") && !l.HasField("MsgDelegateKeys.OrchestratorAddress") && !l.HasField("MsgDelegateKeys.ExternalAddress")
			}
		})
		r.Check(ok, "C17.self", "signer", p.Pos(gs.Pos()), "MsgDelegateKeys.GetSigners derives from ValidatorAddress only", "the registration message can be signed by an account other than the validator's own")
	} else {
		r.Undecided("C17.self", "signer", "-", "MsgDelegateKeys.GetSigners not found")
	}

	// ---- C17.attribution ---------------------------------------------------------------
	// the resolver consults the orchestrator index first and uses the mapped validator when present
	n := 0
	for _, g := range sortedFuncs(c.ConsensusReach()) {
		if ok, _ := c.bondedResolver(g); !ok {
			continue
		}
		n++
		okOrder := false
		var lookups []*ssa.Call
		ana.Instrs(g, func(in ssa.Instruction) {
			if call, ok := in.(*ssa.Call); ok && c.calleeHasEff(call, "store", "Get", "OrchestratorValidatorAddressKey") {
				lookups = append(lookups, call)
			}
		})
		ana.Instrs(g, func(in ssa.Instruction) {
			call, ok := in.(*ssa.Call)
			if !ok {
				return
			}
			d, _ := ana.Describe(&call.Call)
			if d.Name != "Validator" || !d.Iface {
				return
			}
			for _, a := range call.Call.Args {
				for _, lk := range lookups {
					if derivesFrom(p, a, lk) {
						okOrder = true
					}
				}
			}
		})
		// precedence: the signer is treated as a validator's own account only when no orchestrator binding exists
		okPrec := true
		ana.Instrs(g, func(in ssa.Instruction) {
			call, ok := in.(*ssa.Call)
			if !ok {
				return
			}
			d, _ := ana.Describe(&call.Call)
			if d.Name != "Validator" || !d.Iface {
				return
			}
			fromLookup := false
			for _, a := range call.Call.Args {
				for _, lk := range lookups {
					if derivesFrom(p, a, lk) {
						fromLookup = true
					}
				}
			}
			if fromLookup {
				return
			}
			isNil := ana.AtomIsNil(func(v ssa.Value) bool {
				for _, lk := range lookups {
					if v == ssa.Value(lk) || derivesFrom(p, v, lk) {
						return true
					}
				}
				return false
			})
			if !ana.Guarded(call, isNil) {
				okPrec = false
			}
		})
		okOrder = okOrder && okPrec
		r.Check(okOrder && len(lookups) > 0, "C17.attribution", fname(g), p.Pos(g.Pos()), "signer resolution maps an orchestrator to the validator that registered it before the staking lookup", "the signer resolver does not look the signer up in the orchestrator index (votes of an orchestrator would not be attributed to its validator)")
	}
	if n == 0 {
		r.Undecided("C17.attribution", "resolver", "-", "no bonded-validator resolver found")
	}

	// ---- C17.scan-complete: the in-use scans visit every entry ------------------------------
	inScan := map[*ssa.Function]bool{}
	for _, m := range roots.Msg {
		if !hasEff(c.Effects(m), "store", "Set", "ValidatorExternalAddressKey") && !hasEff(c.Effects(m), "store", "Set", "ExternalOrchestratorAddressKey") {
			continue
		}
		for g := range p.Reach(m) {
			inScan[g] = true
		}
	}
	for _, g := range sortedFuncs(c.ConsensusReach()) {
		full := false
		for _, op := range p.StoreOps(g) {
			if !op.IsIter() {
				continue
			}
			if len(op.Key.Parts) == 0 {
				full = true
			}
			// a scan of a delegate-key index by prefix
			if pn := c.prefixName(op); pn == "ValidatorExternalAddressKey" || pn == "ExternalOrchestratorAddressKey" || pn == "OrchestratorValidatorAddressKey" {
				if inScan[g] {
					full = true
				}
			}
		}
		if !full {
			continue
		}
		ok, why := loopOnlyExitsAtHeader(g)
		r.Check(ok, "C17.guards", "scan-complete:"+fname(g), p.Pos(g.Pos()), "the in-use scan leaves its loop only when the iterator is exhausted", "an in-use scan can stop before visiting every entry: "+why)
	}

	c.checkExportPairing()

	// ---- C17.generator -----------------------------------------------------------------
	c.checkKeysGenerator()
}

// scansPrefix: the call (transitively, context-sensitively) iterates the whole store or the given prefix and nothing else is read by key.
func (c *Ctx) scansPrefix(call *ssa.Call, prefix string) bool {
	callee := call.Call.StaticCallee()
	if callee == nil || !c.P.IsModule(callee) {
		return false
	}
	// full-store scan that filters on the prefix constant, or a prefix iteration
	found := false
	for g := range c.P.ReachCS(callee) {
		for _, op := range c.P.StoreOps(g) {
			if !op.IsIter() {
				continue
			}
			if c.prefixName(op) == prefix {
				found = true
			}
			if len(op.Key.Parts) == 0 {
				// whole store: the function must trim/compare with the prefix constant
				t := c.P.PrefixConstants("mhub2/types")
				want := t.ByName[prefix]
				// ... and with no other prefix constant: a filter on one index followed by a trim of another
				// contradicts itself and matches nothing
				others := false
				ana.Instrs(g, func(in ssa.Instruction) {
					if st, ok := in.(*ssa.Store); ok {
						if k, ok := st.Val.(*ssa.Const); ok && k.Value != nil {
							if k.Value.ExactString() == sprintf("%d", want) {
								found = true
							} else if ia, ok := st.Addr.(*ssa.IndexAddr); ok {
								if al, ok := ia.X.(*ssa.Alloc); ok {
									if at, ok := al.Type().Underlying().(*types.Pointer); ok {
										if arr, ok := at.Elem().Underlying().(*types.Array); ok && arr.Len() == 1 {
											if bt, ok := arr.Elem().Underlying().(*types.Basic); ok && bt.Kind() == types.Uint8 {
												others = true
											}
										}
									}
								}
							}
						}
					}
				})
				if others {
					return false
				}
			}
		}
	}
	return found
}

// loopOnlyExitsAtHeader: the iterator loop (header tests Valid()) is left only through the header.
func loopOnlyExitsAtHeader(f *ssa.Function) (bool, string) {
	for _, b := range f.Blocks {
		if len(b.Instrs) == 0 {
			continue
		}
		iff, ok := b.Instrs[len(b.Instrs)-1].(*ssa.If)
		if !ok {
			continue
		}
		call, _ := ana.UnwrapCall(iff.Cond)
		if call == nil || !call.Call.IsInvoke() || call.Call.Method.Name() != "Valid" {
			continue
		}
		body, exit := b.Succs[0], b.Succs[1]
		// blocks of the loop: reachable from body without passing the header
		in := map[*ssa.BasicBlock]bool{}
		stack := []*ssa.BasicBlock{body}
		for len(stack) > 0 {
			x := stack[len(stack)-1]
			stack = stack[:len(stack)-1]
			if in[x] || x == b {
				continue
			}
			in[x] = true
			for _, s := range x.Succs {
				if s != exit {
					stack = append(stack, s)
				}
			}
		}
		// a block inside the loop that reaches the header again is a loop block; one that jumps to exit is a break
		for x := range in {
			reachesHeader := false
			seen := map[*ssa.BasicBlock]bool{}
			st := []*ssa.BasicBlock{x}
			for len(st) > 0 {
				y := st[len(st)-1]
				st = st[:len(st)-1]
				if seen[y] {
					continue
				}
				seen[y] = true
				if y == b {
					reachesHeader = true
					break
				}
				st = append(st, y.Succs...)
			}
			for _, s := range x.Succs {
				if s == exit {
					return false, "a break leaves the scan loop"
				}
				_ = reachesHeader
			}
			if len(x.Instrs) > 0 {
				if _, isRet := x.Instrs[len(x.Instrs)-1].(*ssa.Return); isRet {
					return false, "a return leaves the scan loop"
				}
			}
		}
		return true, ""
	}
	return false, "no iterator loop found"
}

// checkExportPairing: in the function that lists the registrations for export / the DelegateKeys query, the
// orchestrator reported with an entry is the one looked up under that entry's own external address.
func (c *Ctx) checkExportPairing() {
	p, r := c.P, c.R
	n := 0
	for _, f := range sortedFuncs(c.LiveReach()) {
		if p.L.IsGenerated(f.Pos()) || c.isGenesisImport(f) || isRoot(f, c.Roots().Msg) {
			continue
		}
		ana.Instrs(f, func(in ssa.Instruction) {
			st, ok := in.(*ssa.Store)
			if !ok {
				return
			}
			fa, ok := st.Addr.(*ssa.FieldAddr)
			if !ok {
				return
			}
			sty := structOf(fa.X.Type())
			tn := ana.NamedOf(fa.X.Type())
			if sty == nil || tn == nil || tn.Obj().Name() != "MsgDelegateKeys" || sty.Field(fa.Field).Name() != "OrchestratorAddress" {
				return
			}
			n++
			l := p.Leaves(st.Val, ana.PVOpt{Opaque: func(d ana.CalleeDesc) bool { return d.Recv == "Keeper" }})
			okLookup := false
			detail := strings.Join(l.List(), ",")
			for _, vals := range l.Vals {
				for _, v := range vals {
					call, _ := ana.UnwrapCall(v)
					if call == nil {
						continue
					}
					lookup := false
					for _, callee := range p.Callees(call) {
						if hasEff(c.Effects(callee), "store", "Get", "ExternalOrchestratorAddressKey") {
							lookup = true
						}
					}
					if !lookup {
						continue
					}
					// keyed by the same entry's external address
					for _, a := range call.Call.Args {
						la := p.Leaves(a, ana.PVOpt{})
						if la.HasField("MsgDelegateKeys.ExternalAddress") {
							for _, lv := range la.Vals {
								for _, x := range lv {
									root, path := rootAndPath(x)
									eroot, _ := fieldRoot(fa)
									if path == "ExternalAddress" && (root == eroot || root == fa.X) {
										okLookup = true
									}
								}
							}
						}
					}
				}
			}
			r.Check(okLookup, "C17.triple", "listing:"+fname(f), c.pos(st), "a listed registration carries the orchestrator stored under its own external address",
				"a listed registration's orchestrator is not looked up under that entry's own external address ("+detail+"): an export / query can pair a validator with another validator's orchestrator, and the import writes the pair without any signature")
		})
	}
	if n == 0 {
		r.Undecided("C17.triple", "listing", "-", "no function fills MsgDelegateKeys.OrchestratorAddress for export")
	}
}
