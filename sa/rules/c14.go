package rules

import (
	"go/types"
	"sort"
	"strings"

	"golang.org/x/tools/go/ssa"

	"mhubsa/ana"
)

func init() {
	register("C14", Meta{
		Explanation: "Structural necessary conditions of 'votes aggregate only on identical events': (coverage) for every type implementing ExternalEvent, every proto field of the event (nonces, asset, amount, fee, sender, recipient, destination chain, external height, tx hash, fee paid, fee payer, members) reaches the bytes given to the hash function in Hash(); ContractCallExecutedEvent.ReturnData is excluded only while no module code reads it; (injective) the hashed byte string is an injective encoding of those fields: lossy encoders are rejected (common.Hex2Bytes on a string that may carry the 0x prefix yields an empty slice; BigInt().Bytes() drops the sign of a value that Validate does not force to be non-negative) and at most one variable-length part may be concatenated without a length delimiter; (key) the vote-record key is prefix|chain|nonce(8)|hash and the event body stored with the first vote is never replaced by a later vote.",
		NotDecided:  []string{"collision resistance of SHA-256", "a type tag inside the hash (no admissible colliding pair of different event types was found; recorded as advisory)"},
		Assumptions: append(append([]string{}, commonAssumptions...), "SHA-256 is collision resistant"),
	}, checkC14)
}

func eventFields(n *types.Named) []string {
	st, _ := n.Underlying().(*types.Struct)
	if st == nil {
		return nil
	}
	var out []string
	for i := 0; i < st.NumFields(); i++ {
		f := st.Field(i)
		if !f.Exported() || strings.HasPrefix(f.Name(), "XXX_") {
			continue
		}
		out = append(out, f.Name())
	}
	return out
}

func checkC14(c *Ctx) {
	c.hashLayouts = nil
	p, r := c.P, c.R
	r.Min("C14.coverage", 33)
	r.Min("C14.injective", 10)
	r.Min("C14.key", 2)
	hashes := p.ImplementersOf("mhub2/types", "ExternalEvent", "Hash")
	if len(hashes) < 5 {
		r.Undecided("C14.coverage", "types", "-", sprintf("only %d ExternalEvent implementations found, expected 5", len(hashes)))
	}
	// is ReturnData read anywhere in module code?
	returnDataRead := false
	for _, f := range p.Funcs {
		ana.Instrs(f, func(in ssa.Instruction) {
			if fa, ok := in.(*ssa.FieldAddr); ok {
				if s := structOf(fa.X.Type()); s != nil && s.Field(fa.Field).Name() == "ReturnData" {
					for _, ref := range *fa.Referrers() {
						if ld, ok := ref.(*ssa.UnOp); ok && ld.X == ssa.Value(fa) {
							returnDataRead = true
						}
					}
				}
			}
			if call, ok := in.(ssa.CallInstruction); ok {
				if d, ok := ana.Describe(call.Common()); ok && d.Name == "GetReturnData" {
					returnDataRead = true
				}
			}
		})
	}
	for _, h := range hashes {
		tn := ana.NamedOf(h.Signature.Recv().Type())
		if tn == nil {
			continue
		}
		tname := tn.Obj().Name()
		// the value hashed: argument of the Sum256 / hash call feeding the return; the digest may be computed by
		// a helper of the same package that is handed the bytes (or the parts)
		findHash := func(fn *ssa.Function) ssa.Value {
			var out ssa.Value
			ana.Instrs(fn, func(in ssa.Instruction) {
				if call, ok := in.(*ssa.Call); ok {
					if d, _ := ana.Describe(&call.Call); (d.Pkg == "crypto/sha256" && d.Name == "Sum256") || d.Name == "Keccak256" || d.Name == "Keccak256Hash" {
						out = call.Call.Args[0]
					}
				}
			})
			return out
		}
		hashed := findHash(h)
		var hashSite *ssa.Call
		if hashed == nil {
			// the helper whose result Hash() returns
			ana.Instrs(h, func(in ssa.Instruction) {
				ret, ok := in.(*ssa.Return)
				if !ok || len(ret.Results) != 1 || hashed != nil {
					return
				}
				v := ret.Results[0]
				for i := 0; i < 6; i++ {
					switch x := v.(type) {
					case *ssa.ChangeType:
						v = x.X
					case *ssa.Convert:
						v = x.X
					case *ssa.Slice:
						v = x.X
					}
				}
				call, ok := v.(*ssa.Call)
				if !ok {
					return
				}
				g := call.Call.StaticCallee()
				if g == nil || g.Blocks == nil || g.Pkg != h.Pkg {
					return
				}
				if hv := findHash(g); hv != nil {
					hashed, hashSite = hv, call
				}
			})
		}
		if hashed == nil {
			r.Undecided("C14.coverage", tname, p.Pos(h.Pos()), "no hash call found in Hash()")
			continue
		}
		opt := ana.PVOpt{Through: map[string][]int{"ExternalSigners.Hash": {0}}}
		pieces := p.PiecesAt(hashed, hashSite)
		l := c.piecesLeaves(pieces, opt)
		for _, fld := range eventFields(tn) {
			key := tname + "." + fld
			if fld == "ReturnData" && !returnDataRead {
				r.Note("C14.coverage", key, p.Pos(h.Pos()), "excluded: no module code reads ReturnData, so it does not influence the event's effect")
				continue
			}
			if l.HasField(key) {
				r.Ok("C14.coverage", key, p.Pos(h.Pos()), "field reaches the hashed bytes")
			} else {
				r.Bad("C14.coverage", key, p.Pos(h.Pos()), sprintf("%s does not enter Hash(): two reported events that differ only in %s get the same claim identifier and are tallied together (the body stored with the first vote wins)", key, fld))
			}
		}
		c.checkHashInjective(h, tname, hashed, pieces)
	}

	// no two event types share a byte layout (8-byte / 32-byte / variable parts in the same order)
	var lays []string
	for l := range c.hashLayouts {
		lays = append(lays, l)
	}
	sort.Strings(lays)
	for _, l := range lays {
		ts := c.hashLayouts[l]
		sort.Strings(ts)
		if len(ts) > 1 {
			r.Bad("C14.injective", "same-layout:"+strings.Join(ts, "+"), "-", "the claim hashes of "+strings.Join(ts, " and ")+" are built with the same byte layout ("+l+") and no type tag: a report of one type can be crafted to carry the identifier of a report of the other, and the votes for both are tallied together")
		} else {
			r.Ok("C14.injective", "layout:"+ts[0], "-", "byte layout "+l+" is used by this event type only")
		}
	}

	// the members hash covers address and power of every member
	if mh := p.Func("mhub2/types.ExternalSigners.Hash"); mh != nil {
		var written []*ana.Prov
		full := false
		// what is hashed: the values written to the buffer / appended to the input, member by member
		ana.Instrs(mh, func(in ssa.Instruction) {
			call, ok := in.(*ssa.Call)
			if !ok {
				return
			}
			if d, _ := ana.Describe(&call.Call); d.Pkg == "crypto/sha256" && d.Name == "Sum256" {
				for _, pc := range p.Pieces(call.Call.Args[0], nil) {
					written = append(written, p.Leaves(pc.Val, ana.PVOpt{}))
				}
			}
		})
		ana.Instrs(mh, func(in ssa.Instruction) {
			if ia, ok := in.(*ssa.IndexAddr); ok && fullRange(ia) {
				full = true
			}
		})
		for _, fld := range []string{"ExternalAddress", "Power"} {
			ok := false
			for _, w := range written {
				if w.HasField("ExternalSigner." + fld) {
					ok = full
				}
			}
			r.Check(ok, "C14.coverage", "ExternalSigner."+fld, p.Pos(mh.Pos()), "every member's "+fld+" enters the members hash", "a signer-set member's "+fld+" does not enter the members hash used by the SignerSetTxExecuted claim hash")
		}
	} else {
		r.Undecided("C14.coverage", "ExternalSigners.Hash", "-", "members hash not found")
	}

	// ---- key ------------------------------------------------------------------------------
	live := c.LiveReach()
	for _, f := range sortedFuncs(live) {
		for _, op := range p.StoreOps(f) {
			if c.prefixName(op) != "ExternalEventVoteRecordKey" || op.IsIter() {
				continue
			}
			kinds := strings.Join(op.Key.Kinds(), "|")
			norm := strings.NewReplacer("param", "HASH", "bytes", "HASH").Replace(kinds)
			r.Check(norm == "0x05|chain|u64|HASH", "C14.key", strings.ToLower(op.Op)+":"+fname(f), c.pos(op.Site), "vote-record key = prefix|chain|nonce(8)|hash", "vote-record key is "+kinds+", expected prefix|chain|nonce(8)|hash")
		}
	}
	// the stored body is only set when the record is new
	for _, st := range votesAppends(c, c.ConsensusReach(), "ExternalEventVoteRecord") {
		f := st.Parent()
		ok := true
		n := 0
		ana.Instrs(f, func(in ssa.Instruction) {
			s2, isS := in.(*ssa.Store)
			if !isS {
				return
			}
			fa, isF := s2.Addr.(*ssa.FieldAddr)
			if !isF {
				return
			}
			if s := structOf(fa.X.Type()); s == nil || s.Field(fa.Field).Name() != "Event" {
				return
			}
			if nn := ana.NamedOf(fa.X.Type()); nn == nil || nn.Obj().Name() != "ExternalEventVoteRecord" {
				return
			}
			n++
			if _, fresh := fa.X.(*ssa.Alloc); !fresh {
				ok = false
				return
			}
			isNew := ana.AtomIsNil(func(v ssa.Value) bool {
				call, _ := ana.UnwrapCall(v)
				return call != nil && c.calleeHasEff(call, "store", "Get", "ExternalEventVoteRecordKey")
			})
			if !ana.Guarded(s2, isNew) {
				ok = false
			}
		})
		r.Check(ok && n > 0, "C14.key", "first-body:"+fname(f), p.Pos(f.Pos()), "the event body is stored only when the record is created", "a later vote can replace the event body stored with the first vote")
	}
}

// checkHashInjective classifies the concatenated parts.
func (c *Ctx) checkHashInjective(h *ssa.Function, tname string, hashed ssa.Value, pieces []ana.Piece) {
	p, r := c.P, c.R
	// the operands of the concatenation that is hashed
	var parts []ssa.Value
	if !(len(pieces) == 1 && pieces[0].Val == hashed) {
		for _, pc := range pieces {
			parts = append(parts, pc.Val)
		}
	}
	if len(parts) == 0 {
		r.Undecided("C14.injective", tname, p.Pos(h.Pos()), "the hashed value is not a concatenation of parts (bytes.Join, append chain, buffer writes)")
		return
	}
	nVar := 0
	var varNames []string
	for _, pt := range parts {
		// the members hash is a fixed-width part with its own coverage rule: it is not looked into here
		l := p.Leaves(pt, ana.PVOpt{Opaque: func(d ana.CalleeDesc) bool { return d.Recv == "ExternalSigners" && d.Name == "Hash" }})
		fields := strings.Join(l.Fields(), ",")
		ex := p.Expr(pt, 0)
		// narrowing steps on the way to the bytes: distinct field values collapse
		for _, op := range l.OpList() {
			switch op {
			case "HexToAddress", "HexToHash", "BytesToAddress", "ToLower", "ToUpper", "TrimSpace", "TrimPrefix", "FromHex", "TrimLeft", "TrimRight", "TrimSuffix", "Trim", "ReplaceAll", "Replace", "ToTitle":
				for _, f := range l.Fields() {
					r.Bad("C14.injective", "normalised:"+f, p.Pos(h.Pos()), f+" is normalised by "+op+" before it is hashed while the handler uses the field as reported: reports that spell it differently (and so take different effect) get one claim identifier")
				}
			case "Int.Uint64", "Int.Int64", "Int.Int", "Dec.TruncateInt64", "Dec.RoundInt64", "Int.Sign", "Int.BitLen", "Int.Cmp":
				for _, f := range l.Fields() {
					r.Bad("C14.injective", "narrowed:"+f, p.Pos(h.Pos()), f+" passes through "+op+" before it is hashed: values that agree in the part that is kept (e.g. modulo 2^64) get the same claim identifier")
				}
			}
		}
		if cv := narrowingConvert(pt); cv != "" {
			for _, f := range l.Fields() {
				r.Bad("C14.injective", "narrowed:"+f, p.Pos(h.Pos()), f+" is converted "+cv+" before it is hashed: values that differ only in the dropped bits get the same claim identifier")
			}
		}
		switch {
		case strings.HasPrefix(ex, "Uint64ToBigEndian("):
			// fixed 8
		case strings.HasPrefix(ex, "Hex2Bytes("):
			nVar++
			varNames = append(varNames, fields)
			for _, f := range l.Fields() {
				r.Bad("C14.injective", "lossy:"+f, p.Pos(h.Pos()), f+" is encoded with common.Hex2Bytes, which returns an empty slice for the usual 0x-prefixed form: the field is effectively not covered by the claim hash")
			}
		case strings.Contains(ex, "Int.BigInt(") && strings.HasPrefix(ex, "Int.Bytes("):
			nVar++
			varNames = append(varNames, fields)
			// big.Int.Bytes is the magnitude: +x and -x encode alike, so the event's Validate has to refuse negatives
			for _, f := range l.Fields() {
				okNeg := c.validateRejectsNegative(h, f)
				r.Check(okNeg, "C14.injective", "sign:"+f, p.Pos(h.Pos()), f+" is hashed by magnitude and Validate refuses a negative value", f+" enters the claim hash by magnitude only (big.Int.Bytes) and the event's Validate does not refuse a negative value: +x and -x are admissible reports with one claim identifier")
			}
		case strings.HasPrefix(ex, "ExternalSigners.Hash("):
			// fixed 32
		case strings.HasPrefix(ex, "AccAddress.Bytes(") || strings.HasPrefix(ex, "ValAddress.Bytes("):
			nVar++
			varNames = append(varNames, fields)
		default:
			nVar++
			varNames = append(varNames, fields)
		}
	}
	// the layout of the hashed bytes (fixed 8-byte parts, fixed 32-byte parts, variable parts), for the
	// cross-type comparison: identifiers carry no type tag, so two event types with one layout can collide
	var lay []string
	for _, pt := range parts {
		ex := p.Expr(pt, 0)
		switch {
		case strings.HasPrefix(ex, "Uint64ToBigEndian("):
			lay = append(lay, "8")
		case strings.HasPrefix(ex, "ExternalSigners.Hash("):
			lay = append(lay, "32")
		default:
			lay = append(lay, "v")
		}
	}
	if c.hashLayouts == nil {
		c.hashLayouts = map[string][]string{}
	}
	c.hashLayouts[strings.Join(lay, "|")] = append(c.hashLayouts[strings.Join(lay, "|")], tname)
	// how each variable-length part is spelled (text or binary): part of the finding's identity, a change of
	// an encoding is a different ambiguity than the one recorded for today's tree
	var enc []string
	for _, pt := range parts {
		ex := p.Expr(pt, 0)
		if strings.HasPrefix(ex, "Uint64ToBigEndian(") || strings.HasPrefix(ex, "ExternalSigners.Hash(") {
			continue
		}
		fs := p.Leaves(pt, ana.PVOpt{Opaque: func(d ana.CalleeDesc) bool { return d.Recv == "ExternalSigners" && d.Name == "Hash" }}).Fields()
		nm := "?"
		if len(fs) > 0 {
			nm = fs[0][strings.LastIndex(fs[0], ".")+1:]
		}
		enc = append(enc, nm+"/"+encClass(p, pt, 0))
	}
	undKey := "undelimited:" + tname
	if base, ok := baselineEncodings[tname]; ok && strings.Join(enc, ",") != base {
		undKey += ":" + strings.Join(enc, ",")
	}
	if nVar >= 2 {
		r.Bad("C14.injective", undKey, p.Pos(h.Pos()), sprintf("%d variable-length parts (%s) are concatenated without length delimiters: events whose variable-length fields are shifted across a field boundary (Minter coin \"1\"+amount 0x39.. vs coin \"19\"+amount ..) hash alike", nVar, strings.Join(varNames, " | ")))
	} else {
		r.Ok("C14.injective", "undelimited:"+tname, p.Pos(h.Pos()), sprintf("%d parts, at most one of variable length", len(parts)))
	}
}

// narrowingConvert finds, on the value path of a hashed part, a numeric conversion to a narrower type.
func narrowingConvert(v ssa.Value) string {
	seen := map[ssa.Value]bool{}
	var out string
	var walk func(v ssa.Value, d int)
	walk = func(v ssa.Value, d int) {
		if v == nil || d > 8 || seen[v] || out != "" {
			return
		}
		seen[v] = true
		switch x := v.(type) {
		case *ssa.Convert:
			from, ok1 := x.X.Type().Underlying().(*types.Basic)
			to, ok2 := x.Type().Underlying().(*types.Basic)
			if ok1 && ok2 && from.Info()&types.IsInteger != 0 && to.Info()&types.IsInteger != 0 && intBits(to) < intBits(from) {
				out = "from " + from.Name() + " to " + to.Name()
				return
			}
			walk(x.X, d+1)
		case *ssa.Call:
			for _, a := range x.Call.Args {
				walk(a, d+1)
			}
		case *ssa.ChangeType:
			walk(x.X, d+1)
		case *ssa.Slice:
			walk(x.X, d+1)
		case *ssa.MakeInterface:
			walk(x.X, d+1)
		}
	}
	walk(v, 0)
	return out
}

func intBits(b *types.Basic) int {
	switch b.Kind() {
	case types.Int8, types.Uint8:
		return 8
	case types.Int16, types.Uint16:
		return 16
	case types.Int32, types.Uint32:
		return 32
	}
	return 64
}

// validateRejectsNegative: the Validate method of the event type returns an error under <field>.IsNegative().
func (c *Ctx) validateRejectsNegative(hash *ssa.Function, field string) bool {
	p := c.P
	tn := ana.NamedOf(hash.Signature.Recv().Type())
	if tn == nil {
		return false
	}
	var val *ssa.Function
	for _, f := range p.ImplementersOf("mhub2/types", "ExternalEvent", "Validate") {
		if n := ana.NamedOf(f.Signature.Recv().Type()); n != nil && n.Obj() == tn.Obj() {
			val = f
		}
	}
	if val == nil {
		return false
	}
	// isAmount(v): v carries the field (in Validate itself) or the bound parameter (in a helper)
	var rejects func(fn *ssa.Function, isAmount func(ssa.Value) bool, depth int) bool
	rejects = func(fn *ssa.Function, isAmount func(ssa.Value) bool, depth int) bool {
		neg := ana.AtomCallBool(func(call *ssa.Call, d ana.CalleeDesc) bool {
			return d.Recv == "Int" && d.Name == "IsNegative" && len(call.Call.Args) == 1 && isAmount(call.Call.Args[0])
		}, true)
		nonNeg := ana.AtomCallBool(func(call *ssa.Call, d ana.CalleeDesc) bool {
			return d.Recv == "Int" && d.Name == "IsPositive" && len(call.Call.Args) == 1 && isAmount(call.Call.Args[0])
		}, true)
		// ... or the check is made by a helper of the same package that is handed the amount and whose own
		// success returns are cut off by it
		viaHelper := ana.AtomErrNil(func(call *ssa.Call, d ana.CalleeDesc) bool {
			g := call.Call.StaticCallee()
			if g == nil || g.Blocks == nil || g.Pkg != fn.Pkg || depth >= 2 {
				return false
			}
			for i, a := range call.Call.Args {
				if !isAmount(a) || i >= len(g.Params) {
					continue
				}
				par := g.Params[i]
				if rejects(g, func(v ssa.Value) bool {
					l := p.Leaves(v, ana.PVOpt{})
					return len(l.Leaves) >= 1 && paramLeaf(l, g, par.Name())
				}, depth+1) {
					return true
				}
			}
			return false
		})
		ok := true
		n := 0
		ana.Instrs(fn, func(in ssa.Instruction) {
			ret, isRet := in.(*ssa.Return)
			if !isRet || in.Parent() != fn || len(ret.Results) != 1 {
				return
			}
			// a success return: nil, or the result of a helper whose success is decided by the atoms above
			if !ana.IsNilConst(ret.Results[0]) {
				return
			}
			n++
			notNeg := func(cd ana.Cond) (bool, bool) {
				if pol, m := neg(cd); m {
					return !pol, true
				}
				if pol, m := nonNeg(cd); m {
					return pol, true
				}
				return viaHelper(cd)
			}
			if !ana.Guarded(ret, notNeg) {
				ok = false
			}
		})
		return ok && n > 0
	}
	return rejects(val, func(v ssa.Value) bool { return p.Leaves(v, ana.PVOpt{}).HasField(field) }, 0)
}

// piecesLeaves is the union of the provenance of the pieces, each evaluated in the frame it belongs to.
func (c *Ctx) piecesLeaves(pieces []ana.Piece, opt ana.PVOpt) *ana.Prov {
	var out *ana.Prov
	for _, pc := range pieces {
		var l *ana.Prov
		var chain []ssa.CallInstruction
		for e := pc.Env; e != nil; e = e.Parent {
			if e.Site != nil {
				chain = append([]ssa.CallInstruction{e.Site}, chain...)
			}
		}
		if len(chain) > 0 && pc.Val != nil && pc.Val.Parent() != nil && chain[len(chain)-1].Common().StaticCallee() == pc.Val.Parent() {
			l = c.P.LeavesChain(pc.Val, chain, opt)
		} else {
			l = c.P.Leaves(pc.Val, opt)
		}
		if out == nil {
			out = l
		} else {
			out.Merge(l)
		}
	}
	if out == nil {
		out = c.P.Leaves(nil, opt)
	}
	return out
}

// baselineEncodings: the spelling of the variable-length hash parts for which the "undelimited" findings of
// the pinned tree were recorded (known_findings.json); another spelling gets its own key.
var baselineEncodings = map[string]string{
	"SendToHubEvent":       "ExternalCoinId/text,Amount/bin,Sender/bin,CosmosReceiver/bin",
	"TransferToChainEvent": "ExternalCoinId/text,Amount/bin,Sender/bin,ExternalReceiver/text,ReceiverChainId/text",
}

// encClass: "text" if the bytes are the characters of a string / a textual marshalling, else "bin".
func encClass(p *ana.Prog, v ssa.Value, depth int) string {
	if depth > 6 || v == nil {
		return "bin"
	}
	switch x := v.(type) {
	case *ssa.Convert:
		if b, ok := x.X.Type().Underlying().(*types.Basic); ok && b.Info()&types.IsString != 0 {
			return "text"
		}
		return encClass(p, x.X, depth+1)
	case *ssa.ChangeType:
		return encClass(p, x.X, depth+1)
	case *ssa.Slice:
		return encClass(p, x.X, depth+1)
	case *ssa.Extract:
		return encClass(p, x.Tuple, depth+1)
	case *ssa.Phi:
		for _, e := range x.Edges {
			if encClass(p, e, depth+1) == "text" {
				return "text"
			}
		}
	case *ssa.Call:
		d, _ := ana.Describe(&x.Call)
		switch d.Name {
		case "Marshal", "MarshalJSON", "MarshalText", "MarshalAmino", "String", "Sprintf", "Sprint", "Itoa", "FormatInt", "FormatUint", "AppendInt", "AppendUint", "Text":
			return "text"
		}
		if fn := x.Call.StaticCallee(); fn != nil && p.IsModule(fn) && fn.Blocks != nil {
			out := "bin"
			ana.Instrs(fn, func(in ssa.Instruction) {
				if ret, ok := in.(*ssa.Return); ok && len(ret.Results) >= 1 {
					if encClass(p, ret.Results[0], depth+1) == "text" {
						out = "text"
					}
				}
			})
			return out
		}
	}
	return "bin"
}
