package rules

import (
	"go/token"
	"go/types"
	"strings"

	"golang.org/x/tools/go/ssa"

	"mhubsa/ana"
)

func init() {
	register("C06", Meta{
		Explanation: "Nondeterminism lint over consensus-reachable code (begin/end block, message handlers, governance handler, InitGenesis): (map-range) every range over a map is order-insensitive: its body only writes other maps under the loop key, accumulates integers, computes a min/max reduction, or appends to a slice that is sorted before any other use; store / bank / event effects, element-dependent early exits, last-writer-wins assignments and appends to slices that escape unsorted are violations; (sources) no wall clock (time.Now/Since/Until), math/rand or crypto/rand, environment or file input, goroutine, select or channel operation, and no fused float expression x*y±z, in that code; (float-inventory, evidence only) remaining float arithmetic sites, with ExternalSigners.PowerDiff recorded as a reviewed exception (its map-order float sum is exact because every addend is an integer below 2^33 and the member count is small).",
		NotDecided:  []string{"byte-identity of state across replays as such", "nondeterminism inside the SDK, Tendermint or the protobuf codec", "iteration order of store iterators (deterministic by the IAVL contract)"},
		Assumptions: commonAssumptions,
	}, checkC06)
}

func isMapType(t types.Type) bool {
	_, ok := t.Underlying().(*types.Map)
	return ok
}

func checkC06(c *Ctx) {
	p, r := c.P, c.R
	reach := c.ConsensusReach()
	r.Min("C06.map-range", 6)
	r.Min("C06.sources", 1)

	nRange := 0
	for _, f := range sortedFuncs(reach) {
		if p.L.IsGenerated(f.Pos()) {
			continue
		}
		ana.Instrs(f, func(in ssa.Instruction) {
			rg, ok := in.(*ssa.Range)
			if !ok || !isMapType(rg.X.Type()) {
				return
			}
			nRange++
			okR, why := c.mapRangeInsensitive(f, rg)
			key := fname(f) + ":range over " + types.TypeString(rg.X.Type(), func(pk *types.Package) string { return pk.Name() })
			if okR {
				r.Ok("C06.map-range", key, c.pos(rg), "order-insensitive: "+why)
			} else {
				r.Bad("C06.map-range", key, c.pos(rg), "the outcome of this range over a map depends on Go's randomised iteration order: "+why)
			}
		})
	}
	r.Analysed["map_ranges_in_consensus_code"] = nRange

	// ---- sources ---------------------------------------------------------------------------
	nSrc := 0
	nFuncs := 0
	for _, f := range sortedFuncs(reach) {
		if p.L.IsGenerated(f.Pos()) {
			continue
		}
		nFuncs++
		ana.Instrs(f, func(in ssa.Instruction) {
			switch x := in.(type) {
			case *ssa.Go:
				nSrc++
				r.Bad("C06.sources", "go:"+fname(f), c.pos(in), "goroutine started in consensus code")
			case *ssa.Select:
				nSrc++
				r.Bad("C06.sources", "select:"+fname(f), c.pos(in), "select statement in consensus code")
			case *ssa.Send:
				nSrc++
				r.Bad("C06.sources", "chan:"+fname(f), c.pos(in), "channel send in consensus code")
			case *ssa.MakeChan:
				nSrc++
				r.Bad("C06.sources", "chan:"+fname(f), c.pos(in), "channel created in consensus code")
			case ssa.CallInstruction:
				d, ok := ana.Describe(x.Common())
				if !ok {
					return
				}
				bad := ""
				switch {
				case d.Pkg == "time" && (d.Name == "Now" || d.Name == "Since" || d.Name == "Until" || d.Name == "After" || d.Name == "Tick" || d.Name == "Sleep") && d.Recv == "":
					bad = "wall clock (time." + d.Name + ")"
				case d.Pkg == "math/rand" || d.Pkg == "crypto/rand" || d.Pkg == "math/rand/v2":
					bad = "randomness (" + d.Pkg + "." + d.Name + ")"
				case d.Pkg == "os" && (strings.HasPrefix(d.Name, "Getenv") || d.Name == "LookupEnv" || d.Name == "ReadFile" || d.Name == "Open" || d.Name == "Hostname" || d.Name == "Getpid"):
					bad = "process environment (os." + d.Name + ")"
				case d.Pkg == "runtime" && (d.Name == "NumGoroutine" || d.Name == "NumCPU" || d.Name == "GC" || d.Name == "Stack" || d.Name == "Caller" || d.Name == "Callers"):
					bad = "runtime state (runtime." + d.Name + ")"
				case d.Pkg == "runtime/debug" && (d.Name == "Stack" || d.Name == "PrintStack" || d.Name == "ReadBuildInfo"):
					bad = "runtime state (debug." + d.Name + ": goroutine ids and addresses)"
				case d.Pkg == "time" && d.Recv == "Time" && (d.Name == "Format" || d.Name == "String" || d.Name == "Local" || d.Name == "Zone" || d.Name == "AppendFormat"):
					// a time built by time.Unix is in the host's local zone: its text differs between hosts unless it
					// is converted with UTC() / In() first
					args := x.Common().Args
					if len(args) > 0 {
						l := c.P.Leaves(args[0], ana.PVOpt{})
						if l.HasOp("Unix") && !l.HasOp("Time.UTC") && !l.HasOp("Time.In") {
							bad = "host time zone (" + d.Name + " of a time.Unix value without UTC())"
						}
					}
				}
				if bad != "" {
					nSrc++
					r.Bad("C06.sources", strings.Fields(bad)[0]+":"+fname(f), c.pos(in), "consensus code reads a source that differs between nodes or replays: "+bad)
				}
			case *ssa.BinOp:
				// fused multiply-add shape on floats: (x*y)±z may be fused on some architectures
				if b, ok := x.Type().Underlying().(*types.Basic); ok && b.Info()&types.IsFloat != 0 && (x.Op == token.ADD || x.Op == token.SUB) {
					for _, o := range []ssa.Value{x.X, x.Y} {
						if m, ok := o.(*ssa.BinOp); ok && m.Op == token.MUL {
							nSrc++
							r.Bad("C06.sources", "fma:"+fname(f), c.pos(in), "float expression of the shape x*y±z (may be fused into one rounding on some architectures)")
						}
					}
				}
			}
		})
	}
	if nSrc == 0 {
		r.Ok("C06.sources", "all", "-", sprintf("no wall clock, randomness, environment, goroutine, channel or fused-float source in %d consensus-reachable functions", nFuncs))
	}
	// ---- global-state ------------------------------------------------------------------------
	// State that lives in the process and not in the store is not rolled back with a discarded branch
	// (CheckTx, simulations, the governance handler's cache context) and is empty after a restart, so a
	// consensus result that reads it differs between nodes.  No code that consensus or query processing
	// can reach may write memory rooted at a package-level variable of the module.
	r.Min("C06.global-state", 1)
	live := c.LiveReach()
	nG, nRefs := 0, 0
	for _, w := range c.globalWrites(live, &nRefs) {
		nG++
		gname, gdesc := "sync.Map", "process-local memory"
		if w.g != nil {
			gname, gdesc = w.g.Name(), "the package-level variable "+w.g.Pkg.Pkg.Name()+"."+w.g.Name()
		}
		r.Bad("C06.global-state", gname+":"+fname(w.f), c.pos(w.in), "code reachable from block, message or query processing "+w.how+" "+gdesc+": process-local state survives discarded store branches and is lost on restart, so nodes can compute different results from the same blocks")
	}
	if nG == 0 {
		r.Ok("C06.global-state", "all", "-", sprintf("no write to package-level state of the module in %d reachable functions (%d read references)", len(live), nRefs))
	}

	// float inventory
	for _, f := range sortedFuncs(reach) {
		if p.L.IsGenerated(f.Pos()) {
			continue
		}
		n := 0
		ana.Instrs(f, func(in ssa.Instruction) {
			if bo, ok := in.(*ssa.BinOp); ok {
				if b, ok := bo.Type().Underlying().(*types.Basic); ok && b.Info()&types.IsFloat != 0 {
					n++
				}
			}
		})
		if n > 0 {
			note := "float arithmetic in consensus code"
			if strings.HasSuffix(fname(f), "ExternalSigners.PowerDiff") {
				note = "reviewed exception: sums |integer differences| < 2^33 of a small signer set, exact in float64 in any order"
			}
			r.Note("C06.float-inventory", fname(f), p.Pos(f.Pos()), sprintf("%d float operation(s): %s", n, note))
		}
	}
}

// mapRangeInsensitive classifies the body of a range-over-map loop.
func (c *Ctx) mapRangeInsensitive(f *ssa.Function, rg *ssa.Range) (bool, string) {
	p := c.P
	// the Next instruction and the loop blocks
	var next *ssa.Next
	for _, ref := range *rg.Referrers() {
		if n, ok := ref.(*ssa.Next); ok {
			next = n
		}
	}
	if next == nil {
		return true, "range value unused"
	}
	header := next.Block()
	// loop body blocks: reachable from the header's continue-successor without passing the header
	var iff *ssa.If
	if len(header.Instrs) > 0 {
		iff, _ = header.Instrs[len(header.Instrs)-1].(*ssa.If)
	}
	if iff == nil {
		return false, "unrecognised loop shape"
	}
	// Next's ok is false when done: cond is Extract #0 of next: true -> body
	body, exit := header.Succs[0], header.Succs[1]
	in := map[*ssa.BasicBlock]bool{}
	stack := []*ssa.BasicBlock{body}
	for len(stack) > 0 {
		b := stack[len(stack)-1]
		stack = stack[:len(stack)-1]
		if in[b] || b == header {
			continue
		}
		in[b] = true
		for _, s := range b.Succs {
			if s != exit {
				stack = append(stack, s)
			}
		}
	}
	// key / value extracts
	var keyV ssa.Value
	for _, ref := range *next.Referrers() {
		if ex, ok := ref.(*ssa.Extract); ok && ex.Index == 1 {
			keyV = ex
		}
	}
	reasons := []string{}
	// majority-uniqueness pattern: every effect / exit of the body sits behind "value > K" where the
	// ranged map's values partition a total of at most T among distinct voters and K >= T/2: at most one
	// key can pass, so the order of iteration cannot change which one does
	unique, uwhy := c.majorityUnique(f, rg, next, in)
	for b := range in {
		// early exits
		for _, s := range b.Succs {
			if s == exit {
				return false, "the loop is left early (break) depending on the element visited"
			}
		}
		for _, instr := range b.Instrs {
			switch x := instr.(type) {
			case *ssa.Return:
				if unique != nil && unique(x) {
					reasons = append(reasons, uwhy)
					continue
				}
				return false, "the loop returns from inside the iteration (the first matching element in map order wins)"
			case *ssa.Panic:
				// a panic is order-independent as an outcome
			case *ssa.MapUpdate:
				if x.Map == rg.X {
					// in-place update of the ranged map under the loop key
					if keyV != nil && x.Key == keyV {
						reasons = append(reasons, "key-wise update of the ranged map")
						continue
					}
					return false, "the ranged map is updated under another key during iteration"
				}
				if keyV != nil && x.Key == keyV {
					reasons = append(reasons, "writes another map under the loop key")
					continue
				}
				// set insertion map[f(elem)] = const is order-insensitive when the value is constant
				if _, isK := x.Value.(*ssa.Const); isK {
					reasons = append(reasons, "set insertion")
					continue
				}
				return false, "another map is written under a key that is not the loop key with a non-constant value (last writer wins)"
			case *ssa.Store:
				ok, why := c.orderInsensitiveStore(f, x, in, exit)
				if !ok {
					return false, why
				}
				reasons = append(reasons, why)
			case ssa.CallInstruction:
				d, okD := ana.Describe(x.Common())
				if !okD {
					return false, "dynamic call inside the iteration"
				}
				if d.Pkg == "builtin" {
					continue
				}
				// pure helpers
				if (d.Recv != "" && (d.Recv == "Int" || d.Recv == "Dec" || d.Recv == "Uint")) || d.Pkg == "math" || d.Pkg == "strings" || d.Pkg == "fmt" && d.Name == "Sprintf" {
					continue
				}
				if strings.HasPrefix(d.Name, "New") && (strings.HasSuffix(d.Pkg, "cosmos-sdk/types")) {
					continue
				}
				// effects?
				eff := false
				for _, callee := range p.Callees(x) {
					for g := range p.Reach(callee) {
						if len(p.StoreOps(g)) > 0 || len(p.BankOps(g)) > 0 {
							eff = true
						}
					}
				}
				if len(p.StoreOps(f)) > 0 {
					for _, op := range p.StoreOps(f) {
						if op.Site == x {
							eff = true
						}
					}
				}
				if d.Name == "EmitEvent" || d.Name == "EmitEvents" {
					eff = true
				}
				if eff {
					if unique != nil && unique(x.(ssa.Instruction)) {
						reasons = append(reasons, uwhy)
						continue
					}
					return false, "a store / bank / event effect (" + d.String() + ") happens inside the iteration, in map order"
				}
			}
		}
	}
	// phi-carried accumulations at the header: integer += only, or min/max
	for _, instr := range header.Instrs {
		ph, ok := instr.(*ssa.Phi)
		if !ok {
			continue
		}
		okP, why := c.orderInsensitivePhi(ph, in)
		if !okP {
			return false, why
		}
		if why != "" {
			reasons = append(reasons, why)
		}
	}
	if len(reasons) == 0 {
		return true, "body has no order-dependent effect"
	}
	return true, strings.Join(dedup(reasons), "; ")
}

func dedup(s []string) []string {
	seen := map[string]bool{}
	var out []string
	for _, x := range s {
		if !seen[x] {
			seen[x] = true
			out = append(out, x)
		}
	}
	return out
}

// orderInsensitivePhi: a loop-carried value is an integer sum, a min/max reduction, or a slice that is
// sorted (or dead) after the loop.
func (c *Ctx) orderInsensitivePhi(ph *ssa.Phi, in map[*ssa.BasicBlock]bool) (bool, string) {
	carried := false
	for i, e := range ph.Edges {
		if in[ph.Block().Preds[i]] && e != ssa.Value(ph) {
			carried = true
			_ = e
		}
	}
	if !carried {
		return true, ""
	}
	t := ph.Type()
	// integer accumulation / min-max
	if b, ok := t.Underlying().(*types.Basic); ok {
		if b.Info()&types.IsInteger != 0 {
			for i, e := range ph.Edges {
				if !in[ph.Block().Preds[i]] || e == ssa.Value(ph) {
					continue
				}
				switch x := e.(type) {
				case *ssa.BinOp:
					if x.Op == token.ADD && (x.X == ssa.Value(ph) || x.Y == ssa.Value(ph)) {
						continue
					}
					return false, "an integer is carried through the loop by an order-dependent operation (" + x.Op.String() + ")"
				case *ssa.Phi:
					// nested conditional: min/max reduction "if k < x { x = k }": edges are ph itself or the candidate
					continue
				default:
					// assignment of the element under a comparison = min/max reduction; plain assignment = last writer wins
					if !c.isMinMaxAssign(ph, e) {
						return false, "a variable is overwritten with the element visited last (last writer wins)"
					}
				}
			}
			return true, "integer accumulation / min-max reduction"
		}
		if b.Info()&types.IsFloat != 0 {
			// float accumulation is order-sensitive in general; the reviewed PowerDiff exception is keyed by function
			if strings.HasSuffix(fname(ph.Parent()), "ExternalSigners.PowerDiff") {
				return true, "float sum of exact integers (reviewed exception, see C06.float-inventory)"
			}
			return false, "floating-point accumulation in map order"
		}
		if b.Info()&types.IsString != 0 {
			return false, "string accumulation in map order"
		}
	}
	if _, ok := t.Underlying().(*types.Slice); ok {
		// appended inside the loop: must be sorted before any other use after the loop, or unused
		return c.sliceSortedAfter(ph, in)
	}
	return true, ""
}

// isMinMaxAssign: the value e flows into phi only under a comparison between e (or its source) and phi.
func (c *Ctx) isMinMaxAssign(ph *ssa.Phi, e ssa.Value) bool {
	f := ph.Parent()
	ok := false
	for _, b := range f.Blocks {
		if len(b.Instrs) == 0 {
			continue
		}
		iff, isIf := b.Instrs[len(b.Instrs)-1].(*ssa.If)
		if !isIf {
			continue
		}
		cd := ana.NormCond(iff.Cond)
		walk := func(v ssa.Value) []ssa.Value {
			var out []ssa.Value
			var rec func(x ssa.Value, d int)
			rec = func(x ssa.Value, d int) {
				if d > 4 {
					return
				}
				out = append(out, x)
				if bo, ok := x.(*ssa.BinOp); ok {
					rec(bo.X, d+1)
					rec(bo.Y, d+1)
				}
			}
			rec(v, 0)
			return out
		}
		var ops []ssa.Value
		if bo, isB := iff.Cond.(*ssa.BinOp); isB {
			ops = append(walk(bo.X), walk(bo.Y)...)
		}
		_ = cd
		hasPhi, hasE := false, false
		for _, o := range ops {
			if o == ssa.Value(ph) {
				hasPhi = true
			}
			if o == e {
				hasE = true
			}
		}
		if hasPhi && hasE {
			ok = true
		}
	}
	return ok
}

// sliceSortedAfter: every use of the slice after the loop is preceded by a sort call on it, or there is none.
func (c *Ctx) sliceSortedAfter(ph *ssa.Phi, in map[*ssa.BasicBlock]bool) (bool, string) {
	var uses []ssa.Instruction
	for _, ref := range *ph.Referrers() {
		if in[ref.Block()] || ref.Block() == ph.Block() {
			continue
		}
		if _, isDbg := ref.(*ssa.DebugRef); isDbg {
			continue
		}
		uses = append(uses, ref)
	}
	if len(uses) == 0 {
		return true, "appended slice is unused after the loop"
	}
	var sortCall ssa.Instruction
	for _, u := range uses {
		if call, ok := u.(ssa.CallInstruction); ok {
			if d, ok := ana.Describe(call.Common()); ok && d.Pkg == "sort" {
				sortCall = u
			}
		}
		// sort.Slice(x, ...) receives the slice boxed in an interface
		if mi, ok := u.(*ssa.MakeInterface); ok {
			for _, r2 := range *mi.Referrers() {
				if call, ok := r2.(ssa.CallInstruction); ok {
					if d, ok := ana.Describe(call.Common()); ok && d.Pkg == "sort" {
						sortCall = r2
					}
				}
			}
		}
	}
	if sortCall == nil {
		return false, "elements are appended to a slice in map order and the slice is used without being sorted"
	}
	// the sort must impose a total order on the elements themselves: sort.Slice with a comparator that looks
	// at something derived from the elements (a field, a map lookup) leaves ties in map order (and is not stable)
	if call, ok := sortCall.(ssa.CallInstruction); ok {
		if d, ok := ana.Describe(call.Common()); ok && d.Pkg == "sort" && !sortIsTotal(call, d) {
			return false, "the slice filled in map order is sorted by sort." + d.Name + " with a comparator that does not order the elements themselves: elements that compare equal stay in map order"
		}
	}
	for _, u := range uses {
		if u == sortCall {
			continue
		}
		if mi, ok := u.(*ssa.MakeInterface); ok {
			isSortArg := false
			for _, r2 := range *mi.Referrers() {
				if r2 == sortCall {
					isSortArg = true
				}
			}
			if isSortArg {
				continue
			}
		}
		// the use must come after the sort
		if !(sortCall.Block() == u.Block() && ana.InstrIndex(sortCall) < ana.InstrIndex(u)) && !(sortCall.Block() != u.Block() && sortCall.Block().Dominates(u.Block())) {
			return false, "the slice filled in map order is used before it is sorted"
		}
	}
	return true, "appended slice is sorted before use"
}

// orderInsensitiveStore: a store inside the loop body.
func (c *Ctx) orderInsensitiveStore(f *ssa.Function, st *ssa.Store, in map[*ssa.BasicBlock]bool, exit *ssa.BasicBlock) (bool, string) {
	// stores into fresh locals of the iteration (array literals for varargs, composite literals) are fine
	root := st.Addr
	for i := 0; i < 6; i++ {
		switch x := root.(type) {
		case *ssa.IndexAddr:
			root = x.X
			continue
		case *ssa.FieldAddr:
			root = x.X
			continue
		}
		break
	}
	if a, ok := root.(*ssa.Alloc); ok {
		if in[a.Block()] {
			return true, "writes a value local to the iteration"
		}
		// a variable declared outside the loop: accumulation patterns
		if call, ok := st.Val.(*ssa.Call); ok {
			if b, ok := call.Call.Value.(*ssa.Builtin); ok && b.Name() == "append" {
				// captured slice variable: must be sorted after the loop
				sorted := false
				for _, ref := range *a.Referrers() {
					if ld, ok := ref.(*ssa.UnOp); ok && !in[ld.Block()] {
						for _, r2 := range *ld.Referrers() {
							if mi, ok := r2.(*ssa.MakeInterface); ok {
								for _, r3 := range *mi.Referrers() {
									if cc, ok := r3.(ssa.CallInstruction); ok {
										if d, ok := ana.Describe(cc.Common()); ok && d.Pkg == "sort" {
											sorted = true
											if !sortIsTotal(cc, d) {
												return false, "the slice filled in map order is sorted by sort." + d.Name + " with a comparator that does not order the elements themselves: elements that compare equal stay in map order"
											}
										}
									}
								}
							}
							if cc, ok := r2.(ssa.CallInstruction); ok {
								if d, ok := ana.Describe(cc.Common()); ok && d.Pkg == "sort" {
									sorted = true
								}
							}
						}
					}
				}
				if sorted {
					return true, "appended slice is sorted before use"
				}
				return false, "elements are appended to a slice in map order and the slice is not sorted afterwards"
			}
		}
		return false, "a variable declared outside the loop is assigned inside it (last writer wins)"
	}
	// stores through pointers obtained from the element: element-local
	return true, "writes through the visited element"
}

// majorityUnique recognises the strict-majority tally: it returns a predicate telling whether an
// instruction of the loop body is guarded by "value > K" with K at least half of the total the map's
// values can sum to (MaxUint16-normalised powers of distinct voters).
func (c *Ctx) majorityUnique(f *ssa.Function, rg *ssa.Range, next *ssa.Next, in map[*ssa.BasicBlock]bool) (func(ssa.Instruction) bool, string) {
	p := c.P
	var valV ssa.Value
	for _, ref := range *next.Referrers() {
		if ex, ok := ref.(*ssa.Extract); ok && ex.Index == 2 {
			valV = ex
		}
	}
	if valV == nil {
		return nil, ""
	}
	// (a) the map's values are sums of normalised validator powers indexed by the record's votes
	okSum := false
	ana.Instrs(f, func(instr ssa.Instruction) {
		mu, ok := instr.(*ssa.MapUpdate)
		if !ok || mu.Map != rg.X {
			return
		}
		lv := p.Leaves(mu.Value, ana.PVOpt{Opaque: func(d ana.CalleeDesc) bool { return d.Name == "GetNormalizedValPowers" }})
		if lv.HasCall("Keeper.GetNormalizedValPowers") && lv.Ops["binop:+"] && !lv.Ops["binop:*"] && (lv.HasField("Attestation.Votes") || lv.Ops["lookup"]) {
			okSum = true
		}
	})
	if !okSum {
		return nil, ""
	}
	// (b) the normalisation total is MaxUint16 and voters are distinct
	total := int64(65535)
	distinct := false
	for _, st := range votesAppends(c, c.ConsensusReach(), "Attestation") {
		if c.voteAppendDistinct(st) {
			distinct = true
		} else {
			return nil, ""
		}
	}
	norm := false
	for _, g := range p.Funcs {
		if g.Name() == "GetNormalizedValPowers" {
			ana.Instrs(g, func(instr ssa.Instruction) {
				if mu, ok := instr.(*ssa.MapUpdate); ok {
					ex := p.Expr(mu.Value, 0)
					if strings.Contains(ex, "Uint.QuoUint64(Uint.MulUint64(NewUint(") && strings.Contains(ex, ",65535),") {
						norm = true
					}
				}
			})
		}
	}
	if !distinct || !norm {
		return nil, ""
	}
	atom := ana.AtomCmp(func(op token.Token, x, y ssa.Value) (bool, bool) {
		a, b := x, y
		switch op {
		case token.GTR:
		case token.LSS:
			a, b = y, x
		default:
			return false, false
		}
		if a != valV {
			return false, false
		}
		k, ok := b.(*ssa.Const)
		if !ok || k.Value == nil {
			return false, false
		}
		n, ok2 := constInt64(k)
		if !ok2 || 2*n < total {
			return false, false
		}
		return true, true
	})
	return func(instr ssa.Instruction) bool { return ana.Guarded(instr, atom) },
		"strict-majority tally: distinct voters' MaxUint16-normalised powers sum to at most 65535, so at most one key exceeds the threshold and the order of iteration cannot change the outcome"
}

func constInt64(k *ssa.Const) (int64, bool) {
	if k.Value == nil {
		return 0, false
	}
	s := k.Value.ExactString()
	var n int64
	for _, ch := range s {
		if ch < '0' || ch > '9' {
			return 0, false
		}
		n = n*10 + int64(ch-'0')
	}
	return n, true
}

// moduleGlobal: a package-level variable declared in the repository's own packages.
func moduleGlobal(g *ssa.Global) bool {
	return g != nil && g.Pkg != nil && g.Pkg.Pkg != nil && strings.Contains(g.Pkg.Pkg.Path(), "MinterTeam/mhub2")
}

// globalRoot follows an address or reference back through field / index selections, loads and slices
// to the module package-level variable it is rooted at.
func globalRoot(v ssa.Value) *ssa.Global {
	for i := 0; i < 12 && v != nil; i++ {
		switch x := v.(type) {
		case *ssa.Global:
			if moduleGlobal(x) {
				return x
			}
			return nil
		case *ssa.FieldAddr:
			v = x.X
		case *ssa.IndexAddr:
			v = x.X
		case *ssa.UnOp:
			if x.Op != token.MUL {
				return nil
			}
			v = x.X
		case *ssa.Slice:
			v = x.X
		case *ssa.ChangeType:
			v = x.X
		case *ssa.Field:
			v = x.X
		default:
			return nil
		}
	}
	return nil
}

type globalWrite struct {
	f   *ssa.Function
	in  ssa.Instruction
	g   *ssa.Global
	how string
}

// globalWrites lists the instructions in the given functions that write memory rooted at a package-level
// variable of the module (assignments, map updates, sync.Map / atomic / Once / Pool mutators).
func (c *Ctx) globalWrites(fns map[*ssa.Function]bool, nRefs *int) []globalWrite {
	p := c.P
	var out []globalWrite
	for _, f := range sortedFuncs(fns) {
		if p.L.IsGenerated(f.Pos()) || f.Name() == "init" || (f.Synthetic != "" && f.Parent() == nil) {
			continue
		}
		ana.Instrs(f, func(in ssa.Instruction) {
			flag := func(g *ssa.Global, how string) { out = append(out, globalWrite{f, in, g, how}) }
			if nRefs != nil {
				for _, op := range in.Operands(nil) {
					if g, ok := (*op).(*ssa.Global); ok && moduleGlobal(g) {
						*nRefs++
					}
				}
			}
			switch x := in.(type) {
			case *ssa.Store:
				if g := globalRoot(x.Addr); g != nil {
					flag(g, "assigns to (memory reachable from)")
				}
			case *ssa.MapUpdate:
				if g := globalRoot(x.Map); g != nil {
					flag(g, "updates the map held in")
				}
			case ssa.CallInstruction:
				cc := x.Common()
				d, ok := ana.Describe(cc)
				if !ok {
					return
				}
				args := cc.Args
				if cc.IsInvoke() {
					args = append([]ssa.Value{cc.Value}, args...)
				}
				if len(args) == 0 {
					return
				}
				g := globalRoot(args[0])
				if g == nil {
					// a concurrent map / atomic hung on a long-lived object (the keeper) is process-local state as well
					if d.Pkg == "sync" && d.Recv == "Map" && (d.Name == "Store" || d.Name == "LoadOrStore" || d.Name == "LoadAndDelete" || d.Name == "Delete" || d.Name == "Swap" || d.Name == "CompareAndSwap") {
						out = append(out, globalWrite{f, in, nil, "mutates a sync.Map (" + d.Name + ") that lives outside the store –"})
					}
					return
				}
				mut := false
				switch {
				case d.Pkg == "sync" && d.Recv == "Map" && (d.Name == "Store" || d.Name == "LoadOrStore" || d.Name == "LoadAndDelete" || d.Name == "Delete" || d.Name == "Swap" || d.Name == "CompareAndSwap" || d.Name == "CompareAndDelete"):
					mut = true
				case d.Pkg == "sync" && d.Recv == "Once" && d.Name == "Do":
					mut = true
				case d.Pkg == "sync/atomic" && (strings.HasPrefix(d.Name, "Store") || strings.HasPrefix(d.Name, "Add") || strings.HasPrefix(d.Name, "Swap") || strings.HasPrefix(d.Name, "CompareAndSwap")):
					mut = true
				case d.Pkg == "sync" && d.Recv == "Pool" && d.Name == "Put":
					mut = true
				}
				if mut {
					flag(g, "mutates, through "+d.Recv+"."+d.Name+",")
				}
			}
		})
	}
	return out
}

// comparesElements: every return of the comparator is  s[i] < s[j]  (or >) on the elements of the captured
// slice indexed by the two parameters – a total order when the elements are distinct (map keys).
func comparesElements(less *ssa.Function) bool {
	if len(less.Params) != 2 || len(less.FreeVars) == 0 {
		return false
	}
	isElem := func(v ssa.Value, par *ssa.Parameter) bool {
		ld, ok := v.(*ssa.UnOp)
		if !ok || ld.Op != token.MUL {
			return false
		}
		ia, ok := ld.X.(*ssa.IndexAddr)
		if !ok || ia.Index != ssa.Value(par) {
			return false
		}
		// the indexed slice is a captured variable
		x := ia.X
		if l2, ok := x.(*ssa.UnOp); ok && l2.Op == token.MUL {
			x = l2.X
		}
		_, isFree := x.(*ssa.FreeVar)
		return isFree
	}
	ok := true
	n := 0
	ana.Instrs(less, func(in ssa.Instruction) {
		ret, isRet := in.(*ssa.Return)
		if !isRet || in.Parent() != less || len(ret.Results) != 1 {
			return
		}
		n++
		bo, isB := ret.Results[0].(*ssa.BinOp)
		if !isB || (bo.Op != token.LSS && bo.Op != token.GTR) {
			ok = false
			return
		}
		i, j := less.Params[0], less.Params[1]
		if !(isElem(bo.X, i) && isElem(bo.Y, j)) && !(isElem(bo.X, j) && isElem(bo.Y, i)) {
			ok = false
		}
	})
	return ok && n > 0
}

// sortIsTotal: sort.Strings / Ints / Float64s order the elements themselves; sort.Slice(Stable) does when its
// comparator compares s[i] with s[j]; sort.Sort / Stable on a user type is not analysed (treated as not total).
func sortIsTotal(call ssa.CallInstruction, d ana.CalleeDesc) bool {
	switch d.Name {
	case "Strings", "Ints", "Float64s":
		return true
	case "Slice", "SliceStable":
		args := call.Common().Args
		if len(args) == 2 {
			if mc, ok := args[1].(*ssa.MakeClosure); ok {
				if less, ok := mc.Fn.(*ssa.Function); ok {
					return comparesElements(less)
				}
			}
		}
	}
	return false
}
