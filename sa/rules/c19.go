package rules

import (
	"go/types"
	"go/token"
	"regexp"
	"strings"

	"golang.org/x/tools/go/ssa"

	"mhubsa/ana"
)

func init() {
	register("C19", Meta{
		Explanation: "Structural necessary conditions of the fee distribution on batch execution: (clamp) the relayer reimbursement that is minted is min(x, T) with T the converted sum of the batch's Fee amounts, in a recognised form (if x >= T {x = T}; if T < x …; MinInt); (remainder) the refundable remainder that is minted is T - reimbursement, the same two locals; (prorata) each user refund is remainder*fee_i/sum with sum accumulated over the batch's transactions under the same predicate (fee_i >= average) that selects the recipients, and each commission payout is C*power_i/sum(power) over one and the same signer-set value; (record) the per-transfer fee record is initialised from the transfer's own Fee and ValCommission amounts; (units) TxFeeRecord fields only ever receive external-unit values, no bank operation receives external units and no known-vs-known unit mix occurs in the distribution (UQ engine).",
		NotDecided:  []string{"the inequalities themselves (they follow from the shapes only by arithmetic the checker does not do)", "price data and the 1.5x gas factor", "rounding dust of the pro-rata split"},
		Assumptions: commonAssumptions,
	}, checkC19)
}

// localNamed finds the local variable allocation with the given name (Alloc.Comment) in fn.
func localNamed(fn *ssa.Function, name string) *ssa.Alloc {
	var out *ssa.Alloc
	ana.Instrs(fn, func(in ssa.Instruction) {
		if a, ok := in.(*ssa.Alloc); ok && a.Comment == name {
			out = a
		}
	})
	return out
}

// loadedAlloc returns the local a value is a (whole) load of.
func loadedAlloc(v ssa.Value) *ssa.Alloc {
	for i := 0; i < 4; i++ {
		switch x := v.(type) {
		case *ssa.UnOp:
			if x.Op == token.MUL {
				if a, ok := x.X.(*ssa.Alloc); ok {
					return a
				}
			}
			return nil
		case *ssa.Slice:
			// sdk.Coins{c}: array literal with one element
			if a, ok := x.X.(*ssa.Alloc); ok {
				for _, ref := range *a.Referrers() {
					if ia, ok := ref.(*ssa.IndexAddr); ok {
						for _, rr := range *ia.Referrers() {
							if st, ok := rr.(*ssa.Store); ok {
								return loadedAlloc(st.Val)
							}
						}
					}
				}
			}
			return nil
		case *ssa.ChangeType:
			v = x.X
		case *ssa.MakeInterface:
			v = x.X
		default:
			return nil
		}
	}
	return nil
}

func wholeStores(a *ssa.Alloc) []*ssa.Store {
	var out []*ssa.Store
	for _, r := range *a.Referrers() {
		if s, ok := r.(*ssa.Store); ok && s.Addr == ssa.Value(a) {
			out = append(out, s)
		}
	}
	return out
}

func checkC19(c *Ctx) {
	// the per-transfer fee record is written twice on execution (fee paid, then fee kept): the second write
	// must replace the first
	c.R.Min("C19.record-overwrite", 1)
	c.checkOverwrites("C19.record-overwrite", "TxFeeRecordKey", c.LiveReach(), "the fee-record setter stores every value it is given",
		"the fee-record setter stores a record only depending on whether one already exists (test at %s): the reduction by the refund is dropped and the record reports the full fee paid instead of the fee kept")
	c.checkKeyMakers("C19", 1)
	// the recorded fees are external-unit values: the converter truncates, so what is scaled back up and
	// distributed on execution never exceeds what was burnt in hub units
	c.include("units", "C11", rulesIn("C11.convert-truncates"))
	p, r := c.P, c.R
	reach := c.ConsensusReach()
	r.Min("C19.clamp", 1)
	r.Min("C19.remainder", 1)
	r.Min("C19.prorata", 2)
	r.Min("C19.record", 2)
	execs := c.batchExecutedFns(reach)
	if len(execs) == 0 {
		r.Undecided("C19.clamp", "role", "-", "no batch-executed function found")
	}
	for _, f := range execs {
		effs := c.Effects(f)
		var mints []Eff
		for _, e := range effs {
			if e.Kind == "bank" && e.Op == "MintCoins" && e.In == f {
				mints = append(mints, e)
			}
		}
		// classify
		var feeMint, remMint, comMint *Eff
		for i := range mints {
			l := c.EL(mints[i], mints[i].Bank.Coins, amountOpt)
			switch {
			case l.HasField("SendToExternal.ValCommission.Amount") && !l.HasField("SendToExternal.Fee.Amount"):
				comMint = &mints[i]
			case l.HasField("SendToExternal.Fee.Amount") && l.HasOp("Coin.Sub"):
				remMint = &mints[i]
			case l.HasField("SendToExternal.Fee.Amount"):
				feeMint = &mints[i]
			}
		}
		if feeMint == nil || remMint == nil || comMint == nil {
			r.Undecided("C19.clamp", fname(f), p.Pos(f.Pos()), sprintf("the three execution payouts were not all found (commission=%v reimbursement=%v remainder=%v)", comMint != nil, feeMint != nil, remMint != nil))
			continue
		}
		F := loadedAlloc(outerValue(feeMint.Bank.Coins, feeMint.Chain))
		L := loadedAlloc(outerValue(remMint.Bank.Coins, remMint.Chain))
		C := loadedAlloc(outerValue(comMint.Bank.Coins, comMint.Chain))
		if F == nil || L == nil || C == nil {
			r.Undecided("C19.clamp", fname(f), p.Pos(f.Pos()), "a payout is not minted from a local coin variable")
			continue
		}
		// T: the total-fee local = the other operand of the remainder subtraction
		var T *ssa.Alloc
		okRem := false
		ls := wholeStores(L)
		if len(ls) == 1 {
			if call, ok := ls[0].Val.(*ssa.Call); ok {
				if d, _ := ana.Describe(&call.Call); d.Recv == "Coin" && d.Name == "Sub" && len(call.Call.Args) == 2 {
					T = loadedAlloc(call.Call.Args[0])
					if T != nil && loadedAlloc(call.Call.Args[1]) == F {
						okRem = true
					}
				}
			}
		}
		okT := false
		if T != nil {
			lt := p.Leaves(T, amountOpt)
			okT = lt.HasField("SendToExternal.Fee.Amount") && !lt.HasField("SendToExternal.ValCommission.Amount") && !lt.HasField("SendToExternal.Token.Amount") &&
				lt.HasOp("Keeper.ConvertFromExternalValue") && !lt.HasCall("OracleKeeper.MustGetTokenPrice")
		}
		r.Check(okRem && okT, "C19.remainder", fname(f), c.pos(remMint.At), sprintf("remainder %s = %s.Sub(%s) with %s the converted sum of the batch's fees", L.Comment, nameOf(T), F.Comment, nameOf(T)),
			"the refundable remainder that is minted is not (total collected fee) - (reimbursement actually minted): minting both could pay the fees out twice")

		// clamp
		okClamp := false
		why := "the reimbursement local is assigned in an unrecognised way"
		fs := wholeStores(F)
		if T != nil {
			switch len(fs) {
			case 2:
				var sT, sX *ssa.Store
				for _, s := range fs {
					if loadedAlloc(s.Val) == T {
						sT = s
					} else {
						sX = s
					}
				}
				if sT != nil && sX != nil {
					atom := ana.AtomCallBool(func(call *ssa.Call, d ana.CalleeDesc) bool {
						if len(call.Call.Args) != 2 {
							return false
						}
						a, b := loadedAlloc(call.Call.Args[0]), loadedAlloc(call.Call.Args[1])
						if a == nil {
							a = allocOfFieldLoad(call.Call.Args[0])
						}
						if b == nil {
							b = allocOfFieldLoad(call.Call.Args[1])
						}
						switch d.Name {
						case "IsGTE", "GTE", "GT":
							return a == F && b == T
						case "IsLT", "LT", "LTE":
							return a == T && b == F
						}
						return false
					}, true)
					if ana.Guarded(sT, atom) {
						okClamp = true
					} else {
						why = "the assignment reimbursement = total fee is not guarded by reimbursement >= total fee"
					}
				}
			case 1:
				l := p.Leaves(fs[0].Val, amountOpt)
				if l.HasOp("MinInt") && l.HasField("SendToExternal.Fee.Amount") {
					okClamp = true
				} else {
					why = "the reimbursement is never clamped to the total collected fee"
				}
			}
		}
		r.Check(okClamp, "C19.clamp", fname(f), c.pos(feeMint.At), "the minted reimbursement is min(x, total collected fee)", "the relayer reimbursement is not clamped to the fees collected in the batch: "+why)

		// pro-rata user refunds and commission payouts
		convRe := `Keeper\.ConvertFromExternalValue\([^()]*field:SendToExternal\.Fee\.Amount\)`
		// (matched against the canonical rendering: operands of commutative operations are sorted)
		userRe := regexp.MustCompile(`^NewCoin\([^,]*,Int\.Quo\(Int\.Mul\((` + convRe + `),local:` + regexp.QuoteMeta(L.Comment) + `\.Amount\),phi\(NewInt\(0\),(?:@,)?Int\.Add\(@,(` + convRe + `)\)(?:,@)?\)\)\)$`)
		comRe := regexp.MustCompile(`^NewCoin\([^,]*,Int\.Quo\(Int\.Mul\(NewIntFromUint64\(field:ExternalSigner\.Power\),local:` + regexp.QuoteMeta(C.Comment) + `\.Amount\),NewIntFromUint64\(phi\(0,\(@\+field:ExternalSigner\.Power\)\)\)\)\)$`)
		nUser, nCom := 0, 0
		ana.Calls(f, func(site ssa.CallInstruction, d ana.CalleeDesc) {
			isInsert := false
			for _, callee := range p.Callees(site) {
				if hasEff(c.Effects(callee), "bank", "BurnCoins", "") {
					isInsert = true
				}
			}
			if !isInsert {
				return
			}
			args := site.Common().Args
			var rcpt, amt ssa.Value
			for _, a := range args {
				if a.Type().String() == "string" && rcpt == nil {
					rcpt = a
				}
				if n := ana.NamedOf(a.Type()); n != nil && n.Obj().Name() == "Coin" && amt == nil {
					amt = a
				}
			}
			if rcpt == nil || amt == nil {
				return
			}
			lr := p.Leaves(rcpt, ana.PVOpt{})
			ex := ana.CanonExpr(p.Expr(amt, 1))
			switch {
			case lr.HasField("SendToExternal.RefundAddress"):
				nUser++
				m := userRe.FindStringSubmatch(ex)
				okForm := m != nil && m[1] == m[2]
				// same predicate for the sum and for the recipients
				okPred, whyP := c.sameSelection(f, site.(ssa.Instruction), amt, F)
				r.Check(okForm && okPred, "C19.prorata", "user-refund:"+fname(f), c.pos(site.(ssa.Instruction)), "user refund = remainder*fee_i/sum(fee_j | fee_j >= avg), recipients selected by the same predicate",
					sprintf("the per-user fee refund is not remainder*fee_i/sum over the transfers selected by one predicate (form ok=%v, %s): %s", okForm, whyP, ex))
			case lr.HasField("ExternalSigner.ExternalAddress"):
				nCom++
				okForm := comRe.MatchString(ex)
				okSet := sameSliceLoads(amt)
				r.Check(okForm && okSet, "C19.prorata", "commission:"+fname(f), c.pos(site.(ssa.Instruction)), "commission payout = C*power_i/sum(power) over one signer-set value",
					sprintf("the commission payout is not C*power_i/sum(power_j) over one signer set (form ok=%v, same set=%v): %s", okForm, okSet, ex))
			}
		})
		// the payouts created on execution (reimbursement, refunds, commission) are transfers of their own: they are
		// not filed under the hash of a user's transfer, whose status and fee records are keyed by that hash
		nPayoutHash := 0
		ana.Calls(f, func(site ssa.CallInstruction, d ana.CalleeDesc) {
			isInsert := false
			for _, callee := range p.Callees(site) {
				if hasEff(c.Effects(callee), "bank", "BurnCoins", "") {
					isInsert = true
				}
			}
			if !isInsert {
				return
			}
			for _, a := range site.Common().Args {
				if b, isB := a.Type().Underlying().(*types.Basic); !isB || b.Info()&types.IsString == 0 {
					continue
				}
				l := p.Leaves(a, ana.PVOpt{})
				if l.HasField("SendToExternal.TxHash") {
					nPayoutHash++
					r.Bad("C19.record", "payout-hash:"+fname(f), c.pos(site.(ssa.Instruction)), "a payout created on batch execution is filed under the tx hash of a user's transfer: the fee record and the status of that transfer are keyed by the same hash and are overwritten when the payout is batched, executed or expires")
				}
			}
		})
		if nPayoutHash == 0 {
			r.Ok("C19.record", "payout-hash:"+fname(f), p.Pos(f.Pos()), "no payout of an execution is filed under the hash of a user's transfer")
		}
		if nUser == 0 {
			r.Undecided("C19.prorata", "user-refund:"+fname(f), p.Pos(f.Pos()), "no per-user fee refund found")
		}
		if nCom == 0 {
			r.Undecided("C19.prorata", "commission:"+fname(f), p.Pos(f.Pos()), "no commission payout found")
		}

		// the fee record is reduced exactly when a refund is sent
		var refundCalls []ssa.Instruction
		ana.Calls(f, func(site ssa.CallInstruction, d ana.CalleeDesc) {
			for _, callee := range p.Callees(site) {
				if !hasEff(c.Effects(callee), "bank", "BurnCoins", "") {
					continue
				}
				for _, a := range site.Common().Args {
					if a.Type().String() == "string" && p.Leaves(a, ana.PVOpt{}).HasField("SendToExternal.RefundAddress") {
						refundCalls = append(refundCalls, site.(ssa.Instruction))
					}
				}
			}
		})
		ana.Calls(f, func(site ssa.CallInstruction, d ana.CalleeDesc) {
			isSet := false
			for _, callee := range p.Callees(site) {
				if hasEff(c.Effects(callee), "store", "Set", "TxFeeRecordKey") {
					isSet = true
				}
			}
			if !isSet {
				return
			}
			// only the update (its value derives from a stored record), not the initialisation
			upd := false
			for _, a := range site.Common().Args {
				l := p.Leaves(a, ana.PVOpt{Opaque: func(d ana.CalleeDesc) bool { return d.Name == "GetTxFeeRecord" }})
				if l.HasCall("Keeper.GetTxFeeRecord") {
					upd = true
				}
			}
			if !upd {
				return
			}
			in := site.(ssa.Instruction)
			paired := false
			for _, rc := range refundCalls {
				if (rc.Block() == in.Block() && ana.InstrIndex(rc) < ana.InstrIndex(in)) || (rc.Block() != in.Block() && rc.Block().Dominates(in.Block())) {
					paired = true
				}
			}
			r.Check(paired, "C19.record", "update-iff-refund:"+fname(f), c.pos(in), "the fee record is reduced only after the refund of that transfer was sent", "the per-transfer fee record is reduced on a path on which no refund was sent for that transfer: the record reports less than the fee actually kept")
		})

		// fee record initialisation
		for _, a := range allocsOfType(f, "TxFeeRecord") {
			fsr := ana.FieldStores(a)
			for fld, want := range map[string]string{"ExternalFee": "SendToExternal.Fee.Amount", "ValCommission": "SendToExternal.ValCommission.Amount"} {
				for _, v := range fsr[fld] {
					l := p.Leaves(v, ana.PVOpt{})
					fields := amountFields(l)
					ok := len(fields) == 1 && fields[0] == want && len(l.Ops) == 0
					r.Check(ok, "C19.record", fld+":"+fname(f), c.pos(a), "fee record "+fld+" = the transfer's own "+want, sprintf("the fee record's %s is initialised from %v (ops %v), expected the transfer's own %s", fld, fields, l.OpList(), want))
				}
			}
		}
	}
	// units
	c.checkUnits("C19.units", reach, true)
}

func nameOf(a *ssa.Alloc) string {
	if a == nil {
		return "?"
	}
	return a.Comment
}

func allocOfFieldLoad(v ssa.Value) *ssa.Alloc {
	if ld, ok := v.(*ssa.UnOp); ok && ld.Op == token.MUL {
		if fa, ok := ld.X.(*ssa.FieldAddr); ok {
			if a, ok := fa.X.(*ssa.Alloc); ok {
				return a
			}
		}
	}
	return nil
}

// sameSliceLoads: all ExternalSigner.Power loads feeding v index one and the same slice value.
func sameSliceLoads(v ssa.Value) bool {
	var slices []ssa.Value
	seen := map[ssa.Value]bool{}
	var walk func(x ssa.Value, depth int)
	walk = func(x ssa.Value, depth int) {
		if x == nil || seen[x] || depth > 30 {
			return
		}
		seen[x] = true
		switch y := x.(type) {
		case *ssa.UnOp:
			if y.Op == token.MUL {
				root, path := rootAndPath(y)
				if path == "Power" {
					// root is *(&slice[i])
					if ld, ok := root.(*ssa.UnOp); ok {
						if ia, ok := ld.X.(*ssa.IndexAddr); ok {
							slices = append(slices, ia.X)
							return
						}
					}
					slices = append(slices, nil)
					return
				}
				if a, ok := y.X.(*ssa.Alloc); ok {
					for _, r := range *a.Referrers() {
						if s, ok := r.(*ssa.Store); ok {
							walk(s.Val, depth+1)
						}
					}
				}
				return
			}
			walk(y.X, depth+1)
		case *ssa.Call:
			for _, a := range y.Call.Args {
				walk(a, depth+1)
			}
		case *ssa.Phi:
			for _, e := range y.Edges {
				walk(e, depth+1)
			}
		case *ssa.BinOp:
			walk(y.X, depth+1)
			walk(y.Y, depth+1)
		case *ssa.Convert:
			walk(y.X, depth+1)
		case *ssa.ChangeType:
			walk(y.X, depth+1)
		}
	}
	walk(v, 0)
	if len(slices) < 2 {
		return false
	}
	for _, s := range slices {
		if s == nil || s != slices[0] {
			return false
		}
	}
	return true
}

// sameSelection: the refund call is guarded by fee_i >= avg and the sum's Add by the same comparison against the same avg.
func (c *Ctx) sameSelection(f *ssa.Function, refundSite ssa.Instruction, amt ssa.Value, F *ssa.Alloc) (bool, string) {
	p := c.P
	var avgExprs []string
	mk := func(want bool) ana.Atom {
		return ana.AtomCallBool(func(call *ssa.Call, d ana.CalleeDesc) bool {
			if d.Recv != "Int" || len(call.Call.Args) != 2 {
				return false
			}
			l := p.Leaves(call.Call.Args[0], amountOpt)
			if !l.HasField("SendToExternal.Fee.Amount") || !l.HasOp("Keeper.ConvertFromExternalValue") {
				return false
			}
			switch d.Name {
			case "GTE":
				if want {
					avgExprs = append(avgExprs, p.Expr(call.Call.Args[1], 1))
					return true
				}
			case "LT":
				if !want {
					avgExprs = append(avgExprs, p.Expr(call.Call.Args[1], 1))
					return true
				}
			}
			return false
		}, want)
	}
	gRefund := ana.Guarded(refundSite, mk(true), mk(false))
	// the accumulating Add: an Int.Add whose receiver is a phi that it feeds
	var addCall *ssa.Call
	ana.Instrs(f, func(in ssa.Instruction) {
		call, ok := in.(*ssa.Call)
		if !ok {
			return
		}
		d, _ := ana.Describe(&call.Call)
		if d.Recv != "Int" || d.Name != "Add" || len(call.Call.Args) != 2 {
			return
		}
		// sum.Add(fee) or fee.Add(sum): the addition is commutative
		for i := 0; i < 2; i++ {
			ph, ok := call.Call.Args[i].(*ssa.Phi)
			if !ok {
				continue
			}
			for _, e := range ph.Edges {
				if e == ssa.Value(call) {
					l := p.Leaves(call.Call.Args[1-i], amountOpt)
					if l.HasField("SendToExternal.Fee.Amount") && l.HasOp("Keeper.ConvertFromExternalValue") {
						addCall = call
					}
				}
			}
		}
	})
	if addCall == nil {
		return false, "no accumulating sum of the selected fees found"
	}
	gSum := ana.Guarded(addCall, mk(true), mk(false))
	same := len(avgExprs) >= 2
	for _, e := range avgExprs {
		if e != avgExprs[0] {
			same = false
		}
	}
	if !gRefund {
		return false, "the refund is not restricted to transfers with fee >= average"
	}
	if !gSum {
		return false, "the sum is not restricted to transfers with fee >= average"
	}
	if !same {
		return false, "the two selections compare against different thresholds: " + strings.Join(avgExprs, " vs ")
	}
	// the threshold is the average reimbursement actually paid: reimbursement / number of transfers
	avgRe := regexp.MustCompile(`^Int\.QuoRaw\(local:` + regexp.QuoteMeta(F.Comment) + `\.Amount,len\(field:BatchTx\.Transactions\)\)$`)
	if !avgRe.MatchString(avgExprs[0]) {
		return false, "the selection threshold is not (reimbursement paid) / (number of transfers): " + avgExprs[0] + " (with another threshold the transfers below it can have paid more than the relayer received, and the others are refunded more than they paid)"
	}
	return true, "same predicate"
}
