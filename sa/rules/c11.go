package rules

import (
	"regexp"
	"sort"
	"strconv"
	"strings"

	"golang.org/x/tools/go/ssa"

	"mhubsa/ana"
)

func init() {
	register("C11", Meta{
		Explanation: "Structural necessary conditions of exact amounts: (debit-identity) in the withdrawal message handler the three coin arguments of the pool insert are Amount.SubAmount(c), BridgeFee and NewCoin(denom, c) with one and the same value c, so the burnt total is Amount + BridgeFee; (commission-form) c = TruncateInt(rate(holder) * (Amount + BridgeFee)) with rate taken from the token's configured commission through the holder-discount function; on the TransferToChain path the scheduled amount is converted(Amount) - commission - converted(Fee) with the same commission and fee values that are passed on; (commission-bound) every return of the holder-commission function is the configured commission or commission - commission*k/100 with constant 0 < k < 100, the tier table is tested from the largest threshold down with strictly monotone thresholds and discounts; (convert-truncates) the decimals converter multiplies by 10^to and then divides by 10^from on one big integer (no additions, no rounding) and the two wrappers pass (external, 18) and (18, external) respectively; (credit) the deposit credit derives from the locked Amount only (C01.deposit-amount) in consistent units (UQ engine); (fail-clean) in the pool insert every lookup that can fail precedes the first bank operation and no error exit follows the burn.",
		NotDecided:  []string{"commission arithmetic at the tier boundaries", "bank-module behaviour (insufficient funds)", "that truncation loses less than one unit (follows from the multiply-then-divide shape by arithmetic)"},
		Assumptions: commonAssumptions,
	}, checkC11)
}

func checkC11(c *Ctx) {
	p, r := c.P, c.R
	roots := c.Roots()
	reach := c.ConsensusReach()
	r.Min("C11.debit-identity", 1)
	r.Min("C11.commission-form", 4)
	r.Min("C11.commission-bound", 7)
	r.Min("C11.convert-truncates", 6)
	r.Min("C11.credit", 2)
	r.Min("C11.fail-clean", 3)

	isInsert := func(site ssa.CallInstruction) bool {
		for _, callee := range p.Callees(site) {
			if hasEff(c.Effects(callee), "bank", "BurnCoins", "") {
				return true
			}
		}
		return false
	}
	coinArgs := func(site ssa.CallInstruction) []ssa.Value {
		var out []ssa.Value
		for _, a := range site.Common().Args {
			if n := ana.NamedOf(a.Type()); n != nil && n.Obj().Name() == "Coin" {
				out = append(out, a)
			}
		}
		return out
	}

	// ---- debit-identity / commission-form: message path ----------------------------
	for _, f := range roots.Msg {
		ana.Calls(f, func(site ssa.CallInstruction, d ana.CalleeDesc) {
			if !isInsert(site) {
				return
			}
			ca := coinArgs(site)
			if len(ca) != 3 {
				return
			}
			in := site.(ssa.Instruction)
			ea, ef, ec := p.Expr(ca[0], 1), p.Expr(ca[1], 1), p.Expr(ca[2], 1)
			// same SSA value c
			var cSub, cNew ssa.Value
			if call, ok := ca[0].(*ssa.Call); ok {
				if dd, _ := ana.Describe(&call.Call); dd.Recv == "Coin" && dd.Name == "SubAmount" && len(call.Call.Args) == 2 {
					cSub = call.Call.Args[1]
				}
			}
			if call, ok := ca[2].(*ssa.Call); ok {
				if dd, _ := ana.Describe(&call.Call); dd.Name == "NewCoin" && len(call.Call.Args) == 2 {
					cNew = call.Call.Args[1]
				}
			}
			okID := cSub != nil && cSub == cNew && strings.HasPrefix(ea, "Coin.SubAmount(field:MsgSendToExternal.Amount,") && ef == "field:MsgSendToExternal.BridgeFee" &&
				strings.HasPrefix(ec, "NewCoin(field:MsgSendToExternal.Amount.Denom,")
			r.Check(okID, "C11.debit-identity", fname(f), c.pos(in), "pool insert receives (Amount - c, BridgeFee, c) with one value c: the debit is Amount + BridgeFee",
				sprintf("the withdrawal does not debit exactly Amount + BridgeFee: amount=%s fee=%s commission=%s (same c: %v)", ea, ef, ec, cSub != nil && cSub == cNew))
			if cSub != nil {
				ex := p.Expr(cSub, 1)
				re := regexp.MustCompile(`^Dec\.TruncateInt\(Dec\.Mul\(Keeper\.GetCommissionForHolder\(\[[^\]]*\],field:TokenInfo\.Commission\),Int\.ToDec\((Int\.Add\(field:MsgSendToExternal\.Amount\.Amount,field:MsgSendToExternal\.BridgeFee\.Amount\)|Int\.Add\(field:MsgSendToExternal\.BridgeFee\.Amount,field:MsgSendToExternal\.Amount\.Amount\))\)\)\)$`)
				r.Check(re.MatchString(ex), "C11.commission-form", "msg:"+fname(f), c.pos(in), "c = TruncateInt(rate(holder, token commission) * (Amount + BridgeFee))",
					"the commission is not TruncateInt(holder rate of the token's configured commission * (Amount + BridgeFee)): "+ex)
				// the token whose commission is used is the one looked up for (chain, denom of the amount)
			}
		})
	}
	// ---- commission-form: TransferToChain path ---------------------------------------
	for _, f := range sortedFuncs(reach) {
		if f.Name() != "Handle" || !inPkg(f, "mhub2/keeper") {
			continue
		}
		ana.Calls(f, func(site ssa.CallInstruction, d ana.CalleeDesc) {
			if !isInsert(site) {
				return
			}
			ca := coinArgs(site)
			if len(ca) != 3 {
				return
			}
			in := site.(ssa.Instruction)
			ea, ef, ec := p.Expr(ca[0], 1), p.Expr(ca[1], 1), p.Expr(ca[2], 1)
			conv := func(fld string) string {
				return `Keeper\.ConvertFromExternalValue\(\$p2,field:TransferToChainEvent\.ExternalCoinId,field:TransferToChainEvent\.` + fld + `\)`
			}
			feeRe := regexp.MustCompile(`^NewCoin\(field:TokenInfo\.Denom,` + conv("Fee") + `\)$`)
			comRe := regexp.MustCompile(`^NewCoin\(field:TokenInfo\.Denom,Dec\.TruncateInt\(Dec\.Mul\(Keeper\.GetCommissionForHolder\(\[[^\]]*\],field:TokenInfo\.Commission\),Int\.ToDec\(` + conv("Amount") + `\)\)\)\)$`)
			want := "Coin.Sub(Coin.Sub(NewCoin(field:TokenInfo.Denom,Keeper.ConvertFromExternalValue($p2,field:TransferToChainEvent.ExternalCoinId,field:TransferToChainEvent.Amount))," + ec + ")," + ef + ")"
			ok := feeRe.MatchString(ef) && comRe.MatchString(ec) && ea == want
			r.Check(ok, "C11.commission-form", "event:"+fname(f), c.pos(in), "scheduled = converted(Amount) - commission - converted(Fee), with the commission and fee that are passed on",
				sprintf("the cross-chain transfer does not schedule converted(Amount) - commission - converted(Fee) with the same commission/fee values: amount=%s fee=%s commission=%s", ea, ef, ec))
		})
	}

	// ---- commission-form: the rate is the destination chain's -----------------------------------
	// wherever a withdrawal with a holder commission is queued, the TokenInfo whose Commission is charged is the
	// one looked up for the chain the withdrawal is queued on (rates are configured per chain and token)
	for _, f := range sortedFuncs(reach) {
		if p.L.IsGenerated(f.Pos()) {
			continue
		}
		ana.Calls(f, func(site ssa.CallInstruction, d ana.CalleeDesc) {
			if !isInsert(site) {
				return
			}
			ca := coinArgs(site)
			if len(ca) != 3 {
				return
			}
			// the holder-commission call that feeds the commission coin
			lc := p.Leaves(ca[2], ana.PVOpt{Opaque: func(d ana.CalleeDesc) bool { return d.Name == "GetCommissionForHolder" }})
			var gch *ssa.Call
			for lab, vals := range lc.Vals {
				if strings.HasSuffix(lab, "GetCommissionForHolder") {
					for _, v := range vals {
						if call, _ := ana.UnwrapCall(v); call != nil {
							gch = call
						}
					}
				}
			}
			if gch == nil {
				return
			}
			in := site.(ssa.Instruction)
			var insertChain ssa.Value
			for _, a := range site.Common().Args {
				if n := ana.NamedOf(a.Type()); n != nil && n.Obj().Name() == "ChainID" && insertChain == nil {
					insertChain = a
				}
			}
			// the TokenInfo the rate is read from and the lookup that produced it
			var lookupChain ssa.Value
			rate := gch.Call.Args[len(gch.Call.Args)-1]
			root, path := rootAndPath(rate)
			if path == "Commission" && root != nil {
				if lk, _ := ana.UnwrapCall(root); lk != nil {
					for _, a := range lk.Call.Args {
						if n := ana.NamedOf(a.Type()); n != nil && n.Obj().Name() == "ChainID" {
							lookupChain = a
						}
					}
				}
			}
			okChain := false
			detail := "the rate is not the Commission field of a token looked up by chain"
			if insertChain != nil && lookupChain != nil {
				a, b := strings.Join(p.Leaves(insertChain, ana.PVOpt{}).List(), ","), strings.Join(p.Leaves(lookupChain, ana.PVOpt{}).List(), ",")
				okChain = a == b && a != ""
				detail = sprintf("queued on chain <- %s, rate of the token looked up for chain <- %s", a, b)
			}
			r.Check(okChain, "C11.commission-form", "rate-chain:"+fname(f), c.pos(in), "the commission rate is that of the token on the chain the withdrawal is queued on",
				"the commission charged on a withdrawal is not the configured rate of the token on the destination chain: "+detail)
		})
	}

	// ---- commission-bound -----------------------------------------------------------------
	var gch *ssa.Function
	for _, f := range sortedFuncs(reach) {
		if f.Name() == "GetCommissionForHolder" && f.Parent() == nil {
			gch = f
		}
	}
	if gch == nil {
		r.Undecided("C11.commission-bound", "function", "-", "holder-commission function not found")
	} else {
		retRe := regexp.MustCompile(`^Dec\.Sub\(\$p3,Dec\.QuoInt64\(Dec\.MulInt64\(\$p3,(\d+)\),(\d+)\)\)$`)
		type tier struct {
			n, k  int64
			block *ssa.BasicBlock
		}
		var tiers []tier
		var tableRows []tier
		fromTable := false
		tableRe := regexp.MustCompile(`^Dec\.Sub\(\$p3,Dec\.QuoInt64\(Dec\.MulInt64\(\$p3,(.+)\),(\d+)\)\)$`)
		ana.Instrs(gch, func(in ssa.Instruction) {
			ret, ok := in.(*ssa.Return)
			if !ok || len(ret.Results) != 1 {
				return
			}
			ex := p.Expr(ret.Results[0], 0)
			if ex == "$p3" {
				r.Ok("C11.commission-bound", "return:"+c.pos(ret), c.pos(ret), "returns the configured commission")
				return
			}
			m := retRe.FindStringSubmatch(ex)
			if m == nil {
				// table-driven form: commission - commission*row.percent/100 for the first row of a constant table
				// whose threshold the holder value reaches
				if tm := tableRe.FindStringSubmatch(ex); tm != nil && tm[2] == "100" {
					if kv := discountFactor(ret.Results[0]); kv != nil {
						rows, why := c.tableTiers(gch, kv, c.decimalsConverter())
						if why == "" {
							for i, row := range rows {
								okRow := row.k > 0 && row.k < 100 && row.n > 0
								r.Check(okRow, "C11.commission-bound", sprintf("tier-row:%d", i), c.pos(ret), sprintf("tier >= %d HUB: commission - commission*%d/100", row.n, row.k),
									sprintf("discount table row %d is not a discount 0<k<100 under a positive holder-value threshold (k=%d, threshold=%d)", i, row.k, row.n))
								tableRows = append(tableRows, tier{row.n, row.k, nil})
							}
							fromTable = true
							return
						}
						r.Bad("C11.commission-bound", "return:"+c.pos(ret), c.pos(ret), "table-driven holder discount: "+why)
						return
					}
				}
				r.Bad("C11.commission-bound", "return:"+c.pos(ret), c.pos(ret), "a return of the holder-commission function is neither commission nor commission - commission*k/100: "+ex)
				return
			}
			k, _ := strconv.ParseInt(m[1], 10, 64)
			den, _ := strconv.ParseInt(m[2], 10, 64)
			okK := den == 100 && k > 0 && k < 100
			// the guarding threshold: maxValue.GTE(convertDecimals(0,18,NewInt(N)))
			var n int64 = -1
			var gb *ssa.BasicBlock
			atom := ana.AtomCallBool(func(call *ssa.Call, d ana.CalleeDesc) bool {
				if d.Recv != "Int" || d.Name != "GTE" || len(call.Call.Args) != 2 {
					return false
				}
				te := p.Expr(call.Call.Args[1], 0)
				mm := regexp.MustCompile(`^\w+\(0,18,NewInt\((\d+)\)\)$`).FindStringSubmatch(te)
				if mm == nil {
					return false
				}
				if cv := c.decimalsConverter(); cv != nil {
					if cc, ok := call.Call.Args[1].(*ssa.Call); !ok || cc.Call.StaticCallee() != cv {
						return false
					}
				}
				if ana.Guarded(ret, ana.AtomCallBool(func(c2 *ssa.Call, _ ana.CalleeDesc) bool { return c2 == call }, true)) {
					v, _ := strconv.ParseInt(mm[1], 10, 64)
					// the innermost (last) guard on the path is the tier's own test
					if gb == nil || gb.Dominates(call.Block()) {
						n, gb = v, call.Block()
					}
				}
				return false
			}, true)
			ana.Guarded(ret, atom)
			r.Check(okK && n > 0, "C11.commission-bound", "return:"+c.pos(ret), c.pos(ret), sprintf("tier >= %d HUB: commission - commission*%d/100", n, k),
				sprintf("discount tier is not commission - commission*k/100 with 0<k<100 under a holder-value threshold (k=%d, den=%d, threshold=%d)", k, den, n))
			if okK && n > 0 {
				tiers = append(tiers, tier{n, k, gb})
			}
		})
		// monotone, tested from the largest threshold down
		okMono := len(tiers) >= 2
		sort.Slice(tiers, func(i, j int) bool { return tiers[i].n > tiers[j].n })
		for i := 1; i < len(tiers); i++ {
			if !(tiers[i-1].n > tiers[i].n && tiers[i-1].k > tiers[i].k) {
				okMono = false
			}
			if !tiers[i-1].block.Dominates(tiers[i].block) {
				okMono = false
			}
		}
		if fromTable && len(tiers) == 0 {
			// the rows are visited in table order and the first one reached wins (decided with the rows)
			tiers = tableRows
			okMono = len(tiers) >= 2
			for i := 1; i < len(tiers); i++ {
				if !(tiers[i-1].n > tiers[i].n && tiers[i-1].k > tiers[i].k) {
					okMono = false
				}
			}
		} else if fromTable {
			okMono = false // an if-chain mixed with a table: not decided
		}
		var desc []string
		for _, t := range tiers {
			desc = append(desc, sprintf("%d:%d%%", t.n, t.k))
		}
		r.Check(okMono, "C11.commission-bound", "tiers", p.Pos(gch.Pos()), "tiers tested from the largest threshold down, thresholds and discounts strictly monotone: "+strings.Join(desc, " "),
			"the holder-discount tiers are not strictly monotone or not tested from the largest threshold down: "+strings.Join(desc, " "))
		// the holder value is the maximum over the given addresses (cannot be inflated by summing)
		lv := p.Leaves(gchMaxValue(gch), ana.PVOpt{})
		r.Check(lv.HasCall("OracleKeeper.GetHolderValue") && lv.HasOp("MaxInt") && !lv.HasOp("Int.Add"), "C11.commission-bound", "holder-value", p.Pos(gch.Pos()), "holder value = max over the addresses of OracleKeeper.GetHolderValue",
			"the holder value used for the discount is not the maximum of the addresses' holder values")
	}

	// ---- convert-truncates ------------------------------------------------------------------
	c.checkConverter()

	// ---- credit ------------------------------------------------------------------------------
	for _, f := range c.SemanticFuncs(reach) {
		for _, e := range c.Effects(f) {
			if e.Kind == "bank" && e.Op == "MintCoins" && c.mintRole(f, e) == "deposit" {
				l := c.EL(e, e.Bank.Coins, amountOpt)
				af := amountFields(l)
				ok, extra := subsetOf(af, "SendToHubEvent.Amount")
				noArith := !l.HasOp("Int.Add") && !l.HasOp("Int.Mul") && !l.HasOp("Int.Sub")
				r.Check(ok && len(af) == 1 && l.HasOp("Keeper.ConvertFromExternalValue") && noArith, "C11.credit", "mint:"+fname(f), c.pos(e.At), "credit = ConvertFromExternalValue(locked Amount)", "the deposit credit is not the converted locked amount: "+extra+" "+strings.Join(af, ","))
			}
		}
	}
	c.checkUnitsIn("C11.credit", reach, func(f *ssa.Function) bool { return f.Name() == "Handle" || isRoot(f, roots.Msg) })
	// what the hub credits and schedules is computed from the reported Amount and Fee: for Minter the
	// connector reports them (Amount = the value moved to the multisig, Fee = the commanded fee, neither
	// netted against the other, which the hub does itself)
	c.checkConnectorAmount("C11.credit")

	// ---- stored parts: each of the three stored amounts is the conversion of its own coin ---------------
	for _, f := range c.SemanticFuncs(reach) {
		effs := c.Effects(f)
		if !hasEff(effs, "bank", "BurnCoins", "") || !hasEff(effs, "store", "Set", "SendToExternalKey") {
			continue
		}
		for _, a := range allocsOfType(f, "SendToExternal") {
			for _, fld := range []string{"Token", "Fee", "ValCommission"} {
				for _, v := range ana.FieldStores(a)[fld] {
					l := p.Leaves(v, amountOpt)
					nPar := 0
					for lab := range l.Leaves {
						if strings.HasPrefix(lab, "param:"+fname(f)+"#") && !strings.HasSuffix(lab, ":ctx") && !strings.HasSuffix(lab, ":chainId") {
							nPar++
						}
					}
					okP := l.HasOp("Keeper.ConvertToExternalValue") && !l.HasOp("Int.Sub") && !l.HasOp("Int.Add") && !l.HasOp("Coin.Sub") && !l.HasOp("Coin.Add") && !l.Ops["binop:-"] && !l.Ops["binop:+"]
					r.Check(okP, "C11.convert-truncates", "stored:"+fld+":"+fname(f), c.pos(a), "the stored "+fld+" amount is the truncating conversion of its own coin", "the "+fld+" amount stored for a withdrawal is not the conversion of its own coin alone ("+strings.Join(l.OpList(), ",")+"): fractions of the other parts are moved into it, so the scheduled amount is not the truncated amount")
				}
			}
		}
	}
	// a failed event changes no balance: the handler runs on the cached context and is committed only on success
	for _, f := range sortedFuncs(reach) {
		if c.isProcessFn(f, "mhub2") {
			c.checkEventAtomic("C11.fail-clean", f)
		}
	}

	// ---- fail-clean -------------------------------------------------------------------------
	for _, f := range c.SemanticFuncs(reach) {
		effs := c.Effects(f)
		if !hasEff(effs, "bank", "BurnCoins", "") || !hasEff(effs, "store", "Set", "SendToExternalKey") {
			continue
		}
		var firstBank ssa.Instruction
		var burn ssa.Instruction
		for _, e := range effs {
			if e.Kind == "bank" && e.In == f {
				if firstBank == nil || e.At.Pos() < firstBank.Pos() {
					firstBank = e.At
				}
				if e.Op == "BurnCoins" {
					burn = e.At
				}
			}
		}
		// error returns reachable after the first bank op other than that op's own failure
		all, succ := ana.Returns(f)
		sset := map[*ssa.Return]bool{}
		for _, s := range succ {
			sset[s] = true
		}
		bad := ""
		for _, ret := range all {
			if sset[ret] {
				continue
			}
			if burn != nil && ana.ReachesWithout(burn, ret, nil) {
				bad = "error return at " + c.pos(ret) + " after the burn"
			}
		}
		r.Check(bad == "", "C11.fail-clean", "after-burn:"+fname(f), p.Pos(f.Pos()), "no error exit after the burn", "a failed request can leave balances changed: "+bad)
		// token lookup precedes the first bank op
		okLookup := false
		ana.Calls(f, func(site ssa.CallInstruction, d ana.CalleeDesc) {
			if strings.HasSuffix(d.Name, "TokenInfoLookup") {
				in := site.(ssa.Instruction)
				if firstBank != nil && (in.Block() == firstBank.Block() && ana.InstrIndex(in) < ana.InstrIndex(firstBank) || in.Block().Dominates(firstBank.Block())) {
					okLookup = true
				}
			}
		})
		r.Check(okLookup, "C11.fail-clean", "lookup-first:"+fname(f), p.Pos(f.Pos()), "the token lookup (which can fail) precedes the first bank operation", "the pool insert moves coins before the lookups that can fail")
	}
}

func gchMaxValue(f *ssa.Function) ssa.Value {
	// the receiver of the first GTE test
	var out ssa.Value
	ana.Instrs(f, func(in ssa.Instruction) {
		if call, ok := in.(*ssa.Call); ok && out == nil {
			if d, _ := ana.Describe(&call.Call); d.Recv == "Int" && d.Name == "GTE" && len(call.Call.Args) == 2 {
				out = call.Call.Args[0]
			}
		}
	})
	return out
}

// checkConverter: convertDecimals multiplies then divides; wrappers pass the right directions.
func (c *Ctx) checkConverter() {
	p, r := c.P, c.R
	var from, to *ssa.Function
	for _, f := range p.Funcs {
		if f.Parent() != nil || !inPkg(f, "mhub2/keeper") {
			continue
		}
		nm := f.Name()
		if a, ok := ana.FuncAlias[f]; ok {
			nm = a
		}
		switch nm {
		case "ConvertFromExternalValue":
			from = f
		case "ConvertToExternalValue":
			to = f
		}
	}
	if from == nil || to == nil {
		r.Undecided("C11.convert-truncates", "wrappers", "-", "ConvertFromExternalValue / ConvertToExternalValue not found")
		return
	}
	var conv *ssa.Function
	dir := func(f *ssa.Function, wantExtFirst bool) {
		ok := false
		detail := ""
		ana.Instrs(f, func(in ssa.Instruction) {
			call, isC := in.(*ssa.Call)
			if !isC {
				return
			}
			callee := call.Call.StaticCallee()
			if callee == nil || !p.IsModule(callee) || len(call.Call.Args) != 3 {
				return
			}
			if call.Call.Args[0].Type().String() != "uint64" {
				return
			}
			conv = callee
			a0, a1 := p.Expr(call.Call.Args[0], 0), p.Expr(call.Call.Args[1], 0)
			hub := "18"
			// the token's external decimals, possibly handed through a lookup helper (no arithmetic on the way)
			isExt := func(v ssa.Value) bool {
				l := p.Leaves(v, ana.PVOpt{})
				fs := l.Fields()
				if len(fs) != 1 || fs[0] != "TokenInfo.ExternalDecimals" {
					return false
				}
				for op := range l.Ops {
					if strings.HasPrefix(op, "binop:") || strings.HasPrefix(op, "Int.") || strings.HasPrefix(op, "unop:") {
						return false
					}
				}
				for lab := range l.Leaves {
					if strings.HasPrefix(lab, "const:") && lab != "const:0" && lab != "const:nil" && lab != "const:false" && lab != "const:true" {
						return false
					}
				}
				return true
			}
			if wantExtFirst {
				ok = isExt(call.Call.Args[0]) && a1 == hub
			} else {
				ok = a0 == hub && isExt(call.Call.Args[1])
			}
			detail = "(" + a0 + ", " + a1 + ")"
			// the amount passed through is the function's amount parameter
			if par, isP := call.Call.Args[2].(*ssa.Parameter); !isP || par != f.Params[len(f.Params)-1] {
				ok = false
			}
		})
		want := "(external decimals, 18)"
		if !wantExtFirst {
			want = "(18, external decimals)"
		}
		role := f.Name()
		if a, isA := ana.FuncAlias[f]; isA {
			role = a
		}
		r.Check(ok, "C11.convert-truncates", "direction:"+role, p.Pos(f.Pos()), f.Name()+" converts "+want, f.Name()+" passes the decimals in the wrong direction "+detail+", expected "+want)
	}
	dir(from, true)
	dir(to, false)
	if conv == nil {
		r.Undecided("C11.convert-truncates", "converter", "-", "decimals converter not found")
		return
	}
	// big.Int mutators applied to the returned object, in order
	var seq []string
	var obj ssa.Value
	ana.Instrs(conv, func(in ssa.Instruction) {
		if ret, ok := in.(*ssa.Return); ok && len(ret.Results) == 1 {
			if call, ok := ret.Results[0].(*ssa.Call); ok && len(call.Call.Args) == 1 {
				obj = call.Call.Args[0]
			}
		}
	})
	okShape := false
	if obj != nil {
		ana.Instrs(conv, func(in ssa.Instruction) {
			call, ok := in.(*ssa.Call)
			if !ok {
				return
			}
			d, _ := ana.Describe(&call.Call)
			if d.Pkg == "math/big" && d.Recv == "Int" && len(call.Call.Args) >= 1 && call.Call.Args[0] == obj {
				arg := ""
				if len(call.Call.Args) == 3 {
					arg = p.Expr(call.Call.Args[2], 0)
				}
				seq = append(seq, d.Name+":"+arg)
			}
		})
		want := []string{
			"Mul:Int.Exp(NewInt(0),NewInt(10),NewInt($p1),nil)",
			"Div:Int.Exp(NewInt(0),NewInt(10),NewInt($p0),nil)",
		}
		alt := []string{
			"Mul:Int.Exp(NewInt(0),NewInt(10),NewInt($p1),nil)",
			"Quo:Int.Exp(NewInt(0),NewInt(10),NewInt($p0),nil)",
		}
		okShape = strings.Join(seq, ";") == strings.Join(want, ";") || strings.Join(seq, ";") == strings.Join(alt, ";")
		// the object is the amount's big integer
		okShape = okShape && p.Expr(obj, 0) == "Int.BigInt($p2)"
	}
	convRole := conv.Name()
	if a, isA := ana.FuncAlias[conv]; isA {
		convRole = a
	}
	r.Check(okShape, "C11.convert-truncates", "shape:"+convRole, p.Pos(conv.Pos()), "result = amount * 10^to / 10^from on one big integer (multiply, then truncating divide)",
		"the decimals converter is not amount*10^to/10^from (multiply first, then truncating division, nothing added): "+strings.Join(seq, "; "))
}

// discountFactor returns k of a value commission.Sub(commission.MulInt64(k).QuoInt64(d)).
func discountFactor(v ssa.Value) ssa.Value {
	names := []string{"Sub", "QuoInt64", "MulInt64"}
	argIdx := []int{1, 0, 1}
	for i, nm := range names {
		call, ok := v.(*ssa.Call)
		if !ok {
			return nil
		}
		d, _ := ana.Describe(&call.Call)
		if d.Name != nm || len(call.Call.Args) != 2 {
			return nil
		}
		v = call.Call.Args[argIdx[i]]
	}
	return v
}

// decimalsConverter is the function the two value-conversion wrappers delegate to (three arguments, the first
// two of type uint64).
func (c *Ctx) decimalsConverter() *ssa.Function {
	var conv *ssa.Function
	for _, f := range c.P.Funcs {
		if f.Parent() != nil || !inPkg(f, "mhub2/keeper") || (f.Name() != "ConvertFromExternalValue" && ana.FuncAlias[f] != "ConvertFromExternalValue") {
			continue
		}
		ana.Instrs(f, func(in ssa.Instruction) {
			call, ok := in.(*ssa.Call)
			if !ok {
				return
			}
			callee := call.Call.StaticCallee()
			if callee == nil || !c.P.IsModule(callee) || len(call.Call.Args) != 3 || call.Call.Args[0].Type().String() != "uint64" {
				return
			}
			conv = callee
		})
	}
	return conv
}

// InstallAliases recognises the decimals converter (three parameters uint64, uint64, Int; powers of ten by
// big.Int.Exp) and its two wrappers (which look the token up and pass its ExternalDecimals and the hub's 18 in
// one or the other order) by their structure and registers the names the rules use for them.
func InstallAliases(p *ana.Prog) {
	var conv *ssa.Function
	for _, f := range p.Funcs {
		if f.Parent() != nil || !inPkg(f, "mhub2/keeper") || f.Signature.Recv() != nil || len(f.Params) != 3 {
			continue
		}
		if f.Params[0].Type().String() != "uint64" || f.Params[1].Type().String() != "uint64" {
			continue
		}
		exp := false
		ana.Calls(f, func(site ssa.CallInstruction, d ana.CalleeDesc) {
			if d.Pkg == "math/big" && d.Name == "Exp" {
				exp = true
			}
		})
		if exp {
			conv = f
		}
	}
	if conv == nil {
		return
	}
	ana.FuncAlias[conv] = "convertDecimals"
	for _, e := range p.In[conv] {
		w := e.Caller
		if w.Parent() != nil || w.Signature.Recv() == nil || !inPkg(w, "mhub2/keeper") || len(e.Site.Common().Args) != 3 {
			continue
		}
		hasChain := false
		for _, par := range w.Params {
			if n := ana.NamedOf(par.Type()); n != nil && n.Obj().Name() == "ChainID" {
				hasChain = true
			}
		}
		if !hasChain {
			continue
		}
		args := e.Site.Common().Args
		k0, ok0 := args[0].(*ssa.Const)
		k1, ok1 := args[1].(*ssa.Const)
		switch {
		case ok1 && !ok0 && k1.Value != nil && k1.Value.ExactString() == "18":
			ana.FuncAlias[w] = "ConvertFromExternalValue"
		case ok0 && !ok1 && k0.Value != nil && k0.Value.ExactString() == "18":
			ana.FuncAlias[w] = "ConvertToExternalValue"
		}
	}
}
