package rules

// MutantOverlay builds a go/packages overlay for one mutation (sensitivity suite).
func MutantOverlay(spec string) (map[string][]byte, error) { return mutantOverlay(spec) }

// RunSensitivity runs the mutation operators registered for the property.
func RunSensitivity(c *Ctx) { runSensitivity(c) }
