package rules

import "golang.org/x/tools/go/ssa"

import (
	"go/types"
)

func structOf(t types.Type) *types.Struct {
	if t == nil {
		return nil
	}
	if p, ok := t.Underlying().(*types.Pointer); ok {
		t = p.Elem()
	}
	s, _ := t.Underlying().(*types.Struct)
	return s
}

func constExact(o types.Object) string {
	if k, ok := o.(*types.Const); ok {
		return k.Val().ExactString()
	}
	return "?"
}

// flatPhi returns the non-phi values that can flow into a phi, looking through the merge phis that
// "continue" and if/else joins put between a loop-carried variable and its header phi.  The phi itself and
// the intermediate phis are left out.
func flatPhi(ph *ssa.Phi) []ssa.Value {
	seen := map[*ssa.Phi]bool{}
	var out []ssa.Value
	var walk func(p *ssa.Phi)
	walk = func(p *ssa.Phi) {
		if seen[p] {
			return
		}
		seen[p] = true
		for _, e := range p.Edges {
			if q, ok := e.(*ssa.Phi); ok {
				walk(q)
				continue
			}
			dup := false
			for _, o := range out {
				if o == e {
					dup = true
				}
			}
			if !dup {
				out = append(out, e)
			}
		}
	}
	walk(ph)
	return out
}
