package rules

import (
	"go/types"
)

func structOf(t types.Type) *types.Struct {
	if t == nil {
		return nil
	}
	if p, ok := t.Underlying().(*types.Pointer); ok {
		t = p.Elem()
	}
	s, _ := t.Underlying().(*types.Struct)
	return s
}

func constExact(o types.Object) string {
	if k, ok := o.(*types.Const); ok {
		return k.Val().ExactString()
	}
	return "?"
}
