// Package norm rewrites the module under analysis into a behaviourally equivalent one in which private
// helper functions that are called from a single function are inlined at their call sites.  The
// rewriting is purely source-to-source (an overlay for go/packages; nothing is written to disk) and is
// deliberately conservative: a call site or helper it cannot translate exactly is left alone.
//
// The translation of   x, err := k.h(a, b)   is
//
//	var _inl1r0 T0
//	var _inl1r1 error
//	{
//		var k, p, q = (Keeper)(k), (A)(a), (B)(b)   // receiver and arguments, evaluated left to right
//		_, _, _ = k, p, q
//	_inl1:
//		switch {
//		default:
//			... body of h, with every  return e0, e1  replaced by  { _inl1r0, _inl1r1 = e0, e1; break _inl1 }
//		}
//	}
//	x, err := _inl1r0, _inl1r1
//
// which evaluates the same expressions in the same order with the same values.
package norm

import (
	"bytes"
	"fmt"
	"go/ast"
	"go/token"
	"go/types"
	"os"
	"sort"
	"strings"

	"golang.org/x/tools/go/packages"

	"mhubsa/load"
)

// Result of one normalisation round.
type Result struct {
	Overlay map[string][]byte
	Inlined []string
	Skipped map[string]string
	Dead    map[string]bool // helpers all of whose call sites have been inlined (their declarations remain, unused)
}

type helper struct {
	partial bool // only some of its call sites are inlined: it stays alive
	defers  bool // the body registers deferred calls: inlined in tail position only
	obj     *types.Func
	decl    *ast.FuncDecl
	pkg     *packages.Package
	file    *ast.File
	sites   []*site
}

type site struct {
	call   *ast.CallExpr
	file   *ast.File
	stack  []ast.Node // path from the file to the call (inclusive)
	caller *ast.FuncDecl
}

type edit struct {
	helper     string
	file       string
	start, end int
	text       string
	imports    map[string]string // name -> path to add
	what       string
}

// Round inlines, in every root package, the unexported functions and methods that satisfy keep and all of
// whose uses are calls inside one other top-level function.  prev is the overlay of earlier rounds (the
// loaded program must have been loaded with it).
func Round(l *load.Loaded, keep func(helper, caller *types.Func, shared, thin bool) bool, prev map[string][]byte, dead map[string]bool, counter *int) *Result {
	res := &Result{Overlay: map[string][]byte{}, Skipped: map[string]string{}, Dead: map[string]bool{}}
	for k := range dead {
		res.Dead[k] = true
	}
	for k, v := range prev {
		res.Overlay[k] = v
	}
	src := func(name string) []byte {
		if b, ok := res.Overlay[name]; ok {
			return b
		}
		b, _ := os.ReadFile(name)
		return b
	}
	var edits []edit
	nsites := map[string]int{}
	ndone := map[string]int{}
	for _, pkg := range l.Roots {
		hs := findHelpers(l, pkg, keep, res.Skipped, dead)
		for _, h := range hs {
			nsites[h.obj.FullName()] = len(h.sites)
			if h.partial {
				nsites[h.obj.FullName()] = -1
			}
			for _, s := range h.sites {
				*counter++
				e, why := translate(l, pkg, h, s, *counter, src)
				if e == nil {
					res.Skipped[h.obj.FullName()] = why
					continue
				}
				e.what = h.obj.FullName() + " -> " + s.caller.Name.Name
				e.helper = h.obj.FullName()
				edits = append(edits, *e)
			}
		}
	}
	// non-overlapping edits per file, applied back to front
	byFile := map[string][]edit{}
	for _, e := range edits {
		byFile[e.file] = append(byFile[e.file], e)
	}
	for name, es := range byFile {
		sort.Slice(es, func(i, j int) bool { return es[i].start < es[j].start })
		var acc []edit
		lastEnd := -1
		for _, e := range es {
			if e.start < lastEnd {
				continue // nested in / overlapping an accepted edit: a later round takes it
			}
			acc = append(acc, e)
			lastEnd = e.end
		}
		b := src(name)
		imports := map[string]string{}
		for i := len(acc) - 1; i >= 0; i-- {
			e := acc[i]
			b = append(append(append([]byte{}, b[:e.start]...), []byte(e.text)...), b[e.end:]...)
			for n, p := range e.imports {
				imports[n] = p
			}
			res.Inlined = append(res.Inlined, e.what)
			ndone[e.helper]++
		}
		if len(imports) > 0 {
			b = addImports(b, imports)
		}
		res.Overlay[name] = b
	}
	for hname, n := range nsites {
		if ndone[hname] == n {
			res.Dead[hname] = true
		}
	}
	sort.Strings(res.Inlined)
	return res
}

func addImports(b []byte, imports map[string]string) []byte {
	// after the package clause
	idx := bytes.Index(b, []byte("\npackage "))
	if bytes.HasPrefix(b, []byte("package ")) {
		idx = 0
	} else if idx >= 0 {
		idx++
	} else {
		return b
	}
	eol := bytes.IndexByte(b[idx:], '\n')
	if eol < 0 {
		return b
	}
	pos := idx + eol + 1
	var names []string
	for n := range imports {
		names = append(names, n)
	}
	sort.Strings(names)
	var sb strings.Builder
	for _, n := range names {
		fmt.Fprintf(&sb, "import %s %q\n", n, imports[n])
	}
	return append(append(append([]byte{}, b[:pos]...), []byte(sb.String())...), b[pos:]...)
}

func isGenerated(name string) bool {
	return strings.HasSuffix(name, ".pb.go") || strings.HasSuffix(name, ".pb.gw.go") || strings.HasSuffix(name, "_test.go") || load.IsTestSupport(name)
}

func findHelpers(l *load.Loaded, pkg *packages.Package, keep func(helper, caller *types.Func, shared, thin bool) bool, skipped map[string]string, dead map[string]bool) []*helper {
	info := pkg.TypesInfo
	cands := map[*types.Func]*helper{}
	for _, f := range pkg.Syntax {
		name := l.Fset.Position(f.Pos()).Filename
		if isGenerated(name) {
			continue
		}
		for _, d := range f.Decls {
			fd, ok := d.(*ast.FuncDecl)
			if !ok || fd.Body == nil || fd.Name.IsExported() || fd.Name.Name == "init" || fd.Name.Name == "main" || fd.Name.Name == "_" {
				continue
			}
			obj, _ := info.Defs[fd.Name].(*types.Func)
			if obj == nil {
				continue
			}
			sig := obj.Type().(*types.Signature)
			if sig.TypeParams() != nil || sig.RecvTypeParams() != nil {
				continue
			}
			why := bodyUnsupported(fd, info)
			if why != "" && why != "defer" {
				skipped[obj.FullName()] = why
				continue
			}
			if dead[obj.FullName()] {
				continue
			}
			cands[obj] = &helper{obj: obj, decl: fd, pkg: pkg, file: f, defers: why == "defer"}
		}
	}
	if len(cands) == 0 {
		return nil
	}
	bad := map[*types.Func]string{}
	for _, f := range pkg.Syntax {
		name := l.Fset.Position(f.Pos()).Filename
		var stack []ast.Node
		var curFn *ast.FuncDecl
		ast.Inspect(f, func(n ast.Node) bool {
			if n == nil {
				stack = stack[:len(stack)-1]
				return true
			}
			stack = append(stack, n)
			if fd, ok := n.(*ast.FuncDecl); ok {
				curFn = fd
				if o, _ := info.Defs[fd.Name].(*types.Func); o != nil && dead[o.FullName()] {
					// the body of a helper that has been inlined everywhere is dead code
					stack = stack[:len(stack)-1]
					return false
				}
			}
			id, ok := n.(*ast.Ident)
			if !ok {
				return true
			}
			obj, _ := info.Uses[id].(*types.Func)
			h := cands[obj]
			if h == nil {
				return true
			}
			if isGenerated(name) {
				bad[obj] = "used in generated / test-support code"
				return true
			}
			// the identifier must be the function operand of a call
			var call *ast.CallExpr
			k := len(stack) - 2
			if k >= 0 {
				if sel, ok := stack[k].(*ast.SelectorExpr); ok && sel.Sel == id {
					k--
				}
			}
			if k >= 0 {
				if ce, ok := stack[k].(*ast.CallExpr); ok {
					fun := ast.Unparen(ce.Fun)
					if fun == ast.Expr(id) {
						call = ce
					} else if sel, ok := fun.(*ast.SelectorExpr); ok && sel.Sel == id {
						call = ce
					}
				}
			}
			if call == nil {
				bad[obj] = "used as a value"
				return true
			}
			if curFn == nil || curFn == h.decl {
				bad[obj] = "recursive or called outside a function"
				return true
			}
			st := append([]ast.Node{}, stack[:k+1]...)
			h.sites = append(h.sites, &site{call: call, file: f, stack: st, caller: curFn})
			return true
		})
	}
	var out []*helper
	for obj, h := range cands {
		if why, isBad := bad[obj]; isBad {
			skipped[obj.FullName()] = why
			continue
		}
		if len(h.sites) == 0 {
			continue
		}
		one := true
		for _, s := range h.sites {
			if s.caller != h.sites[0].caller {
				one = false
			}
		}
		// a helper that is one return expression may have several callers (it is inlined where asked for)
		small := len(h.decl.Body.List) == 1
		if small {
			_, small = h.decl.Body.List[0].(*ast.ReturnStmt)
		}
		_ = small
		if !one && len(h.sites) > 8 {
			continue
		}
		if keep != nil {
			var kept []*site
			for _, s := range h.sites {
				cobj, _ := info.Defs[s.caller.Name].(*types.Func)
				if cobj != nil && keep(h.obj, cobj, !one && !small, thinBody(h.decl)) {
					kept = append(kept, s)
				}
			}
			if len(kept) == 0 || (one && len(kept) != len(h.sites)) {
				continue
			}
			if !one {
				h.partial = len(kept) != len(h.sites)
			}
			h.sites = kept
		}
		out = append(out, h)
	}
	// a helper whose call site lies in another helper that is inlined in this round waits for the next round
	// (the copy of that helper's body brings the call site along)
	inl := map[*ast.FuncDecl]bool{}
	for _, h := range out {
		if !h.partial {
			inl[h.decl] = true
		}
	}
	var layered []*helper
	for _, h := range out {
		wait := false
		for _, s := range h.sites {
			if inl[s.caller] {
				wait = true
			}
		}
		if !wait {
			layered = append(layered, h)
		}
	}
	out = layered
	sort.Slice(out, func(i, j int) bool { return out[i].decl.Pos() < out[j].decl.Pos() })
	return out
}

// bodyUnsupported names the constructs of a helper body that the translation does not handle.
func bodyUnsupported(fd *ast.FuncDecl, info *types.Info) string {
	why := ""
	hasDefer := false
	ast.Inspect(fd.Body, func(n ast.Node) bool {
		switch x := n.(type) {
		case *ast.FuncLit:
			// returns inside belong to the literal; a recover() inside a deferred literal is covered by DeferStmt
			return true
		case *ast.DeferStmt:
			hasDefer = true
		case *ast.GoStmt:
			why = "go statement"
		case *ast.LabeledStmt:
			why = "label"
		case *ast.BranchStmt:
			if x.Tok == token.GOTO {
				why = "goto"
			}
		case *ast.CallExpr:
			if id, ok := x.Fun.(*ast.Ident); ok && id.Name == "recover" {
				if _, isB := info.Uses[id].(*types.Builtin); isB {
					why = "recover"
				}
			}
		}
		return why == ""
	})
	if why == "" && hasDefer {
		// deferred calls run when the enclosing function returns: only a call in tail position may be inlined
		why = "defer"
	}
	return why
}

// translate builds the edit that replaces the statement containing the call.
func translate(l *load.Loaded, pkg *packages.Package, h *helper, s *site, n int, src func(string) []byte) (*edit, string) {
	fset := l.Fset
	info := pkg.TypesInfo
	callerFile := fset.Position(s.file.Pos()).Filename
	helperFile := fset.Position(h.file.Pos()).Filename
	csrc := src(callerFile)
	hsrc := src(helperFile)
	off := func(p token.Pos) int { return fset.Position(p).Offset }
	text := func(b []byte, from, to token.Pos) string { return string(b[off(from):off(to)]) }

	sig := h.obj.Type().(*types.Signature)
	nres := sig.Results().Len()

	// ---- the statement and the context of the call ---------------------------------------------
	var stmt ast.Stmt
	si := -1
	for i := len(s.stack) - 1; i >= 0; i-- {
		if st, ok := s.stack[i].(ast.Stmt); ok {
			stmt, si = st, i
			break
		}
		if _, ok := s.stack[i].(*ast.FuncLit); ok {
			break
		}
	}
	if stmt == nil || si == 0 {
		return nil, "call not inside a statement"
	}
	// an init statement of an if: the statement to replace is the if itself
	wrap := false
	if parentIf, ok := s.stack[si-1].(*ast.IfStmt); ok && parentIf.Init == stmt {
		stmt = parentIf
		si--
		wrap = true
	} else if ifs, ok := stmt.(*ast.IfStmt); ok {
		// call in the condition (no init statement may precede it)
		if ifs.Init != nil || !within(s.call, ifs.Cond) {
			return nil, "call in an if statement outside its init / condition"
		}
		wrap = false
	}
	switch p := s.stack[si-1].(type) {
	case *ast.BlockStmt, *ast.CaseClause, *ast.CommClause:
		_ = p
	default:
		return nil, "statement is not an element of a statement list"
	}
	switch st := stmt.(type) {
	case *ast.ExprStmt, *ast.AssignStmt, *ast.ReturnStmt, *ast.IfStmt, *ast.DeclStmt:
		_ = st
	default:
		return nil, fmt.Sprintf("unsupported statement kind %T", stmt)
	}
	// where, inside the statement, does the call sit?
	direct := false // the call is the whole right-hand side / result list / expression statement
	switch st := stmt.(type) {
	case *ast.ExprStmt:
		direct = ast.Unparen(st.X) == ast.Expr(s.call)
	case *ast.AssignStmt:
		direct = len(st.Rhs) == 1 && ast.Unparen(st.Rhs[0]) == ast.Expr(s.call)
	case *ast.ReturnStmt:
		direct = len(st.Results) == 1 && ast.Unparen(st.Results[0]) == ast.Expr(s.call)
	case *ast.IfStmt:
		if as, ok := st.Init.(*ast.AssignStmt); ok && wrap {
			direct = len(as.Rhs) == 1 && ast.Unparen(as.Rhs[0]) == ast.Expr(s.call)
		}
	}
	// ---- continuation-style contexts: the statement that consumes the result is moved to the helper's returns,
	// so that what holds on the path to a return still holds where the result is tested
	mode := "generic"
	var contIf *ast.IfStmt // the if statement whose branches continue after a return
	var contVar string     // the error variable of the idiom
	var lhsNames []string  // errAssignIf: the variables the results are assigned to
	type newVar struct {
		name string
		res  int
	}
	var newVars []newVar  // errAssignIf: variables the statement declares (name, index of the result that types it)
	contNeg := false      // bool idiom: the condition is !h(...)
	stmtEnd := stmt.End() // end of the replaced source range
	list := stmtList(s.stack[si-1])
	switch st := stmt.(type) {
	case *ast.ExprStmt:
		// a void call that is the last statement of a function without results: the function returns when the
		// helper does, so a return of the helper is a return of the caller
		if direct && nres == 0 && len(list) > 0 && list[len(list)-1] == stmt && si >= 2 {
			if blk, ok := s.stack[si-1].(*ast.BlockStmt); ok {
				var ft *ast.FuncType
				switch fn := s.stack[si-2].(type) {
				case *ast.FuncDecl:
					if fn.Body == blk {
						ft = fn.Type
					}
				case *ast.FuncLit:
					if fn.Body == blk {
						ft = fn.Type
					}
				}
				if ft != nil && (ft.Results == nil || len(ft.Results.List) == 0) {
					mode = "tail"
				}
			}
		}
	case *ast.ReturnStmt:
		if direct {
			mode = "tail"
		}
	case *ast.IfStmt:
		if wrap && direct && nres == 1 && st.Else == nil {
			as := st.Init.(*ast.AssignStmt)
			if len(as.Lhs) == 1 {
				if id, ok := as.Lhs[0].(*ast.Ident); ok && id.Name != "_" && isNotNil(st.Cond, id.Name) && isErrorType(sig.Results().At(0).Type()) {
					if as.Tok == token.DEFINE {
						mode, contIf, contVar = "errIf", st, id.Name
					} else {
						// if err = h(...); err != nil {B}: the assignment is to a variable of the enclosing scope
						mode, contIf, contVar = "errAssignIf", st, id.Name
						lhsNames = []string{id.Name}
					}
				}
			}
		}
		if !wrap && st.Init == nil && nres == 1 && isBoolType(sig.Results().At(0).Type()) {
			c := ast.Unparen(st.Cond)
			if u, ok := c.(*ast.UnaryExpr); ok && u.Op == token.NOT && ast.Unparen(u.X) == ast.Expr(s.call) {
				mode, contIf, contNeg = "boolIf", st, true
			} else if c == ast.Expr(s.call) {
				mode, contIf = "boolIf", st
			}
		}
	case *ast.AssignStmt:
		// err = h(...)  /  err := h(...)   followed by   if err != nil { ... }
		// v, err := h(...)  /  err = h(...)   followed by   if err != nil { ... }   (the last result is the error)
		if direct && nres >= 1 && len(st.Lhs) == nres && isErrorType(sig.Results().At(nres-1).Type()) {
			allIdents := true
			var names []string
			for _, l := range st.Lhs {
				id, ok := l.(*ast.Ident)
				if !ok {
					allIdents = false
					break
				}
				names = append(names, id.Name)
			}
			if allIdents && names[nres-1] != "_" {
				for i, x := range list {
					if x == ast.Stmt(st) && i+1 < len(list) {
						if nx, ok := list[i+1].(*ast.IfStmt); ok && nx.Init == nil && nx.Else == nil && isNotNil(nx.Cond, names[nres-1]) {
							mode, contIf, contVar = "errAssignIf", nx, names[nres-1]
							lhsNames = names
							stmtEnd = nx.End()
							if st.Tok == token.DEFINE {
								for k, l := range st.Lhs {
									id := l.(*ast.Ident)
									if id.Name != "_" && info.Defs[id] != nil {
										newVars = append(newVars, newVar{id.Name, k})
									}
								}
							}
						}
					}
				}
			}
		}
	}
	if mode != "generic" {
		for i := 0; i < nres; i++ {
			if nm := sig.Results().At(i).Name(); nm != "" {
				// named results: a bare return of the helper stands for their current values
				mode, contIf, stmtEnd = "generic", nil, stmt.End()
				newVars = nil
			}
		}
	}
	if contIf != nil {
		// the branches are copied to every return: they must not declare labels, and (for the copies to mean the
		// same) must not be referred to by a goto / labelled branch from outside
		badBranch := false
		ast.Inspect(contIf, func(nd ast.Node) bool {
			if _, ok := nd.(*ast.LabeledStmt); ok {
				badBranch = true
			}
			return !badBranch
		})
		if badBranch {
			mode, contIf, stmtEnd = "generic", nil, stmt.End()
		}
	}
	if h.defers && mode != "tail" {
		return nil, "helper with defer called outside tail position"
	}
	if !direct && mode == "generic" {
		if nres != 1 {
			return nil, "call with other than one result nested in an expression"
		}
		// hoisting the call in front of the statement must not reorder it with other effects: no other
		// non-builtin, non-conversion call may occur in the statement
		var scan ast.Node = stmt
		if ifs, ok := stmt.(*ast.IfStmt); ok {
			if wrap {
				scan = ifs.Init
			} else {
				scan = ifs.Cond
			}
		}
		if ds, ok := stmt.(*ast.DeclStmt); ok {
			scan = ds
		}
		other := false
		ast.Inspect(scan, func(n ast.Node) bool {
			ce, ok := n.(*ast.CallExpr)
			if !ok || ce == s.call {
				return true
			}
			if within(ce, s.call) {
				return true
			}
			if tv, ok := info.Types[ce.Fun]; ok && (tv.IsType() || tv.IsBuiltin()) {
				return true
			}
			other = true
			return false
		})
		if other {
			return nil, "call nested in an expression next to other calls"
		}
		// short-circuit operators, function literals: the call might not be evaluated (or later)
		for i := len(s.stack) - 1; i > si; i-- {
			switch x := s.stack[i].(type) {
			case *ast.BinaryExpr:
				if x.Op == token.LAND || x.Op == token.LOR {
					return nil, "call under a short-circuit operator"
				}
			case *ast.FuncLit:
				return nil, "call inside a function literal expression"
			}
		}
	}

	// ---- names --------------------------------------------------------------------------------------
	imports := map[string]string{}
	fileImports := map[string]string{} // path -> name in the caller's file
	usedNames := map[string]bool{}
	for _, is := range s.file.Imports {
		path := strings.Trim(is.Path.Value, `"`)
		name := ""
		if is.Name != nil {
			name = is.Name.Name
		} else if pn, ok := info.Implicits[is].(*types.PkgName); ok {
			name = pn.Name()
		}
		if name != "" && name != "_" && name != "." {
			fileImports[path] = name
			usedNames[name] = true
		}
	}
	qual := func(p *types.Package) string {
		if p == pkg.Types {
			return ""
		}
		if n, ok := fileImports[p.Path()]; ok {
			return n
		}
		alias := "inl_" + strings.NewReplacer("-", "_", ".", "_").Replace(p.Name())
		imports[alias] = p.Path()
		fileImports[p.Path()] = alias
		return alias
	}
	typeStr := func(t types.Type) string { return types.TypeString(t, qual) }

	// free identifiers of the helper body must mean the same thing at the call site
	callScope := pkg.Types.Scope().Innermost(s.call.Pos())
	if callScope == nil {
		return nil, "no scope at the call site"
	}
	hinfo := h.pkg.TypesInfo
	problem := ""
	ast.Inspect(h.decl.Body, func(nd ast.Node) bool {
		id, ok := nd.(*ast.Ident)
		if !ok || problem != "" {
			return true
		}
		obj := hinfo.Uses[id]
		if obj == nil {
			return true
		}
		switch o := obj.(type) {
		case *types.PkgName:
			path := o.Imported().Path()
			if nm, ok := fileImports[path]; ok {
				if nm != id.Name {
					problem = "package " + path + " is imported under another name in the caller's file"
				}
			} else if usedNames[id.Name] {
				problem = "import name " + id.Name + " means another package in the caller's file"
			} else {
				imports[id.Name] = path
				fileImports[path] = id.Name
				usedNames[id.Name] = true
			}
			// a local of the caller must not shadow the package name
			if _, found := callScope.LookupParent(id.Name, s.call.Pos()); found != nil {
				if _, isPkg := found.(*types.PkgName); !isPkg {
					problem = "identifier " + id.Name + " is shadowed at the call site"
				}
			}
		default:
			if obj.Parent() == pkg.Types.Scope() || obj.Parent() == types.Universe {
				_, found := callScope.LookupParent(id.Name, s.call.Pos())
				if found != obj {
					problem = "identifier " + id.Name + " is shadowed at the call site"
				}
			}
		}
		return true
	})
	if problem != "" {
		return nil, problem
	}
	// universe identifiers used in the generated scaffolding
	for _, nm := range []string{"nil"} {
		if _, found := callScope.LookupParent(nm, s.call.Pos()); found != nil && found.Parent() != types.Universe {
			return nil, nm + " is redefined at the call site"
		}
	}

	// ---- receiver and argument binding -------------------------------------------------------------
	var names, values []string
	var useNames []string
	if recv := sig.Recv(); recv != nil {
		sel, ok := ast.Unparen(s.call.Fun).(*ast.SelectorExpr)
		if !ok {
			return nil, "method call without selector"
		}
		selection := info.Selections[sel]
		if selection == nil || selection.Kind() != types.MethodVal {
			return nil, "method expression"
		}
		rt := recv.Type()
		xt := info.TypeOf(sel.X)
		val := text(csrc, sel.X.Pos(), sel.X.End())
		// a method promoted through embedded fields: spell the path out
		for _, fi := range selection.Index()[:len(selection.Index())-1] {
			t := xt
			if pt, ok := t.Underlying().(*types.Pointer); ok {
				t = pt.Elem()
			}
			st, ok := t.Underlying().(*types.Struct)
			if !ok || fi >= st.NumFields() {
				return nil, "embedding path not resolvable"
			}
			val = "(" + val + ")." + st.Field(fi).Name()
			xt = st.Field(fi).Type()
		}
		_, rptr := rt.(*types.Pointer)
		_, xptr := xt.Underlying().(*types.Pointer)
		if rptr && !xptr {
			val = "&(" + val + ")"
		} else if !rptr && xptr {
			val = "*(" + val + ")"
		}
		nm := "_"
		if h.decl.Recv != nil && len(h.decl.Recv.List) == 1 && len(h.decl.Recv.List[0].Names) == 1 {
			nm = h.decl.Recv.List[0].Names[0].Name
		}
		names = append(names, nm)
		values = append(values, "("+typeStr(rt)+")("+val+")")
		if nm != "_" {
			useNames = append(useNames, nm)
		}
	}
	params := sig.Params()
	args := s.call.Args
	for i := 0; i < params.Len(); i++ {
		par := params.At(i)
		nm := par.Name()
		if nm == "" {
			nm = "_"
		}
		pt := par.Type()
		var val string
		if sig.Variadic() && i == params.Len()-1 {
			if s.call.Ellipsis.IsValid() {
				if len(args) != params.Len() {
					return nil, "variadic call shape"
				}
				val = "(" + typeStr(pt) + ")(" + text(csrc, args[i].Pos(), args[i].End()) + ")"
			} else if len(args) <= i {
				val = "(" + typeStr(pt) + ")(nil)"
			} else {
				var parts []string
				for _, a := range args[i:] {
					parts = append(parts, text(csrc, a.Pos(), a.End()))
				}
				val = typeStr(pt) + "{" + strings.Join(parts, ", ") + "}"
			}
		} else {
			if i >= len(args) {
				return nil, "argument count (multi-value call argument)"
			}
			val = "(" + typeStr(pt) + ")(" + text(csrc, args[i].Pos(), args[i].End()) + ")"
		}
		names = append(names, nm)
		values = append(values, val)
		if nm != "_" {
			useNames = append(useNames, nm)
		}
	}
	if !sig.Variadic() && len(args) != params.Len() {
		return nil, "argument count (multi-value call argument)"
	}

	// ---- body with returns rewritten -----------------------------------------------------------------
	label := fmt.Sprintf("_inl%d", n)
	var resVars []string
	for i := 0; i < nres; i++ {
		resVars = append(resVars, fmt.Sprintf("_inl%dr%d", n, i))
	}
	var namedRes []string
	for i := 0; i < nres; i++ {
		if nm := sig.Results().At(i).Name(); nm != "" && nm != "_" {
			namedRes = append(namedRes, nm)
		}
	}
	if len(namedRes) != 0 && len(namedRes) != nres {
		return nil, "partly named results"
	}
	type rep struct {
		from, to int
		text     string
	}
	var reps []rep
	var sections []string // continuation modes: one labelled copy of the consuming statement per return
	// returns of an error variable directly under "if <that variable> != nil": the value is not nil
	guardedRet := map[*ast.ReturnStmt]bool{}
	ast.Inspect(h.decl.Body, func(nd ast.Node) bool {
		ifs, ok := nd.(*ast.IfStmt)
		if !ok {
			return true
		}
		b, ok := ast.Unparen(ifs.Cond).(*ast.BinaryExpr)
		if !ok || b.Op != token.NEQ {
			return true
		}
		x, ok1 := ast.Unparen(b.X).(*ast.Ident)
		y, ok2 := ast.Unparen(b.Y).(*ast.Ident)
		if !ok1 || !ok2 || y.Name != "nil" {
			return true
		}
		for _, st := range ifs.Body.List {
			if rs, ok := st.(*ast.ReturnStmt); ok {
				if len(rs.Results) >= 1 {
					if id, ok := ast.Unparen(rs.Results[len(rs.Results)-1]).(*ast.Ident); ok && id.Name == x.Name && hinfo.Uses[id] == hinfo.Uses[x] {
						guardedRet[rs] = true
					}
				}
				break
			}
			if as, ok := st.(*ast.AssignStmt); ok {
				reassigned := false
				for _, l := range as.Lhs {
					if id, ok := l.(*ast.Ident); ok && id.Name == x.Name {
						reassigned = true
					}
				}
				if reassigned {
					break
				}
			}
		}
		return true
	})
	bodyStart, bodyEnd := off(h.decl.Body.Lbrace)+1, off(h.decl.Body.Rbrace)
	var walk func(n ast.Node) bool
	walk = func(nd ast.Node) bool {
		switch x := nd.(type) {
		case *ast.FuncLit:
			return false
		case *ast.ReturnStmt:
			var t string
			switch {
			case mode == "tail":
				return false // a return of the helper is a return of the caller
			case mode == "errIf" || mode == "errAssignIf" || mode == "boolIf":
				last := x.Results[len(x.Results)-1]
				e := strings.TrimSpace(text(hsrc, last.Pos(), last.End()))
				if len(x.Results) != nres {
					e = "?" // return f(): the error value is not known
				}
				k := len(sections)
				lab := fmt.Sprintf("%s_%d", label, k)
				var rs []string
				for _, re := range x.Results {
					rs = append(rs, text(hsrc, re.Pos(), re.End()))
				}
				t = "{ " + strings.Join(resVars, ", ") + " = " + strings.Join(rs, ", ") + "; goto " + lab + " }"
				var sec string
				switch mode {
				case "errIf":
					switch {
					case e == "nil":
					case guardedRet[x] || nonNilError(last, hinfo):
						// the error value is known not to be nil: the branch is taken unconditionally
						sec = "{\n" + contVar + " := " + resVars[0] + "\n_ = " + contVar + "\n" + text(csrc, contIf.Body.Pos(), contIf.Body.End()) + "\n}\n"
					default:
						sec = "if " + contVar + " := " + resVars[0] + "; " + contVar + " != nil " + text(csrc, contIf.Body.Pos(), contIf.Body.End()) + "\n"
					}
				case "errAssignIf":
					sec = strings.Join(lhsNames, ", ") + " = " + strings.Join(resVars, ", ") + "\n"
					switch {
					case e == "nil":
					case e != "?" && (guardedRet[x] || nonNilError(last, hinfo)):
						sec += text(csrc, contIf.Body.Pos(), contIf.Body.End()) + "\n"
					default:
						sec += "if " + contVar + " != nil " + text(csrc, contIf.Body.Pos(), contIf.Body.End()) + "\n"
					}
				case "boolIf":
					thenT := text(csrc, contIf.Body.Pos(), contIf.Body.End())
					elseT := ""
					if contIf.Else != nil {
						elseT = text(csrc, contIf.Else.Pos(), contIf.Else.End())
					}
					val, known := false, false
					if e == "true" || e == "false" {
						val, known = e == "true", true
						if contNeg {
							val = !val
						}
					}
					switch {
					case known && val:
						sec = thenT + "\n"
					case known && elseT != "":
						sec = elseT + "\n"
					case known:
						sec = ""
					default:
						cond := resVars[0]
						if contNeg {
							cond = "!" + cond
						}
						sec = "if " + cond + " " + thenT
						if elseT != "" {
							sec += " else " + elseT
						}
						sec += "\n"
					}
				}
				sections = append(sections, lab+":\n"+sec+"goto "+label+"_end\n")
			case nres == 0:
				t = "break " + label
			case len(x.Results) == 0:
				t = "{ " + strings.Join(resVars, ", ") + " = " + strings.Join(namedRes, ", ") + "; break " + label + " }"
			default:
				var rs []string
				for _, e := range x.Results {
					rs = append(rs, text(hsrc, e.Pos(), e.End()))
				}
				t = "{ " + strings.Join(resVars, ", ") + " = " + strings.Join(rs, ", ") + "; break " + label + " }"
			}
			reps = append(reps, rep{off(x.Pos()), off(x.End()), t})
			return false
		}
		return true
	}
	ast.Inspect(h.decl.Body, walk)
	body := append([]byte{}, hsrc[bodyStart:bodyEnd]...)
	sort.Slice(reps, func(i, j int) bool { return reps[i].from > reps[j].from })
	for _, r := range reps {
		// returns nested inside a replaced return cannot occur (FuncLits are skipped)
		body = append(append(append([]byte{}, body[:r.from-bodyStart]...), []byte(r.text)...), body[r.to-bodyStart:]...)
	}

	var sb strings.Builder
	if mode == "generic" {
		for i := 0; i < nres; i++ {
			fmt.Fprintf(&sb, "var %s %s\n", resVars[i], typeStr(sig.Results().At(i).Type()))
		}
	}
	if len(sections) > 0 {
		for i := 0; i < nres; i++ {
			fmt.Fprintf(&sb, "var %s %s\n_ = %s\n", resVars[i], typeStr(sig.Results().At(i).Type()), resVars[i])
		}
	}
	for _, nv := range newVars {
		fmt.Fprintf(&sb, "var %s %s\n_ = %s\n", nv.name, typeStr(sig.Results().At(nv.res).Type()), nv.name)
	}
	sb.WriteString("{\n")
	if len(names) > 0 {
		fmt.Fprintf(&sb, "var %s = %s\n", strings.Join(names, ", "), strings.Join(values, ", "))
		if len(useNames) > 0 {
			blanks := make([]string, len(useNames))
			for i := range blanks {
				blanks[i] = "_"
			}
			fmt.Fprintf(&sb, "%s = %s\n", strings.Join(blanks, ", "), strings.Join(useNames, ", "))
		}
	}
	for i, nm := range namedRes {
		fmt.Fprintf(&sb, "var %s %s\n_ = %s\n", nm, typeStr(sig.Results().At(i).Type()), nm)
	}
	if len(reps) > 0 && len(sections) == 0 {
		fmt.Fprintf(&sb, "%s:\nswitch {\ndefault:\n", label)
		sb.Write(body)
		sb.WriteString("\n}\n")
	} else {
		sb.WriteString("{\n")
		sb.Write(body)
		sb.WriteString("\n}\n")
	}
	sb.WriteString("}\n")
	if len(sections) > 0 {
		for _, sec := range sections {
			sb.WriteString(sec)
		}
		fmt.Fprintf(&sb, "%s_end:\n", label)
		// a label must be followed by a statement
		sb.WriteString("{\n}\n")
	}
	if (mode == "errIf" || mode == "errAssignIf" || mode == "boolIf") && len(sections) == 0 {
		return nil, "helper without a return statement in a value context"
	}
	prelude := sb.String()

	// ---- the rewritten statement ---------------------------------------------------------------------
	resText := strings.Join(resVars, ", ")
	var out string
	stStart, stEnd := stmt.Pos(), stmt.End()
	if mode != "generic" {
		// the consuming statement lives on at the helper's returns
		return &edit{file: callerFile, start: off(stStart), end: off(stmtEnd), text: prelude, imports: imports}, ""
	}
	switch st := stmt.(type) {
	case *ast.ExprStmt:
		if direct {
			// results (if any) are discarded
			var use string
			if nres > 0 {
				blanks := make([]string, nres)
				for i := range blanks {
					blanks[i] = "_"
				}
				use = strings.Join(blanks, ", ") + " = " + resText + "\n"
			}
			out = prelude + use
		} else {
			out = prelude + text(csrc, stStart, s.call.Pos()) + resText + text(csrc, s.call.End(), stEnd) + "\n"
		}
	case *ast.IfStmt:
		_ = st
		rewritten := text(csrc, stStart, s.call.Pos()) + resText + text(csrc, s.call.End(), stEnd)
		if wrap {
			out = "{\n" + prelude + rewritten + "\n}\n"
		} else {
			// the unused-result guard of the scaffold: results are used by the condition
			out = "{\n" + prelude + rewritten + "\n}\n"
		}
	default:
		if nres == 0 {
			return nil, "void call in a value context"
		}
		out = prelude + text(csrc, stStart, s.call.Pos()) + resText + text(csrc, s.call.End(), stEnd) + "\n"
	}
	// a define statement or declaration must stay at the level of its list; everything else may too
	return &edit{file: callerFile, start: off(stStart), end: off(stEnd), text: out, imports: imports}, ""
}

func within(inner, outer ast.Node) bool {
	return outer != nil && inner != nil && inner.Pos() >= outer.Pos() && inner.End() <= outer.End()
}

func stmtList(n ast.Node) []ast.Stmt {
	switch x := n.(type) {
	case *ast.BlockStmt:
		return x.List
	case *ast.CaseClause:
		return x.Body
	case *ast.CommClause:
		return x.Body
	}
	return nil
}

// isNotNil: the expression is  name != nil.
func isNotNil(e ast.Expr, name string) bool {
	b, ok := ast.Unparen(e).(*ast.BinaryExpr)
	if !ok || b.Op != token.NEQ {
		return false
	}
	x, ok1 := ast.Unparen(b.X).(*ast.Ident)
	y, ok2 := ast.Unparen(b.Y).(*ast.Ident)
	return ok1 && ok2 && x.Name == name && y.Name == "nil"
}

func isErrorType(t types.Type) bool {
	return types.Identical(t, types.Universe.Lookup("error").Type())
}

func isBoolType(t types.Type) bool {
	b, ok := t.Underlying().(*types.Basic)
	return ok && b.Kind() == types.Bool
}

// nonNilError: an error expression that is never nil – a fresh error (errors.New, fmt.Errorf, status.Error(f),
// sdkerrors.New / Register), a wrapped error (sdkerrors.Wrap / Wrapf, which this code base only applies to
// errors it has just found to be non-nil) or a package-level Err… variable.
func nonNilError(e ast.Expr, info *types.Info) bool {
	e = ast.Unparen(e)
	switch x := e.(type) {
	case *ast.CallExpr:
		sel, ok := ast.Unparen(x.Fun).(*ast.SelectorExpr)
		if !ok {
			return false
		}
		fn, _ := info.Uses[sel.Sel].(*types.Func)
		if fn == nil || fn.Pkg() == nil {
			return false
		}
		switch fn.Pkg().Path() + "." + fn.Name() {
		case "errors.New", "fmt.Errorf",
			"github.com/cosmos/cosmos-sdk/types/errors.Wrap", "github.com/cosmos/cosmos-sdk/types/errors.Wrapf",
			"github.com/cosmos/cosmos-sdk/types/errors.New", "github.com/cosmos/cosmos-sdk/types/errors.Register",
			"github.com/pkg/errors.New", "github.com/pkg/errors.Errorf",
			"google.golang.org/grpc/status.Error", "google.golang.org/grpc/status.Errorf":
			return true
		}
	case *ast.Ident:
		if v, ok := info.Uses[x].(*types.Var); ok && v.Pkg() != nil && v.Parent() == v.Pkg().Scope() && strings.HasPrefix(v.Name(), "Err") {
			return true
		}
	case *ast.SelectorExpr:
		if v, ok := info.Uses[x.Sel].(*types.Var); ok && v.Pkg() != nil && v.Parent() == v.Pkg().Scope() && strings.HasPrefix(v.Name(), "Err") {
			return true
		}
	}
	return false
}

// thinBody: a body of at most three statements without control flow (a wrapper around a store access or
// another call rather than an extracted block of logic).
func thinBody(fd *ast.FuncDecl) bool {
	if len(fd.Body.List) > 3 {
		return false
	}
	flow := false
	ast.Inspect(fd.Body, func(n ast.Node) bool {
		switch n.(type) {
		case *ast.IfStmt, *ast.ForStmt, *ast.RangeStmt, *ast.SwitchStmt, *ast.TypeSwitchStmt, *ast.SelectStmt, *ast.FuncLit:
			flow = true
		}
		return !flow
	})
	return !flow
}
