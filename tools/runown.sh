#!/bin/bash
# usage: runown.sh <outfile> <patch> [<patch> ...] — each patch against the check of the property it was written for
# (directory name Cxx-Y); if that check is silent, against all checks.  6 scratch-worktree slots.
out=$1; shift
cd /verif
patches=("$@"); n=${#patches[@]}
run_slot() { s=$1; for ((i=s;i<n;i+=6)); do pth=${patches[$i]}; id=$(basename $(dirname $pth)); own=${id%%-*};
  res=$(tools/runwt.sh $pth $own m$s 2>&1)
  if echo "$res" | grep -q "DETECTED"; then echo "$id: own"; else
    res=$(tools/runwt.sh $pth all m$s 2>&1); det=$(echo "$res" | grep -o "^  C[0-9][0-9]: DETECTED" | cut -c3-5 | tr '\n' ' ')
    [ -z "$det" ] && det=$(echo "$res" | grep -q SILENT && echo "-- SILENT --" || echo "?? $(echo $res | head -c 200)"); echo "$id: NOT-OWN $det"; fi
  done > /tmp/runown-$s.log 2>&1; }
for s in 0 1 2 3 4 5; do run_slot $s & done; wait
cat /tmp/runown-?.log | sort > $out; cat $out
