#!/bin/bash
# usage: runseed.sh <patch.diff> <property[,property...]|all>
# applies a seeded change to /repo, runs the quick checks, and undoes it straight afterwards.
patch=$1; props=$2
cd /repo || exit 2
git diff --quiet || { echo "/repo not clean"; exit 2; }
git apply "$patch" || { echo "PATCH DOES NOT APPLY"; exit 3; }
if [ "$props" = all ]; then props=$(python3 -c "import json;print(','.join(c['property_id'] for c in json.load(open('/verif/MANIFEST.json'))['checks']))"); fi
det=0; mkdir -p /tmp/trymut-verif; cp /verif/known_findings.json /tmp/trymut-verif/
for p in ${props//,/ }; do
  out=$(MHUBSA_VERIF=/tmp/trymut-verif /verif/bin/mhubsa -property $p 2>&1)
  n=$(echo "$out" | grep -c "^VIOLATION")
  if [ $n -gt 0 ]; then det=1; echo "  $p: DETECTED ($n)"; echo "$out" | grep -B1 "^VIOLATION" | grep -v "^VIOLATION\|^--" | cut -c1-260 | sed 's/^/      /'; fi
  echo "$out" | grep -q "infrastructure" && echo "  $p: INFRA ERROR" && echo "$out" | head -5
done
[ $det = 0 ] && echo "  MISSED by: $props"
git -C /repo checkout -- .
