#!/bin/bash
# usage: runwt.sh <patch.diff> <property[,property...]|all> [slot]
# development helper: applies a patch to a scratch worktree of /repo under /tmp (created on demand,
# never /repo itself) and runs the quick checks against it via MHUBSA_REPO.  Several slots can run in parallel.
patch=$1; props=$2; slot=${3:-0}
wt=/tmp/wt-run-$slot; vd=/tmp/trymut-verif-$slot
[ -d $wt ] || git -C /repo worktree add -q --detach $wt HEAD || exit 2
cd $wt || exit 2
git checkout -q --detach $(git -C /repo rev-parse HEAD) 2>/dev/null
git checkout -- . ; git clean -fdq
git apply "$patch" || { echo "PATCH DOES NOT APPLY"; exit 3; }
if [ "$props" = all ]; then props=$(python3 -c "import json;print(','.join(c['property_id'] for c in json.load(open('/verif/MANIFEST.json'))['checks']))"); fi
det=0; mkdir -p $vd; cp /verif/known_findings.json $vd/
for p in ${props//,/ }; do
  out=$(MHUBSA_REPO=$wt MHUBSA_VERIF=$vd /verif/bin/mhubsa -property $p 2>&1)
  n=$(echo "$out" | grep -c "^VIOLATION")
  if [ $n -gt 0 ]; then det=1; echo "  $p: DETECTED ($n)"; echo "$out" | grep -B1 "^VIOLATION" | grep -v "^VIOLATION\|^--" | cut -c1-300 | sed 's/^/      /'; fi
  echo "$out" | grep -q "infrastructure" && echo "  $p: INFRA ERROR" && echo "$out" | head -5
done
[ $det = 0 ] && echo "  SILENT: $props"
git checkout -- . ; git clean -fdq
