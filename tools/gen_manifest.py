#!/usr/bin/env python3
"""Regenerates /verif/MANIFEST.json from the table below (kept in one place so the manifest stays valid)."""
import json, sys
ENV = "GOFLAGS=-mod=mod GOPROXY=off GOSUMDB=off GOTOOLCHAIN=local GOWORK=off"
CLAIMED = json.load(open('/verif/tools/claims.json'))
ALL = ["C%02d" % i for i in range(1, 21)]
checks = []
for pid in ALL:
    if pid not in CLAIMED:
        continue
    c = CLAIMED[pid]
    checks.append({
        "property_id": pid,
        "quick_cmd": f"/verif/bin/mhubsa -property {pid} -tier quick",
        "thorough_cmd": f"/verif/bin/mhubsa -property {pid} -tier thorough",
        "evidence_file": f"/verif/evidence/{pid}.json",
        "replay_cmd_template": "/verif/bin/mhubsa -explain {path}",
        "engine": "mhubsa",
        "level_claimed": {"category": "other", "text": c["text"], "design_ref": f"DESIGN.md section 4, {pid}"},
        "level_note": c["note"],
        "technique": c["technique"],
    })
na = [{"property_id": p, "reason": CLAIMED.get("_na", {}).get(p, "structural clause designed (DESIGN.md section 4) but its rules are not built and validated yet; not claimed through a weaker proxy")} for p in ALL if p not in CLAIMED]
m = {
    "version": 1,
    "setup_cmd": f"cd /verif/sa && {ENV} go build -o /verif/bin/mhubsa ./cmd/mhubsa",
    "hooks": {"guard": "verif", "enable": "none needed: the checks are static and read /repo's working tree; nothing is instrumented", "baseline_off_cmd": "for m in $(cat /w/out/gomods.txt); do MF=$(cd /repo/$m && . /w/out/goenv.sh && gomodflag); (cd /repo/$m && go test $MF -json -vet=off -count=1 -timeout 25m ./...); done", "source_commits": [], "add_only": True},
    "engines": [{"name": "mhubsa", "path": "/verif/sa", "serves_properties": [c["property_id"] for c in checks], "kind_free_text": "repository-specific static analyser over go/packages + go/ssa (x/tools v0.29.0): call graph, effect summaries with store-key prefix recovery, guards as CFG edge cuts, value provenance, pairing, plus a small Solidity/ABI reader; decides structural necessary conditions only"}],
    "checks": checks,
    "not_applicable": na,
    "notes": "Technique family: static analysis only. Every claimed check is at level 'other' and decides the structural clauses listed in its evidence explanation and in DESIGN.md; the behavioural residue is listed there as NOT DECIDED.",
}
json.dump(m, open('/verif/MANIFEST.json', 'w'), indent=1)
print("claimed", len(checks), "not_applicable", len(na))
