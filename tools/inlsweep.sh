#!/bin/bash
# usage: inlsweep.sh <outfile> [parallel] — development aid: for every private helper the inliner can translate, checks
# the tree with that one helper inlined at all its call sites (an "inline function" refactoring, behaviour
# preserving by construction) against all 20 checks; every alarm is a false alarm of the machinery.
out=$1; par=${2:-8}
wt=/tmp/wt-run-1; [ -d $wt ] || git -C /repo worktree add -q --detach $wt HEAD
(cd $wt && git checkout -q -- . && git clean -fdq)
mkdir -p /tmp/inl-verif; cp /verif/known_findings.json /tmp/inl-verif/
MHUBSA_REPO=$wt MHUBSA_VERIF=/tmp/inl-verif MHUBSA_INLINEALL=all /verif/bin/mhubsa -property C06 2>&1 | grep "^inline-all round" | sed 's/^inline-all round [0-9]*: [0-9]* call sites: //' | tr ';' '\n' | sed 's/^ *//; s/ -> .*//' | sort -u | grep -v "client/\|/app\." > /tmp/inl-helpers.txt
props=$(python3 -c "import json;print(' '.join(c['property_id'] for c in json.load(open('/verif/MANIFEST.json'))['checks']))")
rm -f /tmp/inl-jobs.txt
while read -r h; do for p in $props; do echo "$h|$p"; done; done < /tmp/inl-helpers.txt > /tmp/inl-jobs.txt
run1() { h="${1%%|*}"; p="${1##*|}"; o=$(MHUBSA_REPO=/tmp/wt-run-1 MHUBSA_VERIF=/tmp/inl-verif MHUBSA_INLINEALL="only:$h" MHUBSA_INLINEQUIET=1 /verif/bin/mhubsa -property $p 2>&1); n=$(echo "$o" | grep -c "^VIOLATION"); k=$(echo "$o" | grep -c "not inlined everywhere"); if [ $n -gt 0 ]; then echo "ALARM $p $h :: $(echo "$o" | grep -B1 '^VIOLATION' | grep -v '^VIOLATION\|^--' | head -2 | cut -c1-220 | tr '\n' ' ')"; elif [ $k -gt 0 ]; then echo "kept $p $h"; else echo "ok $p $h"; fi; }
export -f run1
cat /tmp/inl-jobs.txt | xargs -d '\n' -P $par -I{} bash -c 'run1 "$@"' _ {} > $out 2>&1
rm -rf /tmp/inl-verif-*
grep -c "^ok" $out; grep "^ALARM" $out | sort
