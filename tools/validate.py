#!/opt/veriftools/pyvenv/bin/python
import json, jsonschema, glob, sys
jsonschema.validate(json.load(open('/verif/MANIFEST.json')), json.load(open('/root/.vp/MANIFEST.schema.json')))
es = json.load(open('/root/.vp/EVIDENCE.schema.json'))
n = 0
for f in sorted(glob.glob('/verif/evidence/C*.json')):
    jsonschema.validate(json.load(open(f)), es); n += 1
print('manifest valid; evidence files valid:', n)
