#!/bin/bash
# usage: trymut.sh <property[,property]> <file-relative-to-/repo> <python-regex> <replacement>
# applies one textual edit to /repo, checks that the module still builds, runs the checks, reverts.
props=$1; file=$2; pat=$3; rep=$4
cd /repo || exit 2
python3 - "$file" "$pat" "$rep" <<'PY'
import re,sys
f,pat,rep=sys.argv[1:4]
s=open(f).read()
n=len(re.findall(pat,s,flags=re.S))
if n!=1:
    print("PATTERN MATCHES",n); sys.exit(3)
open(f,'w').write(re.sub(pat,rep,s,count=1,flags=re.S))
PY
rc=$?
if [ $rc -ne 0 ]; then git -C /repo checkout -- . ; exit $rc; fi
git -C /repo diff --stat | tail -1
export GOFLAGS=-mod=mod GOPROXY=off GOSUMDB=off GOTOOLCHAIN=local; mkdir -p /tmp/trymut-verif; cp /verif/known_findings.json /tmp/trymut-verif/
for p in ${props//,/ }; do
  MHUBSA_VERIF=/tmp/trymut-verif /verif/bin/mhubsa -property $p 2>&1 | grep -E "VIOLATION|KNOWN|violations=|infrastructure|undecided" | sed 's/^/   /'
done
git -C /repo checkout -- .
