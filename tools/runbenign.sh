#!/bin/bash
# applies every behaviour-preserving refactoring under /verif/benign to a scratch worktree of /repo (under /tmp,
# removed afterwards) and requires every claimed check to stay silent.  Four patches are checked in parallel.
cd /verif || exit 2
ls -d benign/*/ | xargs -n1 basename > /tmp/benign-ids.txt
run_slot() { s=$1; shift; for b in "$@"; do echo "== $b"; tools/runwt.sh /verif/benign/$b/patch.diff all b$s; done > /tmp/benign-run-b$s.log 2>&1; }
ids=($(cat /tmp/benign-ids.txt)); n=${#ids[@]}
for s in 1 2 3 4; do run_slot $s $(for ((i=s-1;i<n;i+=4)); do echo ${ids[$i]}; done) & done; wait
cat /tmp/benign-run-b?.log | grep -v "^      "
rc=0; grep -q "DETECTED\|INFRA\|DOES NOT APPLY" /tmp/benign-run-b?.log && rc=1
for s in 1 2 3 4; do git -C /repo worktree remove --force /tmp/wt-run-b$s 2>/dev/null; rm -rf /tmp/trymut-verif-b$s; done
exit $rc
