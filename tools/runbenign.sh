#!/bin/bash
# applies every behaviour-preserving refactoring under /verif/benign to /repo in turn and requires every claimed check to stay silent
cd /repo || exit 2
rc=0; mkdir -p /tmp/trymut-verif; cp /verif/known_findings.json /tmp/trymut-verif/
for d in /verif/benign/*/; do
  n=$(basename $d)
  git diff --quiet || { echo "/repo not clean"; exit 2; }
  git apply $d/patch.diff || { echo "$n: PATCH DOES NOT APPLY"; rc=1; continue; }
  (cd module && GOFLAGS=-mod=mod GOPROXY=off GOSUMDB=off GOTOOLCHAIN=local go build ./x/... ) || { echo "$n: does not build"; rc=1; }
  for p in $(python3 -c "import json;print(' '.join(c['property_id'] for c in json.load(open('/verif/MANIFEST.json'))['checks']))"); do
    out=$(MHUBSA_VERIF=/tmp/trymut-verif /verif/bin/mhubsa -property $p 2>&1)
    if echo "$out" | grep -q "^VIOLATION\|infrastructure"; then echo "$n: FALSE ALARM in $p"; echo "$out" | grep -B1 "^VIOLATION" | grep -v "^VIOLATION\|^--" | cut -c1-240; rc=1; fi
  done
  git checkout -- .
  echo "$n: done"
done
exit $rc
