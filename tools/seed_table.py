#!/usr/bin/env python3
"""Regenerates the seeded-change table of DESIGN.md section 8 from seeded/*/meta.json."""
import json, glob, os, re
rows = []
for f in sorted(glob.glob('/verif/seeded/*/meta.json')):
    m = json.load(open(f))
    notes = os.path.join(os.path.dirname(f), 'notes.md')
    what = ''
    if os.path.exists(notes):
        lines = [l.strip(' #*-') for l in open(notes).read().split('\n') if l.strip()]
        what = (lines[0] if lines else '')[:110]
    rows.append('| %s | %s | %s | %s |' % (m['id'], m['breaks_property'], what.replace('|', '/'), ', '.join(m.get('detected_by', [])) or '**none**'))
table = '| id | property | change | reported by |\n|---|---|---|---|\n' + '\n'.join(rows)
p = '/verif/DESIGN.md'
s = open(p).read()
if 'SEED-TABLE-PLACEHOLDER' in s:
    s = s.replace('SEED-TABLE-PLACEHOLDER', '<!-- seed-table-begin -->\n' + table + '\n<!-- seed-table-end -->')
else:
    s = re.sub(r'<!-- seed-table-begin -->.*?<!-- seed-table-end -->', lambda _: '<!-- seed-table-begin -->\n' + table + '\n<!-- seed-table-end -->', s, flags=re.S)
open(p, 'w').write(s)
print(len(rows), 'rows')
