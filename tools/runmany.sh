#!/bin/bash
# usage: runmany.sh <outfile> <patch> [<patch> ...]   — runs every patch against all checks in 6 scratch-worktree slots
out=$1; shift
cd /verif
patches=("$@"); n=${#patches[@]}
run_slot() { s=$1; for ((i=s;i<n;i+=6)); do pth=${patches[$i]}; id=$(basename $(dirname $pth)); res=$(tools/runwt.sh $pth all m$s 2>&1); det=$(echo "$res" | grep -o "^  C[0-9][0-9]: DETECTED" | cut -c3-5 | tr '\n' ' '); [ -z "$det" ] && det=$(echo "$res" | grep -q SILENT && echo "-- SILENT --" || echo "?? $(echo $res | head -c 200)"); echo "$id: $det"; done > /tmp/runmany-$s.log 2>&1; }
for s in 0 1 2 3 4 5; do run_slot $s & done; wait
cat /tmp/runmany-?.log | sort > $out; cat $out
