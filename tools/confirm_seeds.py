#!/usr/bin/env python3
"""Confirms sub-agent seeded changes in scratch worktrees of /repo (outside /repo and /verif) and
packages the confirmed ones as /verif/seeded/<id>/{patch.diff, demo/*, meta.json}.

For every candidate directory <src>/<ID>/ (patch.diff or patch.rebased.diff, demo/, notes.md):
  1. fresh worktree of /repo HEAD under /tmp, apply the patch;
  2. the module builds and the existing suite (go test ./x/...) passes with the change;
  3. the demonstration FAILS with the change;
  4. the demonstration PASSES without it (source reverted, demo kept);
  5. the quick checks of /verif are run against /repo with the patch applied (then undone) and the
     detecting checks are recorded.
Usage: confirm_seeds.py <srcdir> [ID ...]
"""
import json, os, re, shutil, subprocess, sys, glob

ENV = dict(os.environ, GOFLAGS="-mod=mod", GOPROXY="off", GOSUMDB="off", GOTOOLCHAIN="local")
ENV.pop("GOWORK", None)


def sh(cmd, cwd=None, timeout=1800):
    p = subprocess.run(cmd, shell=True, cwd=cwd, env=ENV, stdout=subprocess.PIPE, stderr=subprocess.STDOUT, text=True, timeout=timeout)
    return p.returncode, p.stdout


def placement(notes, fname):
    # a path mentioning the file name that is not under demo/
    for m in re.finditer(r"`([A-Za-z0-9_\-./]*/" + re.escape(fname) + r")`", notes):
        p = m.group(1)
        if not p.startswith("demo/") and "/tmp/" not in p:
            return p
    for m in re.finditer(r"([A-Za-z0-9_\-./]*/" + re.escape(fname) + r")", notes):
        p = m.group(1)
        if not p.startswith("demo/") and "/tmp/" not in p and p.count("/") >= 2:
            return p.lstrip("./")
    # a directory mention
    for m in re.finditer(r"`((?:module|minter-connector)/[A-Za-z0-9_\-/]+/?)`", notes):
        d = m.group(1)
        if not d.endswith(".go"):
            return d.rstrip("/") + "/" + fname
    return None


def main():
    src = sys.argv[1]
    ids = sys.argv[2:] or sorted(os.listdir(src))
    out = {}
    for sid in ids:
        d = os.path.join(src, sid)
        if not os.path.isdir(d):
            continue
        prop = sid.split("-")[0]
        patch = os.path.join(d, "patch.rebased.diff")
        if not os.path.exists(patch):
            patch = os.path.join(d, "patch.diff")
        notes = open(os.path.join(d, "notes.md")).read() if os.path.exists(os.path.join(d, "notes.md")) else ""
        wt = "/tmp/wt-seed-" + sid
        sh("git -C /repo worktree remove --force %s" % wt)
        shutil.rmtree(wt, ignore_errors=True)
        rc, o = sh("git -C /repo worktree add -q --detach %s HEAD" % wt)
        res = {"id": sid, "property": prop, "status": "?", "steps": []}
        try:
            rc, o = sh("git apply %s" % patch, cwd=wt)
            if rc != 0:
                res["status"] = "patch-does-not-apply"
                res["steps"].append(o[-400:])
                continue
            connector = "minter-connector/" in open(patch).read()
            modflag = ""
            if connector:
                rc, mf = sh("/tmp/mut-tools/modfile.sh %s minter-connector" % wt)
                modflag = "-modfile=" + mf.strip()
                rc, o = sh("go build %s ./..." % modflag, cwd=wt + "/minter-connector")
                if rc != 0:
                    res["status"] = "connector-does-not-build"
                    res["steps"].append(o[-600:])
                    continue
            rc, o = sh("go build ./... && go test -vet=off -count=1 ./x/...", cwd=wt + "/module")
            res["steps"].append("existing suite with change: rc=%d" % rc)
            if rc != 0:
                res["status"] = "existing-suite-fails"
                res["steps"].append(o[-800:])
                continue
            # demos
            demos = sorted(glob.glob(os.path.join(d, "demo", "*")))
            placed = []
            runs = []
            for f in demos:
                dest = placement(notes, os.path.basename(f))
                if dest is None:
                    res["steps"].append("no placement for " + os.path.basename(f))
                    continue
                full = os.path.join(wt, dest)
                os.makedirs(os.path.dirname(full), exist_ok=True)
                shutil.copy(f, full)
                placed.append(dest)
                tests = re.findall(r"^func (Test[A-Za-z0-9_]+)\(", open(f).read(), flags=re.M)
                pkgdir = os.path.dirname(dest)
                runs.append((pkgdir, "^(" + "|".join(tests) + ")$"))
            if not placed:
                res["status"] = "no-demo-placed"
                continue

            def run_demos():
                ok_all, logs = True, []
                for pkgdir, pat in runs:
                    if pkgdir.startswith("minter-connector"):
                        rc2, mf = sh("/tmp/mut-tools/modfile.sh %s minter-connector" % wt)
                        cmd = "go test -modfile=%s -vet=off -count=1 -run '%s' ./%s/" % (mf.strip(), pat, pkgdir[len("minter-connector/"):])
                        cwd = wt + "/minter-connector"
                    else:
                        cmd = "go test -vet=off -count=1 -run '%s' ./%s/" % (pat, pkgdir[len("module/"):])
                        cwd = wt + "/module"
                    rc2, o2 = sh(cmd, cwd=cwd)
                    logs.append((cmd, rc2, o2[-300:]))
                    if rc2 != 0:
                        ok_all = False
                return ok_all, logs

            ok_with, logs_with = run_demos()
            res["steps"].append("demo with change: %s" % ("PASS (bad)" if ok_with else "FAIL (expected)"))
            # revert the source change only
            sh("git apply -R %s" % patch, cwd=wt)
            ok_without, logs_without = run_demos()
            res["steps"].append("demo without change: %s" % ("PASS (expected)" if ok_without else "FAIL (bad)"))
            if ok_with or not ok_without:
                res["status"] = "demo-not-discriminating"
                res["logs"] = [l for l in logs_with + logs_without]
                continue
            # run the checks on /repo itself
            if os.environ.get("CONFIRM_FIRSTTRY"):
                # the detecting checks were determined beforehand in scratch worktrees (tools/runmany.sh): one line
                # "<id>: C01 C02 ..." per change
                o = ""
                for line in open(os.environ["CONFIRM_FIRSTTRY"]):
                    if line.startswith(sid + ":"):
                        o = "".join("  %s: DETECTED\n" % c for c in line.split(":", 1)[1].split() if re.match(r"C\d\d$", c))
            else:
                rc, o = sh("/verif/tools/runseed.sh %s all" % patch, cwd="/verif")
            det = re.findall(r"^\s+(C\d\d): DETECTED", o, flags=re.M)
            res["detected_by"] = det
            res["status"] = "confirmed"
            # package
            dst = os.path.join("/verif/seeded", sid)
            shutil.rmtree(dst, ignore_errors=True)
            os.makedirs(os.path.join(dst, "demo"))
            shutil.copy(patch, os.path.join(dst, "patch.diff"))
            for f in demos:
                shutil.copy(f, os.path.join(dst, "demo"))
            if notes:
                open(os.path.join(dst, "notes.md"), "w").write(notes)
            meta = {
                "id": sid, "breaks_property": prop,
                "needs_to_manifest": (re.search(r"(?is)(what it needs|needs|trigger)[^\n]*\n?(.{0,500})", notes) or [None, "", ""])[2].strip()[:500] if notes else "",
                "demo_placement": placed,
                "ran": [
                    "scratch worktree of /repo HEAD %s under /tmp (removed afterwards)" % sh("git -C /repo rev-parse --short HEAD")[1].strip(),
                    "git apply patch.diff; (cd module && go build ./... && go test -vet=off -count=1 ./x/...) -> passes with the change",
                ] + ["%s -> rc=%d (with change)" % (c, r) for c, r, _ in logs_with] + ["%s -> rc=%d (without change)" % (c, r) for c, r, _ in logs_without]
                + ["git -C /repo apply patch.diff; quick checks; git -C /repo checkout -- .  -> detected by %s" % (",".join(det) or "NONE")],
                "detected_by": det,
            }
            json.dump(meta, open(os.path.join(dst, "meta.json"), "w"), indent=1)
        finally:
            out[sid] = res
            print(sid, res["status"], res.get("detected_by"), flush=True)
            sh("git -C /repo worktree remove --force %s" % wt)
            shutil.rmtree(wt, ignore_errors=True)
    json.dump(out, open("/tmp/confirm_seeds_result.json", "w"), indent=1)


if __name__ == "__main__":
    main()
