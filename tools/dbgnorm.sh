#!/bin/bash
# usage: dbgnorm.sh <patch> <property> — shows what remains after normalisation
cd /tmp/wt-run-1 && git checkout -- . && git clean -fdq && git apply $1 && mkdir -p /tmp/normdump && rm -f /tmp/normdump/* ; MHUBSA_DUMPNORM=/tmp/normdump MHUBSA_DEBUGNORM=1 MHUBSA_REPO=/tmp/wt-run-1 MHUBSA_VERIF=/tmp/trymut-verif-1 /verif/bin/mhubsa -property $2 2>&1 | grep "normalised-\|abandon\|does not load" | cut -c1-700; git checkout -- .
